package main

import (
	"fmt"
	"golang.org/x/tools/go/ssa"
	"strings"
)

// Rules on the two mirror passes mainToShadow / shadowToMain (C11-R4/R6/R7, C20-R6, C03, C10).

// mirrorIter finds the DBI name element of an iteration path.
func mirrorElem(c *Check, p *Path) (elem string, private, found bool) {
	for _, cd := range p.Conds() {
		a := cd.Atom.A
		if cd.Atom.Kind == "bool" && strings.HasPrefix(a, "strings.HasPrefix(lmdbenv.ReadDBINames@") && strings.HasSuffix(a, ", const:\"_sync\")") {
			return strings.TrimSuffix(strings.TrimPrefix(a, "strings.HasPrefix("), ", const:\"_sync\")"), cd.Truth, true
		}
	}
	// the names were filtered before the loop: lo.Filter(ReadDBINames, pred) with
	// pred(name) ⇔ name does not have the private prefix (library contract: the
	// elements for which pred holds, in order). The iteration's element is then
	// an application DBI.
	if e, ok := filteredAppElem(c, p); ok {
		return e, false, true
	}
	return "", false, false
}

// filteredAppElem: the path is inside a loop over lo.Filter(ReadDBINames, pred)
// with pred(name) ⇔ name is not private, or over lo.Reject(ReadDBINames, pred)
// with pred(name) ⇔ name is private: the element of this round, an application
// DBI name.
func filteredAppElem(c *Check, p *Path) (string, bool) {
	for _, callee := range []string{"github.com/samber/lo.Filter", "github.com/samber/lo.Reject"} {
		for _, fl := range callsOf(p, callee) {
			if len(fl.Args) != 2 || !strings.HasPrefix(fl.Args[0], "lmdbenv.ReadDBINames@") || !strings.HasSuffix(fl.Args[0], "#0") {
				continue
			}
			if !predPrivate(c, fl.Args[1], strings.HasSuffix(callee, "Reject")) {
				continue
			}
			for _, cd := range p.Conds() {
				a := cd.Atom
				if a.Kind == "cmp" && a.B == "len("+fl.Res+")" && strings.HasPrefix(a.A, "(loop:") && p.State.RelOf(a.Dom, a.A, a.B) == LT {
					return fl.Res + "[" + a.A + "]", true
				}
			}
		}
	}
	return "", false
}

func predIsNotPrivate(c *Check, fv string) bool { return predPrivate(c, fv, false) }

// predIsNotPrivate: the function value fv (as rendered in a call argument)
// returns true exactly for names without the private "_sync" prefix.
// predPrivate: the function value fv returns true exactly for names with the
// private "_sync" prefix (want = true) or exactly for names without it (want = false).
func predPrivate(c *Check, fv string, want bool) bool {
	pred := c.P.Func(strings.TrimPrefix(strings.TrimPrefix(fv, "closure:"), "func:"))
	if pred == nil || len(pred.Params) == 0 {
		return false
	}
	test := "strings.HasPrefix(param:" + pred.Params[0].Name() + ", const:\"_sync\")"
	w := Walk(c.P, pred, WalkConfig{})
	if w.Err != nil || len(w.Paths) == 0 {
		return false
	}
	for i := range w.Paths {
		q := &w.Paths[i]
		if q.End != "return" || len(q.Rets) != 1 {
			return false
		}
		r := q.Rets[0]
		priv, f := boolCond(q, test, -1)
		switch {
		case !want && r == "!"+test:
		case want && r == test:
		case r == "const:true" && f && priv == want:
		case r == "const:false" && f && priv != want:
		default:
			return false
		}
	}
	return true
}

func dupsortOnPath(c *Check, p *Path, flagsRes string) (ds, known bool) {
	dsv, _ := c.constValue2("github.com/PowerDNS/lmdb-go/lmdb", "DupSort")
	atom := "(" + flagsRes + "#0 & const:" + dsv + ")"
	for _, cd := range p.Conds() {
		if cd.Atom.Kind == "cmp" && (cd.Atom.A == atom || cd.Atom.B == atom) {
			r := p.State.RelOf("int", atom, "const:0")
			return r == GT, r == GT || r&GT == 0
		}
	}
	return false, false
}

func ruleMainToShadow(c *Check, rLoop, rPair, rFlags string) {
	fn, paths := c.walkFn(rLoop, fnMainToSh, WalkConfig{})
	if paths == nil {
		return
	}
	pos := c.P.Pos(fn.Pos())
	txn, ts := param(fn, 2), param(fn, 3)
	intKey, _ := c.constValue("lmdbenv/dbiflags", "IntegerKey")
	nIter, nUpd, nSkip, bad, badP, badF := 0, 0, 0, 0, 0, 0
	for i := range paths {
		p := &paths[i]
		elem, private, f := mirrorElem(c, p)
		if !f {
			if len(callsOf(p, fnIterUpd))+len(callsOf(p, fnReadDBI)) > 0 {
				bad++
				c.Bad(rLoop, fnMainToSh+"/listing-fresh", "a DBI is processed on a path whose DBI names do not come from lmdbenv.ReadDBINames on this transaction in this call (e.g. a listing cached from earlier): DBIs created meanwhile in the same transaction are passed over", c.pathPos(p), describe(c, p))
			}
			continue
		}
		nIter++
		iu := callsOf(p, fnIterUpd)
		if private {
			nSkip++
			if len(iu) != 0 || len(callsOf(p, fnReadDBI)) != 0 {
				bad++
				c.Bad(rLoop, fnMainToSh+"/private-skipped", "a private DBI is captured", c.pathPos(p), nil)
			}
			continue
		}
		if len(iu) == 0 {
			if strings.HasPrefix(p.End, "backedge:") || p.End == "return" && retIsNilErr(p) {
				bad++
				c.Bad(rLoop, fnMainToSh+"/dbi-skipped", "an application DBI is passed over by the capture pass without IterUpdate and without an error: changes in it (in particular the deletion of its last keys) would never be captured", c.pathPos(p), describe(c, p))
			}
			continue
		}
		nUpd++
		u := iu[0]
		rd := callsOf(p, fnReadDBI)
		ni := callsOf(p, fnNewNative)
		okRead := len(rd) == 1 && rd[0].Args[1] == txn && rd[0].Args[2] == elem && rd[0].Args[3] == elem && rd[0].Args[4] == "const:true"
		var target, src *Event
		for _, od := range callsOf(p, "(*lmdb.Txn).OpenDBI") {
			if od.Res+"#0" == u.Args[1] {
				target = od
			}
			if od.Args[1] == elem {
				src = od
			}
		}
		var fl *Event
		for _, f := range callsOf(p, "(*lmdb.Txn).Flags") {
			if src != nil && f.Args[1] == src.Res+"#0" {
				fl = f
			}
		}
		ok := okRead && len(ni) == 1 && target != nil && u.Args[0] == txn && u.Args[2] == ni[0].Res+"#0" &&
			target.Args[1] == "(const:\"_sync_shadow_\" + "+elem+")"
		if !ok {
			bad++
			c.Bad(rLoop, fnMainToSh+"/capture-shape", "the capture of a DBI is not readDBI(txn, name, name, raw) → IterUpdate(txn, shadow DBI \"_sync_shadow_\"+name, native iterator)", evPos(c, u), describe(c, p))
			continue
		}
		// shadow DBI flags: exactly MDB_INTEGERKEY of the application DBI
		wantFlags := ""
		if fl != nil {
			wantFlags = "(const:262144 | (" + fl.Res + "#0 & const:" + intKey + "))"
		}
		if fl == nil || target.Args[2] != wantFlags {
			badF++
			c.Bad(rFlags, fnMainToSh+"/shadow-flags", "the shadow DBI is created with flags "+target.Args[2]+"; expected Create | (flags of the application DBI & MDB_INTEGERKEY): the shadow DBI must sort like the application DBI", evPos(c, target), nil)
		}
		// iterator: current versions, detection time as default timestamp, this txn's id
		a := ni[0].Args
		cur, _ := c.constValue("snapshot", "CurrentFormatVersion")
		idOK := false
		for _, idc := range callsOf(p, "(*lmdb.Txn).ID") {
			if idc.Res == a[4] && idc.Args[0] == txn {
				idOK = true
			}
		}
		if a[0] != "const:"+cur || a[3] != ts || !idOK {
			bad++
			c.Bad(rLoop, fnMainToSh+"/iterator-args", fmt.Sprintf("capture iterator constructed with %v; expected the current format version, the detection time as default timestamp and txn.ID()", a), evPos(c, ni[0]), nil)
		}
		// dupsort pairing: encode iff dupsort (and the hack is enabled)
		if fl != nil {
			ds, known := dupsortOnPath(c, p, fl.Res)
			enc := callsOf(p, "syncer.dupSortHackEncode")
			hack, hf := condTruth(p, ".lc.DupSortHack", -1)
			switch {
			case !known:
				badP++
				c.Bad(rPair, fnMainToSh+"/dupsort-tested", "the capture does not test MDB_DUPSORT of the application DBI", c.pathPos(p), nil)
			case ds:
				if !(len(enc) == 1 && enc[0].Args[0] == rd[0].Res+"#0" && a[2] == enc[0].Res+"#0" && hf && hack) {
					badP++
					c.Bad(rPair, fnMainToSh+"/dupsort-encoded", "a duplicate-keys DBI is captured without dupSortHackEncode (or with the hack disabled): duplicate keys would collapse in the shadow DBI", c.pathPos(p), describe(c, p))
				}
			default:
				if len(enc) != 0 || a[2] != rd[0].Res+"#0" {
					badP++
					c.Bad(rPair, fnMainToSh+"/plain-not-encoded", "a plain DBI is captured through the dupsort encoding (or not from the data just read)", c.pathPos(p), nil)
				}
			}
		}
	}
	if bad == 0 {
		c.Ok(rLoop, fnMainToSh+"/loop", fmt.Sprintf("%d iteration paths over ReadDBINames(txn): %d private names skipped, %d reach IterUpdate(txn, shadow DBI, iterator(raw dump of the DBI, detection time, txn.ID())); no application DBI is passed over", nIter, nSkip, nUpd), pos)
	}
	c.Floor(rLoop, nUpd, 3, "capturing iterations of mainToShadow")
	if badP == 0 {
		c.Ok(rPair, fnMainToSh+"/dupsort-pairing", "dupSortHackEncode is applied exactly for MDB_DUPSORT DBIs (with the hack enabled; disabled ⇒ error)", pos)
	}
	if badF == 0 {
		c.Ok(rFlags, fnMainToSh+"/shadow-flags", "shadow DBIs are created with Create | (application DBI flags & MDB_INTEGERKEY)", pos)
	}
}

func ruleShadowToMain(c *Check, rLoop, rPair string) {
	fn, paths := c.walkFn(rLoop, fnShToMain, WalkConfig{})
	if paths == nil {
		return
	}
	pos := c.P.Pos(fn.Pos())
	txn := param(fn, 2)
	nIter, nUpd, nSkip, bad, badP := 0, 0, 0, 0, 0
	nEmpty, nIterU := 0, 0
	for i := range paths {
		p := &paths[i]
		elem, private, f := mirrorElem(c, p)
		if !f {
			if len(callsOf(p, fnIterUpd, fnEmptyPut))+len(callsOf(p, fnReadDBI)) > 0 {
				bad++
				c.Bad(rLoop, fnShToMain+"/listing-fresh", "a DBI is processed on a path whose DBI names do not come from lmdbenv.ReadDBINames on this transaction in this call (e.g. a listing cached from earlier): DBIs created meanwhile in the same transaction are passed over", c.pathPos(p), describe(c, p))
			}
			continue
		}
		nIter++
		strat := callsOf(p, fnIterUpd, fnEmptyPut)
		if private {
			nSkip++
			if len(strat) != 0 {
				bad++
				c.Bad(rLoop, fnShToMain+"/private-skipped", "a private DBI is projected", c.pathPos(p), nil)
			}
			continue
		}
		if len(strat) == 0 {
			if strings.HasPrefix(p.End, "backedge:") || p.End == "return" && retIsNilErr(p) {
				bad++
				c.Bad(rLoop, fnShToMain+"/dbi-skipped", "an application DBI is passed over by the projection without a strategy call and without an error", c.pathPos(p), describe(c, p))
			}
			continue
		}
		nUpd++
		u := strat[0]
		rd := callsOf(p, fnReadDBI)
		var target *Event
		for _, od := range callsOf(p, "(*lmdb.Txn).OpenDBI") {
			if od.Res+"#0" == u.Args[1] {
				target = od
			}
		}
		ok := len(rd) == 1 && rd[0].Args[1] == txn && rd[0].Args[2] == "(const:\"_sync_shadow_\" + "+elem+")" && rd[0].Args[3] == elem && rd[0].Args[4] == "const:false" &&
			target != nil && target.Args[1] == elem && target.Args[2] == "const:0" && u.Args[0] == txn
		if !ok {
			bad++
			c.Bad(rLoop, fnShToMain+"/project-shape", "the projection of a DBI is not readDBI(txn, \"_sync_shadow_\"+name, name, headers split) → strategy(txn, application DBI, plain iterator)", evPos(c, u), describe(c, p))
			continue
		}
		var fl *Event
		for _, f := range callsOf(p, "(*lmdb.Txn).Flags") {
			if f.Args[1] == target.Res+"#0" {
				fl = f
			}
		}
		if fl == nil {
			badP++
			c.Bad(rPair, fnShToMain+"/dupsort-tested", "the projection does not read the application DBI's flags", c.pathPos(p), nil)
			continue
		}
		ds, known := dupsortOnPath(c, p, fl.Res)
		dec := callsOf(p, "syncer.dupSortHackDecode")
		// iterator data
		itArg := u.Args[2]
		switch {
		case !known:
			badP++
			c.Bad(rPair, fnShToMain+"/dupsort-tested", "the projection does not test MDB_DUPSORT of the application DBI", c.pathPos(p), nil)
		case ds:
			nEmpty++
			hack, hf := condTruth(p, ".lc.DupSortHack", -1)
			if !(u.Callee == fnEmptyPut && len(dec) == 1 && dec[0].Args[0] == rd[0].Res+"#0" && strings.Contains(itArg, dec[0].Res+"#0") && hf && hack) {
				badP++
				c.Bad(rPair, fnShToMain+"/dupsort-decoded", "a duplicate-keys DBI is not projected as dupSortHackDecode → EmptyPut (rebuild), with the hack enabled", evPos(c, u), describe(c, p))
			}
		default:
			nIterU++
			if !(u.Callee == fnIterUpd && len(dec) == 0 && strings.Contains(itArg, rd[0].Res+"#0")) {
				badP++
				c.Bad(rPair, fnShToMain+"/plain-iterupdate", "a plain (non-dupsort) DBI is not projected with IterUpdate on the undecoded shadow dump: "+u.Callee+" (a rebuild with EmptyPut rewrites the whole DBI on every load)", evPos(c, u), describe(c, p))
			}
		}
		if !strings.HasPrefix(itArg, "&{DBIMsg: ") {
			bad++
			c.Bad(rLoop, fnShToMain+"/plain-iterator", "the projection does not use a PlainIterator over the shadow dump: "+itArg, evPos(c, u), nil)
		}
	}
	if bad == 0 {
		c.Ok(rLoop, fnShToMain+"/loop", fmt.Sprintf("%d iteration paths: %d private names skipped, %d project readDBI(shadow DBI, headers split out) into the application DBI through a PlainIterator; no application DBI is passed over", nIter, nSkip, nUpd), pos)
	}
	c.Floor(rLoop, nUpd, 3, "projecting iterations of shadowToMain")
	if badP == 0 {
		c.Ok(rPair, fnShToMain+"/dupsort-pairing", fmt.Sprintf("%d dupsort paths: decode → EmptyPut; %d plain paths: IterUpdate on the shadow dump as is; the choice follows the application DBI's own MDB_DUPSORT flag", nEmpty, nIterU), pos)
	}
	c.Floor(rPair, nEmpty, 1, "dupsort projection paths")
	c.Floor(rPair, nIterU, 1, "plain projection paths")
}

// ruleSyncedIdBound (C09-R5 / C03-R6): the id a load or send reports as synced
// is bounded by what LMDB actually recorded.
func ruleSyncedIdBound(c *Check, rule string) {
	for _, name := range []string{fnLoadOnce, fnSendOnce} {
		fn, paths := c.walkFn(rule, name, WalkConfig{Memo: true,
			KeepEvent: func(e *Event) bool {
				return e.Kind == "ret" || e.Kind == "call" && (strings.Contains(e.Callee, "lmdb.Env") || strings.Contains(e.Callee, "$bound"))
			},
			KeepAtom: func(a Atom) bool {
				s := a.String()
				return strings.Contains(s, "Info@") || strings.Contains(s, "isnil((*lmdb.Env)") || strings.Contains(s, "$bound@")
			}})
		if paths == nil {
			continue
		}
		n, bad := 0, 0
		// the function's first (named) result: the transaction id it reports
		own := "local:" + fn.Signature.Results().At(0).Name()
		for i := range paths {
			p := &paths[i]
			if p.End != "return" || !retIsNilErr(p) {
				continue
			}
			n++
			id := p.Rets[0]
			var info string
			for _, e := range callsOf(p, "(*lmdb.Env).Info") {
				info = "conv:uint64(" + e.Res + "#0.LastTxnID)"
			}
			switch {
			case id == own:
				// the id of our own transaction: only if LMDB's LastTxnID is not below it
				if info == "" || p.State.RelOf("int", info, own)&LT != 0 {
					bad++
					c.Bad(rule, name+"/unadjusted-id", "the transaction's own id is reported as synced on a path that has not established LastTxnID >= that id: an empty write transaction is not recorded by LMDB and its id is reused by the next commit, which would then never be noticed", c.pathPos(p), describe(c, p))
				}
			case info != "" && (id == "builtin:min("+own+", "+info+")" || id == "builtin:min("+info+", "+own+")"):
				// min(txn.ID(), LastTxnID) computed directly
			case info != "" && id == info:
				if p.State.RelOf("int", info, own) != LT {
					bad++
					c.Bad(rule, name+"/adjusted-upwards", "LastTxnID is reported as synced on a path where it may be above the id of the transaction that was read: commits that happened after the dump would be considered synced", c.pathPos(p), describe(c, p))
				}
			default:
				bad++
				c.Bad(rule, name+"/id-origin", "the id reported as synced is "+id+": neither the transaction's id nor LMDB's LastTxnID", c.pathPos(p), nil)
			}
		}
		if bad == 0 {
			c.Ok(rule, name+"/synced-id-bounded", fmt.Sprintf("%d success paths report min(txn.ID(), LastTxnID): the transaction's id only when LastTxnID >= it, LastTxnID only when strictly below it", n), c.P.Pos(fn.Pos()))
		}
		c.Floor(rule, n, 2, "success paths of "+name)
	}
}

// ruleCommittedCopied: the cleaner's committed map is a private copy (C05-R5c, C12-R5c, C17).
func ruleCommittedCopied(c *Check, rule string) {
	ws := fieldWriters(c.P, "Worker", "lastByInstance")
	bad := 0
	for fnName, ins := range ws {
		for _, in := range ins {
			if fnName == "syncer/cleaner.New" {
				continue
			}
			bad++
			c.Bad(rule, "writer:"+fnName, "the cleaner's committed map field is assigned or indexed directly in "+fnName+" (outside the constructor): sharing the caller's map makes every merge look 'merged and re-published' before the upload, and races with the sync loop", c.P.InstrPos(in), nil)
		}
	}
	name := "syncer/cleaner.(*Worker).SetCommitted"
	fn, paths := c.walkFn(rule, name, WalkConfig{})
	if paths == nil {
		return
	}
	ok := len(paths) > 0
	for i := range paths {
		p := &paths[i]
		cp := p.Calls(func(s string) bool { return strings.HasPrefix(s, "maps.Copy") })
		if len(cp) != 1 || !strings.HasSuffix(cp[0].Args[0], ".lastByInstance") || cp[0].Args[1] != param(fn, 1) || len(cp[0].Held) != 1 {
			ok = false
		}
	}
	if ok && bad == 0 {
		c.Ok(rule, name, "SetCommitted copies the caller's map into the cleaner's own map (maps.Copy under the cleaner's mutex); the field is never assigned outside the constructor", c.P.Pos(fn.Pos()))
	} else if !ok {
		c.Bad(rule, name+"/copy", "SetCommitted does not copy the caller's entries into its own map under its mutex", c.P.Pos(fn.Pos()), nil)
	}
}

// ruleShadowCreateMask (C11-R4c): LoadOnce creates a missing shadow DBI with
// the snapshot's flags masked to MDB_INTEGERKEY.
func ruleShadowCreateMask(c *Check, rule string) {
	fn, paths := c.walkFn(rule, fnLoadTxn, WalkConfig{})
	if paths == nil {
		return
	}
	mask, _ := c.constValue("syncer", "AllowedShadowDBIFlagsMask")
	n, bad := 0, 0
	for _, it := range loadIterations(c, paths) {
		p := it.p
		for _, od := range callsOf(p, "(*lmdb.Txn).OpenDBI") {
			if strings.HasPrefix(od.Args[1], "(const:\"_sync_shadow_\" + ") && strings.Contains(od.Args[2], "const:262144") {
				n++
				if !strings.HasSuffix(od.Args[2], " & const:"+mask+"))") && !strings.HasSuffix(od.Args[2], " & const:"+mask+")))") {
					bad++
					c.Bad(rule, fnLoadTxn+"/shadow-create-mask", "a shadow DBI is created from a snapshot with flags "+od.Args[2]+": they must be masked to MDB_INTEGERKEY (a shadow DBI must sort like the application DBI and must never be DUPSORT)", evPos(c, od), nil)
				}
			}
		}
	}
	if bad == 0 {
		c.Ok(rule, fnLoadTxn+"/shadow-create-mask", fmt.Sprintf("%d paths creating a shadow DBI from a snapshot mask the flags with AllowedShadowDBIFlagsMask (MDB_INTEGERKEY)", n), c.P.Pos(fn.Pos()))
	}
	c.Floor(rule, n, 1, "shadow DBI creations in LoadOnce body")
}

// ruleRawReadRestored (C11-R8): readDBI switches the transaction to raw reads
// for the dump and restores the previous mode on every exit.
func ruleRawReadRestored(c *Check, rule string) {
	fn, paths := c.walkFn(rule, fnReadDBI, WalkConfig{Memo: true,
		KeepEvent: func(e *Event) bool {
			return e.Kind == "ret" || e.Kind == "defer" || e.Kind == "store" && strings.HasSuffix(e.Addr, ".RawRead") || e.Kind == "call" && (strings.Contains(e.Callee, "readDBI$") || e.Defd)
		},
		KeepAtom: func(a Atom) bool { return false }})
	if paths == nil {
		return
	}
	txn := param(fn, 1)
	n, bad := 0, 0
	for i := range paths {
		p := &paths[i]
		set := -1
		for j, e := range p.Events {
			if e.Kind == "store" && e.Addr == "&"+txn+".RawRead" && e.Val == "const:true" {
				set = j
			}
		}
		if set < 0 || p.End != "return" {
			continue
		}
		n++
		restored := false
		for _, e := range p.Events[set:] {
			if e.Kind == "call" && e.Defd && e.Static != nil && unknownHelper(e.Static, 0) && e.Static.Signature.Recv() != nil && len(e.Args) > 0 && len(e.Static.Params) > 0 {
				// a deferred method of a small holder struct: it stores one of its
				// receiver's fields into the RawRead of another; at the defer site
				// those fields are the mode read before the switch and this transaction
				recv := "param:" + e.Static.Params[0].Name() + "."
				lit := strings.TrimPrefix(e.Args[0], "&")
				w := Walk(c.P, e.Static, WalkConfig{})
				for k := range w.Paths {
					for _, ce := range w.Paths[k].Events {
						if ce.Kind != "store" || !strings.HasPrefix(ce.Addr, "&"+recv) || !strings.HasSuffix(ce.Addr, ".RawRead") || !strings.HasPrefix(ce.Val, recv) {
							continue
						}
						tf := strings.TrimSuffix(strings.TrimPrefix(ce.Addr, "&"+recv), ".RawRead")
						sf := strings.TrimPrefix(ce.Val, recv)
						tv, ok1 := litField(lit, tf)
						sv, ok2 := litField(lit, sf)
						if ok1 && ok2 && tv == txn && sv == txn+".RawRead" {
							restored = true
						}
					}
				}
			}
			if e.Kind == "call" && e.Defd && strings.HasPrefix(e.Callee, fnReadDBI+"$") {
				cl := c.P.Func(e.Callee)
				if cl != nil {
					w := Walk(c.P, cl, WalkConfig{})
					for k := range w.Paths {
						for _, ce := range w.Paths[k].Events {
							// the value put back is the captured local that was
							// initialised from txn.RawRead before the switch
							saved := freeInitSuffix(fn, cl, ".RawRead")
							if ce.Kind == "store" && strings.HasSuffix(ce.Addr, ".RawRead") && saved != "" && ce.Val == "*free:"+saved {
								restored = closureBinding(fn, cl, saved) == "alloc:"+saved
							}
						}
					}
				}
			}
		}
		if !restored {
			bad++
			c.Bad(rule, fnReadDBI+"/rawread-restored", "readDBI leaves the shared transaction in raw-read mode: slices later returned by cursors alias LMDB pages that the same transaction rewrites (the iterating strategies then read garbage)", c.pathPos(p), describe(c, p))
		}
	}
	if bad == 0 {
		c.Ok(rule, fnReadDBI+"/rawread-restored", fmt.Sprintf("on all %d paths that switch txn.RawRead on, a deferred function restores the saved mode", n), c.P.Pos(fn.Pos()))
	}
	c.Floor(rule, n, 1, "paths setting RawRead")
}

// C11-R8b RAWREAD-ONLY-IN-VIEW: raw-read mode makes cursor results alias LMDB
// pages. That is safe in a read-only transaction; in a write transaction the
// strategies' own writes move the pages under the keys they still hold. The
// complete set of writers of Txn.RawRead is enumerated: readDBI (saves and
// restores, checked above) and SendOnce's transaction body, whose value must be
// false on every path that starts anything but env.View.
func ruleRawReadWriters(c *Check, rule string) {
	// writers in helpers extracted later stand for the known functions that call them
	ws := attributeToOwners(c.P, fieldWriters(c.P, "Txn", "RawRead"))
	sendTxn := fnSendOnce + "$txn"
	n := 0
	for fnName, ins := range ws {
		switch {
		case fnName == fnReadDBI || strings.HasPrefix(fnName, fnReadDBI+"$"):
			n += len(ins)
			continue
		case fnName == sendTxn:
			n += len(ins)
		default:
			for _, in := range ins {
				st, ok := in.(*ssa.Store)
				if ok {
					if k, isC := st.Val.(*ssa.Const); isC && k.Value != nil && k.Value.String() == "false" {
						n++
						continue
					}
				}
				c.Bad(rule, fnName+"/rawread-writer", "txn.RawRead is switched by a function outside the enumerated set (readDBI with restore, SendOnce's read-only transaction): in a write transaction, keys returned by cursors then alias pages the same transaction rewrites", c.P.InstrPos(in), nil)
			}
		}
	}
	cl := c.P.Func(sendTxn)
	if cl == nil {
		c.Undecided(rule, sendTxn, "SendOnce's transaction body not found", "")
		return
	}
	// what the body stores into txn.RawRead
	var src string
	nst := 0
	for _, in := range ws[sendTxn] {
		st, ok := in.(*ssa.Store)
		if !ok {
			continue
		}
		nst++
		switch v := st.Val.(type) {
		case *ssa.Const:
			src = "const:" + v.Value.String()
		case *ssa.UnOp:
			if fv, ok := v.X.(*ssa.FreeVar); ok {
				src = closureBinding(c.P.Func(fnSendOnce), cl, fv.Name())
			}
			if fa, ok := v.X.(*ssa.FieldAddr); ok && envRecv(fa.X) {
				src = closureBinding(c.P.Func(fnSendOnce), cl, fieldNameOf(fa))
			}
		}
	}
	if nst != 1 || src == "" {
		c.Undecided(rule, sendTxn+"/rawread", "the transaction body does not set txn.RawRead exactly once from a constant or a captured variable", c.P.Pos(cl.Pos()))
		return
	}
	// the mode may be a value that a branch of SendOnce tests (txnRawRead := schemaTracksChanges):
	// conditions on the values stored into the mode variable are kept, so that a path that
	// starts the write transaction under "!mode" is read as mode == false
	modeVals := map[string]bool{}
	walk := func() (*ssa.Function, []Path) {
		return c.walkFn(rule, fnSendOnce, WalkConfig{Memo: true,
			KeepEvent: func(e *Event) bool {
				return e.Kind == "ret" || e.Kind == "store" && (strings.Contains(e.Addr, "RawRead") || strings.HasPrefix(src, "alloc:") && e.Addr == "&"+src) || e.Kind == "call" && strings.Contains(e.Callee, "lmdb.Env)")
			},
			KeepAtom: func(a Atom) bool { return a.Kind == "bool" && modeVals[a.A] }})
	}
	fn, paths := walk()
	if paths == nil {
		return
	}
	if !strings.HasPrefix(src, "const:") {
		modeVals[src] = true
	}
	for i := range paths {
		for j := range paths[i].Events {
			e := &paths[i].Events[j]
			if e.Kind == "store" && strings.HasPrefix(src, "alloc:") && e.Addr == "&"+src && !strings.HasPrefix(e.Val, "const:") {
				modeVals[e.Val] = true
			}
		}
	}
	if len(modeVals) > 0 {
		fn, paths = walk()
	}
	if paths == nil {
		return
	}
	nView, nWrite, bad := 0, 0, 0
	for i := range paths {
		p := &paths[i]
		val := src
		if envMethods[cl] != nil && strings.HasPrefix(src, "alloc:") {
			val = "const:false" // a field of the freshly built environment struct: zero until assigned
		}
		for j := range p.Events {
			e := &p.Events[j]
			if e.Kind == "store" && strings.HasPrefix(src, "alloc:") && e.Addr == "&"+src {
				val = e.Val
			}
			if e.Kind != "call" || len(e.Args) == 0 || e.Args[len(e.Args)-1] != "closure:"+sendTxn {
				continue
			}
			isView := strings.HasPrefix(e.Callee, "(*lmdb.Env).View")
			if isView {
				nView++
				continue
			}
			nWrite++
			if val != "const:false" {
				for k := 0; k < j; k++ {
					if ce := &p.Events[k]; ce.Kind == "cond" && ce.Cond.Atom.Kind == "bool" && ce.Cond.Atom.A == val && !ce.Cond.Truth {
						val = "const:false" // the path reaches the write transaction under !val
					}
				}
			}
			if val != "const:false" {
				bad++
				c.Bad(rule, fnSendOnce+"/rawread-in-write-txn", fmt.Sprintf("the snapshot transaction is started with %s while its body switches txn.RawRead to %s: mainToShadow's IterUpdate then holds keys that alias pages it rewrites (deletion markers are stored under garbage keys)", e.Callee, val), c.pathPos(p), describe(c, p))
			}
		}
	}
	if bad == 0 {
		c.Ok(rule, fnSendOnce+"/rawread-only-in-view", fmt.Sprintf("%d writers of Txn.RawRead enumerated; SendOnce's body takes the mode from %s, which is false on all %d path classes that start a write transaction (true only under env.View: %d)", n, src, nWrite, nView), c.P.Pos(fn.Pos()))
	}
	c.Floor(rule, nWrite, 1, "SendOnce paths starting a write transaction")
	c.Floor(rule, nView, 1, "SendOnce paths starting a read-only transaction")
}
