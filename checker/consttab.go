package main

import (
	"go/token"
	"go/types"
	"sort"
	"strings"

	"golang.org/x/tools/go/ssa"
)

// Constant package-level tables.
//
// A refactoring may move repeated code into a package-level table (a map or
// slice literal) that is only ever read. Such a variable is as good as a
// constant: it is assigned once, in the package initialiser, from a literal
// with constant keys and constant / function / struct-of-those values, and no
// function of the repository stores into it, updates it through a loaded
// value, or hands it to a call that could. The walker then reads a lookup in
// the table like the switch it replaced: one continuation per entry with the
// key pinned to that entry's key (plus one for "no entry"), and a load of a
// constant byte-slice table gives its elements.

type constEntry struct {
	key string // canonical constant ("const:3", "const:true", "const:\"x\"")
	val string // canonical value (constant, func:..., or {field: value; ...})
}

type constTab struct {
	kind    string // "map" or "slice"
	entries []constEntry
}

// globalTable returns the constant table held by g, or nil.
func (p *Program) globalTable(g *ssa.Global) *constTab {
	if p.tabCache == nil {
		p.tabCache = map[*ssa.Global]*constTab{}
		p.tabMutable = mutatedGlobals(p)
	}
	if t, ok := p.tabCache[g]; ok {
		return t
	}
	p.tabCache[g] = nil
	if g.Pkg == nil || !strings.HasPrefix(g.Pkg.Pkg.Path(), modPath) || p.tabMutable[g] {
		return nil
	}
	init := g.Pkg.Func("init")
	if init == nil {
		return nil
	}
	var stored ssa.Value
	n := 0
	for _, b := range init.Blocks {
		for _, in := range b.Instrs {
			if st, ok := in.(*ssa.Store); ok && st.Addr == ssa.Value(g) {
				stored = st.Val
				n++
			}
		}
	}
	if n == 0 {
		// an array variable: initialised element by element in place
		if pt, ok := g.Type().Underlying().(*types.Pointer); ok {
			if arr, ok := pt.Elem().Underlying().(*types.Array); ok && arr.Len() <= 16 {
				vals := make([]string, arr.Len())
				for i := range vals {
					vals[i] = "const:0"
				}
				okAll := true
				for _, b := range init.Blocks {
					for _, in := range b.Instrs {
						ia, ok := in.(*ssa.IndexAddr)
						if !ok || ia.X != ssa.Value(g) {
							continue
						}
						ix, isK := ia.Index.(*ssa.Const)
						if !isK || ia.Referrers() == nil {
							okAll = false
							continue
						}
						for _, r := range *ia.Referrers() {
							st, ok := r.(*ssa.Store)
							if !ok {
								okAll = false
								continue
							}
							v, ok := constValueCanon(st.Val, 0)
							if !ok || ix.Int64() < 0 || ix.Int64() >= arr.Len() {
								okAll = false
								continue
							}
							vals[ix.Int64()] = v
						}
					}
				}
				if okAll {
					tab := &constTab{kind: "array"}
					for i, v := range vals {
						tab.entries = append(tab.entries, constEntry{key: "const:" + itoa(i), val: v})
					}
					p.tabCache[g] = tab
					return tab
				}
			}
		}
		return nil
	}
	if n != 1 {
		return nil
	}
	var tab *constTab
	switch x := stored.(type) {
	case *ssa.MakeMap:
		tab = &constTab{kind: "map"}
		if x.Referrers() == nil {
			return nil
		}
		for _, r := range *x.Referrers() {
			switch u := r.(type) {
			case *ssa.MapUpdate:
				k, ok1 := constCanon(u.Key)
				v, ok2 := constValueCanon(u.Value, 0)
				if !ok1 || !ok2 {
					return nil
				}
				tab.entries = append(tab.entries, constEntry{k, v})
			case *ssa.Store, *ssa.DebugRef:
			default:
				return nil
			}
		}
	case *ssa.Slice:
		// a slice literal: elements stored into a fresh array
		al, ok := x.X.(*ssa.Alloc)
		if !ok || al.Referrers() == nil || x.Low != nil || x.High != nil {
			return nil
		}
		arr, ok := al.Type().Underlying().(*types.Pointer).Elem().Underlying().(*types.Array)
		if !ok {
			return nil
		}
		vals := make([]string, arr.Len())
		zero := "const:0"
		for i := range vals {
			vals[i] = zero
		}
		for _, r := range *al.Referrers() {
			switch u := r.(type) {
			case *ssa.IndexAddr:
				ix, ok := u.Index.(*ssa.Const)
				if !ok || u.Referrers() == nil {
					return nil
				}
				for _, rr := range *u.Referrers() {
					st, ok := rr.(*ssa.Store)
					if !ok {
						return nil
					}
					v, ok := constValueCanon(st.Val, 0)
					if !ok || ix.Int64() < 0 || ix.Int64() >= arr.Len() {
						return nil
					}
					vals[ix.Int64()] = v
				}
			case *ssa.Slice, *ssa.DebugRef:
			default:
				return nil
			}
		}
		tab = &constTab{kind: "slice"}
		for i, v := range vals {
			tab.entries = append(tab.entries, constEntry{key: "const:" + itoa(i), val: v})
		}
	case *ssa.UnOp:
		// an array literal built in a temporary and copied into the variable
		al, ok := x.X.(*ssa.Alloc)
		if x.Op != token.MUL || !ok || al.Referrers() == nil {
			return nil
		}
		arr, ok := al.Type().Underlying().(*types.Pointer).Elem().Underlying().(*types.Array)
		if !ok || arr.Len() > 16 {
			return nil
		}
		vals := make([]string, arr.Len())
		for i := range vals {
			vals[i] = "const:0"
		}
		for _, r := range *al.Referrers() {
			switch u := r.(type) {
			case *ssa.IndexAddr:
				ix, ok := u.Index.(*ssa.Const)
				if !ok || u.Referrers() == nil {
					return nil
				}
				for _, rr := range *u.Referrers() {
					st, ok := rr.(*ssa.Store)
					if !ok {
						return nil
					}
					v, ok := constValueCanon(st.Val, 0)
					if !ok || ix.Int64() < 0 || ix.Int64() >= arr.Len() {
						return nil
					}
					vals[ix.Int64()] = v
				}
			case *ssa.UnOp, *ssa.DebugRef:
			default:
				return nil
			}
		}
		tab = &constTab{kind: "array"}
		for i, v := range vals {
			tab.entries = append(tab.entries, constEntry{key: "const:" + itoa(i), val: v})
		}
		p.tabCache[g] = tab
		return tab
	default:
		return nil
	}
	if tab.kind == "map" {
		sort.SliceStable(tab.entries, func(i, j int) bool { return tab.entries[i].key < tab.entries[j].key })
	}
	p.tabCache[g] = tab
	return tab
}

func itoa(i int) string {
	if i == 0 {
		return "0"
	}
	s := ""
	for i > 0 {
		s = string(rune('0'+i%10)) + s
		i /= 10
	}
	return s
}

func constCanon(v ssa.Value) (string, bool) {
	k, ok := v.(*ssa.Const)
	if !ok {
		return "", false
	}
	return constStr(k), true
}

// constValueCanon renders a table value: a constant, a function, or a struct
// literal of those.
func constValueCanon(v ssa.Value, d int) (string, bool) {
	if d > 3 {
		return "", false
	}
	switch x := v.(type) {
	case *ssa.Const:
		return constStr(x), true
	case *ssa.Function:
		if x.Parent() == nil || len(x.FreeVars) == 0 {
			return "func:" + calleeName(x), true
		}
	case *ssa.MakeClosure:
		if f, ok := x.Fn.(*ssa.Function); ok && len(x.Bindings) == 0 {
			return "func:" + calleeName(f), true
		}
	case *ssa.ChangeType:
		return constValueCanon(x.X, d+1)
	case *ssa.Convert:
		if k, ok := x.X.(*ssa.Const); ok {
			return constStr(k), true
		}
	case *ssa.UnOp:
		if x.Op != token.MUL {
			return "", false
		}
		al, ok := x.X.(*ssa.Alloc)
		if !ok || al.Referrers() == nil {
			return "", false
		}
		stt, ok := al.Type().Underlying().(*types.Pointer).Elem().Underlying().(*types.Struct)
		if !ok {
			return "", false
		}
		var fields []string
		for _, r := range *al.Referrers() {
			switch u := r.(type) {
			case *ssa.FieldAddr:
				if u.Referrers() == nil {
					return "", false
				}
				for _, rr := range *u.Referrers() {
					st, ok := rr.(*ssa.Store)
					if !ok {
						return "", false
					}
					fv, ok := constValueCanon(st.Val, d+1)
					if !ok {
						return "", false
					}
					fields = append(fields, stt.Field(u.Field).Name()+": "+fv)
				}
			case *ssa.UnOp, *ssa.DebugRef:
			default:
				return "", false
			}
		}
		sort.Strings(fields)
		return "{" + strings.Join(fields, "; ") + "}", true
	}
	return "", false
}

// mutatedGlobals: package-level variables that some function other than a
// package initialiser may change: stored to, updated through a loaded map or
// slice, address taken, or handed (loaded) to a call other than a read-only
// builtin or a pure library function.
func mutatedGlobals(p *Program) map[*ssa.Global]bool {
	mut := map[*ssa.Global]bool{}
	readOnlyCallee := func(c *ssa.CallCommon, argIdx int) bool {
		if b, ok := c.Value.(*ssa.Builtin); ok {
			switch b.Name() {
			case "len", "cap":
				return true
			case "append", "copy":
				return argIdx == 1 // the source
			}
			return false
		}
		if f := c.StaticCallee(); f != nil && f.Pkg != nil {
			switch f.Pkg.Pkg.Path() {
			case "bytes", "strings", "slices", "maps":
				switch f.Name() {
				case "Equal", "Compare", "HasPrefix", "HasSuffix", "Contains", "Index", "IndexByte", "Cut":
					return true
				}
			}
		}
		return false
	}
	var loadUse func(g *ssa.Global, v ssa.Value, d int)
	loadUse = func(g *ssa.Global, v ssa.Value, d int) {
		if v.Referrers() == nil || d > 3 {
			mut[g] = true
			return
		}
		for _, r := range *v.Referrers() {
			switch u := r.(type) {
			case *ssa.Lookup, *ssa.Range, *ssa.DebugRef, *ssa.Index:
			case *ssa.IndexAddr:
				if u.Referrers() != nil {
					for _, rr := range *u.Referrers() {
						if ld, ok := rr.(*ssa.UnOp); ok && ld.Op == token.MUL {
							continue
						}
						if _, ok := rr.(*ssa.DebugRef); ok {
							continue
						}
						mut[g] = true
					}
				}
			case *ssa.Slice:
				loadUse(g, u, d+1)
			case *ssa.Call:
				for i, a := range u.Call.Args {
					if a == v && !readOnlyCallee(&u.Call, i) {
						mut[g] = true
					}
				}
				if u.Call.Value == v {
					continue // calling a function held in the table
				}
			case *ssa.Field, *ssa.Extract:
			case *ssa.BinOp, *ssa.Phi, *ssa.If:
			default:
				mut[g] = true
			}
		}
	}
	for _, fn := range p.RepoFuncs() {
		isInit := fn.Name() == "init" || strings.HasPrefix(fn.Name(), "init#")
		for _, b := range fn.Blocks {
			for _, in := range b.Instrs {
				for _, op := range in.Operands(nil) {
					g, ok := (*op).(*ssa.Global)
					if !ok {
						continue
					}
					switch x := in.(type) {
					case *ssa.Store:
						if x.Addr == ssa.Value(g) && isInit {
							continue
						}
						mut[g] = true
					case *ssa.UnOp:
						if x.Op == token.MUL && !isInit {
							loadUse(g, x, 0)
						}
					case *ssa.DebugRef:
					case *ssa.IndexAddr:
						// element of an array variable: reads only (stores in the initialiser)
						if x.X != ssa.Value(g) || x.Referrers() == nil {
							mut[g] = true
							continue
						}
						for _, r := range *x.Referrers() {
							switch u := r.(type) {
							case *ssa.UnOp:
								if u.Op != token.MUL {
									mut[g] = true
								}
							case *ssa.Store:
								if !isInit || u.Addr != ssa.Value(x) {
									mut[g] = true
								}
							case *ssa.DebugRef:
							default:
								mut[g] = true
							}
						}
					default:
						mut[g] = true // address used otherwise
					}
				}
			}
		}
	}
	return mut
}
