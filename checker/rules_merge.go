package main

import (
	"fmt"
	"strings"
)

// Shared rules on the merge decision tables (used by C01, C02, C04, C10, C11, C14, C18).

type mergeUniverse struct {
	TS     []uint64
	Vals   []string
	FVs    []uint64
	Stored []Ver
	In     []In
	InTri  []In // reduced universe for triples
}

func buildUniverse(t *MergeTable, thorough bool) mergeUniverse {
	u := mergeUniverse{}
	n := uint64(3)
	if thorough {
		n = 4
	}
	u.TS = t.tsUniverse(n)
	u.Vals = t.valUniverse(thorough)
	u.FVs = t.fvUniverse()
	u.Stored = append(u.Stored, Ver{})
	for _, ts := range u.TS {
		for _, v := range u.Vals {
			u.Stored = append(u.Stored, Ver{Present: true, TS: ts, Val: v})
		}
		u.Stored = append(u.Stored, Ver{Present: true, TS: ts, Del: true})
	}
	flagsLive := []uint64{0, 2}
	flagsDel := []uint64{1, 3}
	for _, fv := range u.FVs {
		for _, ts := range u.TS {
			for _, v := range u.Vals {
				for _, f := range flagsLive {
					u.In = append(u.In, In{TS: ts, Flags: f, Val: v, FV: fv})
				}
			}
			if fv >= 2 {
				for _, f := range flagsDel {
					u.In = append(u.In, In{TS: ts, Flags: f, Val: "", FV: fv})
				}
			}
		}
	}
	// reduced: ts 0..2, vals {"", a, b}, flags {0,1}, fv {1, current}
	for _, fv := range []uint64{1, 3} {
		for ts := uint64(0); ts < 3; ts++ {
			for _, v := range []string{"", "a", "b"} {
				u.InTri = append(u.InTri, In{TS: ts, Flags: 0, Val: v, FV: fv})
			}
			if fv >= 2 {
				u.InTri = append(u.InTri, In{TS: ts, Flags: 1, Val: "", FV: fv})
			}
		}
	}
	if thorough {
		u.InTri = nil
		for _, fv := range []uint64{1, 2, 3} {
			for ts := uint64(0); ts < 4; ts++ {
				for _, v := range []string{"", "a", "b", "ab"} {
					u.InTri = append(u.InTri, In{TS: ts, Flags: 0, Val: v, FV: fv})
				}
				if fv >= 2 {
					u.InTri = append(u.InTri, In{TS: ts, Flags: 1, Val: "", FV: fv})
				}
			}
		}
	}
	return u
}

var remoteCfgs = []MCfg{{DefTS: 0, Cutoff: 0, Pad: false, CapBuf: 0}, {DefTS: 0, Cutoff: 0, Pad: true, CapBuf: 1024}}

func effTS(in In, cfg MCfg) uint64 {
	if in.TS == 0 {
		return cfg.DefTS
	}
	return in.TS
}

// ruleTableTotal: every cell has exactly one non-error outcome (R1 TABLE-TOTAL),
// and the abstraction is adequate (every condition could be evaluated).
func ruleTableTotal(c *Check, rule string, t *MergeTable, u mergeUniverse, cfgs []MCfg) bool {
	bad := 0
	n := 0
	for _, cfg := range cfgs {
		for _, st := range u.Stored {
			for _, in := range u.In {
				o, err := t.Apply(st, in, cfg)
				n++
				if err != nil {
					c.Undecided(rule, t.Name+"/adequacy", "the decision table uses a quantity the rule has no role for (cannot speak for all inputs): "+err.Error(), c.P.Pos(t.Fn.Pos()))
					return false
				}
				switch o.Kind {
				case "KEEP", "TAKE", "DROP":
				default:
					bad++
					if bad <= 3 {
						pos := ""
						if o.Path >= 0 {
							pos = c.P.InstrPos(t.Paths[o.Path].EndPos)
						}
						c.Bad(rule, fmt.Sprintf("%s/cell:%v×%v", t.Name, st, in), fmt.Sprintf("outcome %s for stored %v, incoming %v, cfg %+v: every cell must have exactly one of keep/take/drop", o.Kind, st, in, cfg), pos, nil)
					}
				}
			}
		}
	}
	c.Evaluations += n
	if bad == 0 {
		c.Ok(rule, t.Name+"/total", fmt.Sprintf("%d cells (stored × incoming × config) each select exactly one path with outcome keep/take/drop; all %d paths' conditions are evaluable from the declared roles", n, len(t.Paths)), c.P.Pos(t.Fn.Pos()))
	}
	return bad == 0
}

// ruleLWWOrder: present ∧ newTS_eff < oldTS ⇒ KEEP ; > ⇒ TAKE with the incoming content.
func ruleLWWOrder(c *Check, rule string, t *MergeTable, u mergeUniverse, cfgs []MCfg) {
	nLT, nGT, bad := 0, 0, 0
	for _, cfg := range cfgs {
		for _, st := range u.Stored {
			if !st.Present {
				continue
			}
			for _, in := range u.In {
				if in.TS == 0 && cfg.DefTS == 0 && false {
					continue
				}
				o, err := t.Apply(st, in, cfg)
				if err != nil {
					return
				}
				e := effTS(in, cfg)
				if in.TS == 0 && st.Val == in.Val {
					continue // capture shortcut: decided by the no-restamp rule
				}
				switch {
				case e < st.TS:
					nLT++
					if o.Kind != "KEEP" {
						bad++
						if bad <= 3 {
							c.Bad(rule, fmt.Sprintf("%s/older-incoming:%v×%v", t.Name, st, in), fmt.Sprintf("incoming timestamp %d is lower than the stored %d but the outcome is %s %v (must keep the stored version)", e, st.TS, o.Kind, o.Ver), c.P.InstrPos(t.Paths[o.Path].EndPos), t.Paths[o.Path].Describe(c.P))
						}
					}
				case e > st.TS:
					nGT++
					want := in.Logical(e)
					if o.Kind != "TAKE" || o.Ver != want {
						bad++
						if bad <= 3 {
							c.Bad(rule, fmt.Sprintf("%s/newer-incoming:%v×%v", t.Name, st, in), fmt.Sprintf("incoming timestamp %d is higher than the stored %d but the outcome is %s %v (must take %v)", e, st.TS, o.Kind, o.Ver, want), c.P.InstrPos(t.Paths[o.Path].EndPos), t.Paths[o.Path].Describe(c.P))
						}
					}
				}
			}
		}
	}
	c.Evaluations += nLT + nGT
	if bad == 0 {
		c.Ok(rule, t.Name+"/lww-order", fmt.Sprintf("%d cells with a lower incoming timestamp keep the stored version; %d cells with a higher one take exactly the incoming (timestamp, deleted, value)", nLT, nGT), c.P.Pos(t.Fn.Pos()))
	}
}

// ruleAbsentAdd: absent key: take the incoming content unless the stale-drop rule applies.
func ruleAbsentAdd(c *Check, rule string, t *MergeTable, u mergeUniverse, cfgs []MCfg) {
	n, bad := 0, 0
	for _, cfg := range cfgs {
		for _, in := range u.In {
			o, err := t.Apply(Ver{}, in, cfg)
			if err != nil {
				return
			}
			n++
			e := effTS(in, cfg)
			want := in.Logical(e)
			stale := in.Flags&1 != 0 && in.TS < cfg.Cutoff
			if stale {
				continue
			}
			if o.Kind != "TAKE" || o.Ver != want {
				bad++
				if bad <= 3 {
					c.Bad(rule, fmt.Sprintf("%s/absent:%v", t.Name, in), fmt.Sprintf("key absent, incoming %v: outcome %s %v, must add %v", in, o.Kind, o.Ver, want), c.P.InstrPos(t.Paths[max(o.Path, 0)].EndPos), nil)
				}
			}
		}
	}
	c.Evaluations += n
	if bad == 0 {
		c.Ok(rule, t.Name+"/absent-add", fmt.Sprintf("%d cells with the key absent add exactly the incoming (timestamp, deleted, value)", n), c.P.Pos(t.Fn.Pos()))
	}
}

type seqResult struct {
	final Ver
	kinds []string
}

func applySeq(t *MergeTable, start Ver, seq []In, cfg MCfg) (seqResult, error) {
	cur := start
	var r seqResult
	for _, in := range seq {
		o, err := t.Apply(cur, in, cfg)
		if err != nil {
			return r, err
		}
		r.kinds = append(r.kinds, o.Kind)
		cur = o.Result(cur)
	}
	r.final = cur
	return r, nil
}

// ruleAlgebra: idempotence, commutativity (pairs from every stored version),
// order-independence of triples, monotonicity, on logical content.
func ruleAlgebra(c *Check, rule string, t *MergeTable, u mergeUniverse, cfgs []MCfg, commut bool) {
	pos := c.P.Pos(t.Fn.Pos())
	nIdem, nComm, nTri, nMono := 0, 0, 0, 0
	badIdem, badComm, badTri, badMono := 0, 0, 0, 0
	for _, cfg := range cfgs {
		// idempotence + monotone
		for _, st := range u.Stored {
			for _, x := range u.In {
				r1, err := applySeq(t, st, []In{x}, cfg)
				if err != nil {
					return
				}
				r2, err := applySeq(t, st, []In{x, x}, cfg)
				if err != nil {
					return
				}
				nIdem++
				if r2.final != r1.final || r2.kinds[1] != "KEEP" && r1.final.Present {
					badIdem++
					if badIdem <= 3 {
						c.Bad(rule, fmt.Sprintf("%s/idempotent:%v×%v", t.Name, st, x), fmt.Sprintf("merging %v twice into %v: first gives %v, second gives %v via %s (must be a no-op keep)", x, st, r1.final, r2.final, r2.kinds[1]), pos, nil)
					}
				}
				nMono++
				if st.Present && (!r1.final.Present || r1.final.TS < st.TS) {
					_ = cfg
					badMono++
					if badMono <= 3 {
						c.Bad(rule, fmt.Sprintf("%s/monotone:%v×%v", t.Name, st, x), fmt.Sprintf("merging %v into %v yields %v: the stored version moved backwards", x, st, r1.final), pos, nil)
					}
				}
				// selectivity: the result is the stored version or the incoming one
				if r1.final != st && r1.final != x.Logical(effTS(x, cfg)) {
					badMono++
					if badMono <= 3 {
						c.Bad(rule, fmt.Sprintf("%s/selective:%v×%v", t.Name, st, x), fmt.Sprintf("merging %v into %v yields %v, which is neither of them", x, st, r1.final), pos, nil)
					}
				}
			}
		}
		if !commut {
			continue
		}
		// commutativity of pairs, from every stored version
		for _, st := range u.Stored {
			for i, x := range u.In {
				for _, y := range u.In[i+1:] {
					a, err := applySeq(t, st, []In{x, y}, cfg)
					if err != nil {
						return
					}
					b, err := applySeq(t, st, []In{y, x}, cfg)
					if err != nil {
						return
					}
					nComm++
					if a.final != b.final {
						badComm++
						if badComm <= 3 {
							c.Bad(rule, fmt.Sprintf("%s/commutative:%v×%v×%v", t.Name, st, x, y), fmt.Sprintf("from %v: merging %v then %v gives %v, the opposite order gives %v", st, x, y, a.final, b.final), pos, nil)
						}
					}
				}
			}
		}
		// all orders of triples from the empty state
		perms := [][3]int{{0, 1, 2}, {0, 2, 1}, {1, 0, 2}, {1, 2, 0}, {2, 0, 1}, {2, 1, 0}}
		tri := u.InTri
		for i := 0; i < len(tri); i++ {
			for j := i; j < len(tri); j++ {
				for k := j; k < len(tri); k++ {
					xs := [3]In{tri[i], tri[j], tri[k]}
					var first Ver
					for pi, p := range perms {
						r, err := applySeq(t, Ver{}, []In{xs[p[0]], xs[p[1]], xs[p[2]]}, cfg)
						if err != nil {
							return
						}
						nTri++
						if pi == 0 {
							first = r.final
						} else if r.final != first {
							badTri++
							if badTri <= 3 {
								c.Bad(rule, fmt.Sprintf("%s/triple:%v,%v,%v", t.Name, xs[0], xs[1], xs[2]), fmt.Sprintf("merging %v, %v, %v in order %v gives %v, in order 0,1,2 gives %v", xs[0], xs[1], xs[2], p, r.final, first), pos, nil)
							}
							break
						}
					}
				}
			}
		}
	}
	c.Evaluations += nIdem*2 + nComm*4 + nTri*3 + nMono
	if badIdem == 0 {
		c.Ok(rule, t.Name+"/idempotent", fmt.Sprintf("%d (stored, incoming) cells: a second merge of the same entry is a keep and changes nothing", nIdem), pos)
	}
	if badComm == 0 && commut {
		c.Ok(rule, t.Name+"/commutative", fmt.Sprintf("%d (stored, x, y) cells: both merge orders give the same logical content", nComm), pos)
	}
	if badTri == 0 && commut {
		c.Ok(rule, t.Name+"/triples", fmt.Sprintf("%d permuted merge sequences of triples from the empty state agree (associativity at the level of version sets)", nTri), pos)
	}
	if badMono == 0 {
		c.Ok(rule, t.Name+"/monotone", fmt.Sprintf("%d cells: the result is the stored or the incoming version and never has a lower timestamp than the stored one", nMono), pos)
	}
}

// ruleFlagsMasked: flags written by TAKE are inside the synced set even when
// the incoming raw flags carry other bits; and the txn id written is the iterator's.
func ruleFlagsMasked(c *Check, rule string, t *MergeTable, u mergeUniverse, cfgs []MCfg) {
	n, bad := 0, 0
	txids := map[string]bool{}
	for _, cfg := range cfgs {
		for _, st := range u.Stored {
			for _, in := range u.In {
				o, err := t.Apply(st, in, cfg)
				if err != nil {
					return
				}
				if strings.HasPrefix(o.Kind, "TAKE") {
					n++
					txids[o.TxID] = true
					if o.Kind == "TAKE-BADFLAGS" {
						bad++
						if bad <= 3 {
							c.Bad(rule, fmt.Sprintf("%s/flags:%v×%v", t.Name, st, in), fmt.Sprintf("incoming raw flags %d reach the stored header unmasked", in.Flags), c.P.InstrPos(t.Paths[o.Path].EndPos), nil)
						}
					}
				}
			}
		}
	}
	c.Evaluations += n
	if bad == 0 {
		c.Ok(rule, t.Name+"/flags-masked", fmt.Sprintf("%d taking cells (raw flags 0..3) write only flags of the synced set", n), c.P.Pos(t.Fn.Pos()))
	}
	want := t.recv + ".TxnID"
	ok := len(txids) == 1 && txids[want]
	c.Expect(ok, rule, t.Name+"/txnid", "every header written carries the iterator's TxnID field", fmt.Sprintf("headers are written with txn id origins %v, expected only %s", keys(txids), want), c.P.Pos(t.Fn.Pos()))
}

func keys(m map[string]bool) []string {
	var out []string
	for k := range m {
		out = append(out, k)
	}
	return out
}

// ruleStaleDrop: DROP ⇔ absent ∧ deleted flag ∧ ts < cutoff (C04-R5).
func ruleStaleDrop(c *Check, rule string, t *MergeTable, u mergeUniverse) {
	n, nd, bad := 0, 0, 0
	var cfgs []MCfg
	for _, cut := range []uint64{0, 1, 2, 3} {
		cfgs = append(cfgs, MCfg{Cutoff: cut})
	}
	for _, cfg := range cfgs {
		for _, st := range u.Stored {
			for _, in := range u.In {
				if in.FV < 2 {
					continue // v1 has no deleted flag; predates the sweeper
				}
				o, err := t.Apply(st, in, cfg)
				if err != nil {
					return
				}
				n++
				should := !st.Present && in.Flags&1 != 0 && in.TS < cfg.Cutoff
				if should {
					nd++
				}
				if (o.Kind == "DROP") != should {
					bad++
					if bad <= 3 {
						c.Bad(rule, fmt.Sprintf("%s/stale-drop:%v×%v×cutoff=%d", t.Name, st, in, cfg.Cutoff), fmt.Sprintf("stored %v, incoming %v, cutoff %d: outcome %s; a marker must be dropped exactly when the key is absent, the entry is deleted and older than the cutoff", st, in, cfg.Cutoff, o.Kind), c.P.InstrPos(t.Paths[max(o.Path, 0)].EndPos), nil)
					}
				}
			}
		}
	}
	c.Evaluations += n
	if bad == 0 {
		c.Ok(rule, t.Name+"/stale-drop", fmt.Sprintf("%d cells over cutoffs 0..3: dropped exactly in the %d cells absent ∧ deleted ∧ ts < cutoff; never for a present key or a live entry", n, nd), c.P.Pos(t.Fn.Pos()))
	}
}

// ruleCapture (C11-R1 / C10-R2): default-timestamp use of the routine.
func ruleCapture(c *Check, rule string, t *MergeTable, u mergeUniverse) {
	n, bad := 0, 0
	D := uint64(100)
	cfg := MCfg{DefTS: D}
	for _, st := range u.Stored {
		if st.Present && st.TS >= D {
			continue
		}
		for _, v := range u.Vals {
			in := In{TS: 0, Flags: 0, Val: v, FV: 3}
			o, err := t.Apply(st, in, cfg)
			if err != nil {
				return
			}
			n++
			unchanged := st.Present && !st.Del && st.Val == v
			switch {
			case unchanged:
				if o.Kind != "KEEP" {
					bad++
					c.Bad(rule, fmt.Sprintf("%s/capture-unchanged:%v×%q", t.Name, st, v), fmt.Sprintf("application value unchanged (%v) but the outcome is %s %v: the entry is re-stamped", st, o.Kind, o.Ver), c.P.InstrPos(t.Paths[max(o.Path, 0)].EndPos), nil)
				}
			default:
				want := Ver{Present: true, TS: D, Del: false, Val: v}
				if st.Present && st.Del && v == "" {
					// a live empty value over a deletion marker: see finding F8 (empty values)
					if o.Kind == "KEEP" {
						c.Bad(rule, fmt.Sprintf("%s/capture-empty-over-marker", t.Name), fmt.Sprintf("stored %v, application now has the key with an empty value: outcome KEEP, the re-created key is not captured", st), c.P.InstrPos(t.Paths[max(o.Path, 0)].EndPos), nil)
						bad++
						continue
					}
				}
				if o.Kind != "TAKE" || o.Ver != want {
					bad++
					if bad <= 4 {
						c.Bad(rule, fmt.Sprintf("%s/capture-changed:%v×%q", t.Name, st, v), fmt.Sprintf("stored %v, application value %q: outcome %s %v, must capture %v", st, v, o.Kind, o.Ver, want), c.P.InstrPos(t.Paths[max(o.Path, 0)].EndPos), nil)
					}
				}
			}
		}
	}
	c.Evaluations += n
	if bad == 0 {
		c.Ok(rule, t.Name+"/capture", fmt.Sprintf("%d capture cells (timestamp 0 + default timestamp): unchanged entries are kept with their previous timestamp, changed or new ones are stamped with the detection time", n), c.P.Pos(t.Fn.Pos()))
	}
}

// ruleKeepIdentity: the KEEP outcome is the parameter itself (no copy, no re-encoding).
func ruleKeepIdentity(c *Check, rule string, t *MergeTable) {
	n := 0
	for _, p := range t.Paths {
		if p.End == "return" && len(p.Rets) == 2 && p.Rets[0] == t.old {
			n++
		}
	}
	c.Expect(n > 0, rule, t.Name+"/keep-is-parameter", fmt.Sprintf("%d paths return the stored slice parameter itself; every non-taking, non-dropping outcome of the table is one of them (outcome classification is by identity with the parameter)", n), "no path returns the stored slice itself", c.P.Pos(t.Fn.Pos()))
}

// sampleTable adds a compact rendering of the table to the evidence.
func sampleTable(c *Check, t *MergeTable, maxRows int) {
	type row struct {
		If      []string `json:"if"`
		Outcome string   `json:"outcome"`
	}
	seen := map[string]bool{}
	var rows []row
	for _, p := range t.Paths {
		var conds []string
		for _, cd := range p.Conds() {
			s := cd.String()
			if strings.Contains(s, "cap(") || strings.Contains(s, "HeaderPaddingBlock") {
				continue
			}
			conds = append(conds, s)
		}
		out := p.End
		if p.End == "return" {
			out = "return " + strings.Join(p.Rets, ", ")
			if len(out) > 120 {
				out = out[:120] + "…"
			}
		}
		k := strings.Join(conds, "&") + out
		if seen[k] {
			continue
		}
		seen[k] = true
		rows = append(rows, row{If: conds, Outcome: out})
	}
	if len(rows) > maxRows {
		rows = rows[:maxRows]
	}
	c.Tables[t.Name] = map[string]any{"paths": len(t.Paths), "distinct_rows_shown": len(rows), "rows": rows}
}

// ruleCleanTable (C04-R2, C10-R2b, C11-R2): T-CLEAN.
func ruleCleanTable(c *Check, rule string) {
	t := BuildMergeTable(c, "syncer.(*NativeIterator).Clean")
	if t == nil {
		return
	}
	u := buildUniverse(t, false)
	D := uint64(100)
	n, bad := 0, 0
	for _, pad := range []bool{false, true} {
		cfg := MCfg{DefTS: D, Pad: pad}
		for _, st := range u.Stored {
			if !st.Present || st.TS >= D {
				continue
			}
			o, err := t.Apply(st, In{FV: 3}, cfg)
			if err != nil {
				c.Undecided(rule, t.Name+"/adequacy", "the clean decision uses a quantity the rule has no role for: "+err.Error(), c.P.Pos(t.Fn.Pos()))
				return
			}
			n++
			if st.Del {
				if o.Kind != "KEEP" {
					bad++
					c.Bad(rule, fmt.Sprintf("%s/marker-kept:%v", t.Name, st), fmt.Sprintf("an existing deletion marker %v is not kept as is (outcome %s %v): it would be re-stamped on every capture pass", st, o.Kind, o.Ver), c.P.InstrPos(t.Paths[max(o.Path, 0)].EndPos), nil)
				}
				continue
			}
			want := Ver{Present: true, TS: D, Del: true, Val: ""}
			if o.Kind != "TAKE" || o.Ver != want {
				bad++
				c.Bad(rule, fmt.Sprintf("%s/live-becomes-marker:%v", t.Name, st), fmt.Sprintf("a live entry %v whose key disappeared from the application DBI yields %s %v; expected a deletion marker stamped with the detection time %v", st, o.Kind, o.Ver, want), c.P.InstrPos(t.Paths[max(o.Path, 0)].EndPos), nil)
			}
		}
	}
	c.Evaluations += n
	if bad == 0 {
		c.Ok(rule, t.Name+"/table", fmt.Sprintf("%d cells: a live shadow entry whose key is gone becomes (detection time, deleted, empty value); an existing marker is returned unchanged (the parameter itself)", n), c.P.Pos(t.Fn.Pos()))
	}
}

// rulePlainIterator: T-PLAIN (C03-R3 → F8, C04-R8, C11-R3).
func rulePlainIterator(c *Check, ruleFlag, ruleProject string) {
	name := "syncer.(*PlainIterator).Merge"
	fn, paths := c.walkFn(ruleProject, name, WalkConfig{})
	if paths == nil {
		return
	}
	pos := c.P.Pos(fn.Pos())
	it := param(fn, 0)
	val := it + ".curKV.Value"
	bad := 0
	readsFlag := false
	nNil, nVal := 0, 0
	for i := range paths {
		p := &paths[i]
		for _, cd := range p.Conds() {
			if strings.Contains(cd.Atom.String(), ".curKV.Flags") {
				readsFlag = true
			}
		}
		if p.End != "return" || !retIsNilErr(p) {
			bad++
			c.Bad(ruleProject, name+"/shape", "unexpected exit", c.pathPos(p), nil)
			continue
		}
		l := p.State.RelOf("int", "len("+val+")", "const:0")
		switch {
		case p.Rets[0] == "nil":
			nNil++
			if l != EQ && !readsFlag {
				bad++
				c.Bad(ruleProject, name+"/delete-nonempty", "the projection deletes a key whose shadow value is not empty", c.pathPos(p), describe(c, p))
			}
		case p.Rets[0] == val:
			nVal++
		default:
			bad++
			c.Bad(ruleProject, name+"/value", "the projection writes "+p.Rets[0]+" instead of the shadow entry's application value", c.pathPos(p), nil)
		}
	}
	if bad == 0 && nNil > 0 && nVal > 0 {
		c.Ok(ruleProject, name+"/project", "a shadow entry with an empty application value (every deletion marker: addHeader clears the value of deleted entries) yields nil = delete the application key; any other entry yields exactly its application value", pos)
	}
	// Clean: keys absent from the shadow are removed from the application DBI
	cn := "syncer.(*PlainIterator).Clean"
	cf, cps := c.walkFn(ruleProject, cn, WalkConfig{})
	if cps != nil {
		okc := len(cps) == 1 && cps[0].End == "return" && cps[0].Rets[0] == "nil" && cps[0].Rets[1] == "nil"
		c.Expect(okc, ruleProject, cn, "an application key without a shadow entry is deleted (nil)", "PlainIterator.Clean does not return nil (delete)", c.P.Pos(cf.Pos()))
	}
	if ruleFlag == "" {
		return
	}
	if !readsFlag {
		c.Bad(ruleFlag, name+"/delete-ignores-flag", "the projection decides between 'delete the application key' and 'write the value' from the length of the value alone and never reads the entry's deleted flag: a live entry with an empty value is indistinguishable from a deletion marker and its key is deleted from the application's DBI", pos, nil)
	} else {
		c.Ok(ruleFlag, name+"/delete-ignores-flag", "the projection's delete decision reads the entry's deleted flag", pos)
	}
}

// ITER-NEXT-FAITHFUL (C02-R8, C01-R4, C18-R2): the snapshot iterators hand every
// entry of the DBI message to the strategy, one per call: Next reads exactly one
// entry with DBI.Next (after ResetCursor on the first call), remembers it as the
// current entry, and returns its key; an error of DBI.Next (io.EOF at the end)
// is returned as is. An iterator that skips or coalesces entries (e.g. repeated
// keys) makes the merge result depend on which occurrence it kept instead of on
// the timestamps.
func ruleIterNextFaithful(c *Check, rule string) {
	for _, name := range []string{"syncer.(*NativeIterator).Next", "syncer.(*PlainIterator).Next"} {
		fn, paths := c.walkFn(rule, name, WalkConfig{})
		if paths == nil {
			continue
		}
		it := param(fn, 0)
		n, bad := 0, 0
		for i := range paths {
			p := &paths[i]
			if strings.HasPrefix(p.End, "backedge:") {
				bad++
				c.Bad(rule, name+"/one-entry-per-call", "Next loops over entries: an entry can be consumed without being handed to the strategy", c.pathPos(p), describe(c, p))
				continue
			}
			if p.End != "return" || len(p.Rets) != 2 {
				continue
			}
			n++
			nx := callsOf(p, "snapshot.(*DBI).Next")
			if len(nx) == 0 && (strings.HasPrefix(p.Rets[1], "errors.New@") || strings.HasPrefix(p.Rets[1], "fmt.Errorf@")) {
				// a defensive refusal: the iterator has no DBI message to read from
				refused := false
				for _, cd := range p.Conds() {
					if cd.Atom.Kind == "bool" && cd.Truth && strings.HasPrefix(cd.Atom.A, "isnil("+it+".") {
						refused = true
					}
				}
				if refused {
					n--
					continue
				}
			}
			if len(nx) != 1 || !strings.HasPrefix(nx[0].Args[0], it+".") {
				bad++
				c.Bad(rule, name+"/one-entry-per-call", fmt.Sprintf("Next reads %d entries of the DBI message on this path, expected exactly one", len(nx)), c.pathPos(p), describe(c, p))
				continue
			}
			ok, f := boolCond(p, "isnil("+nx[0].Res+"#1)", -1)
			switch {
			case f && !ok:
				if p.Rets[1] != nx[0].Res+"#1" {
					bad++
					c.Bad(rule, name+"/error-as-is", "an error of DBI.Next (io.EOF at the end of the data) is not returned as is", c.pathPos(p), nil)
				}
			case f && ok:
				stored := false
				for _, e := range p.Events {
					if e.Kind == "store" && strings.HasPrefix(e.Addr, "&"+it+".") && e.Val == nx[0].Res+"#0" {
						stored = true
					}
				}
				if !stored || p.Rets[0] != nx[0].Res+"#0.Key" || p.Rets[1] != "nil" {
					bad++
					c.Bad(rule, name+"/entry-is-current", "the entry just read is not remembered as the iterator's current entry and returned by its key", c.pathPos(p), describe(c, p))
				}
			default:
				bad++
				c.Bad(rule, name+"/error-tested", "the error of DBI.Next is not examined", c.pathPos(p), nil)
			}
		}
		if bad == 0 {
			c.Ok(rule, name+"/faithful", fmt.Sprintf("all %d paths read exactly one entry, remember it as current and return its key; errors (io.EOF) are returned as is", n), c.P.Pos(fn.Pos()))
		}
		c.Floor(rule, n, 2, "paths of "+name)
	}
}
