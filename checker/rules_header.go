package main

import (
	"bytes"
	"encoding/binary"
	"fmt"
	"go/token"
	"sort"
	"strings"

	"golang.org/x/tools/go/ssa"
)

// Rules on the value header (C14).

// documented layout (docs/schema-native.md): 0-7 timestamp BE, 8-15 txn id BE,
// 16 version, 17 flags, 18-21 reserved, 22-23 number of 8-byte extension blocks BE.
var headerLayout = map[string]string{
	"VersionOffset": "16", "FlagsOffset": "17", "NumExtraOffsetHigh": "22", "NumExtraOffsetLow": "23",
	"reserved1Offset": "18", "reserved2Offset": "19", "reserved3Offset": "20", "reserved4Offset": "21",
	"MinHeaderSize": "24", "BlockSize": "8",
}

func ruleHeaderLayout(c *Check, rule string) {
	bad := 0
	for k, want := range headerLayout {
		got, ok := c.constValue("lmdbenv/header", k)
		if !ok || got != want {
			bad++
			c.Bad(rule, "lmdbenv/header."+k, fmt.Sprintf("header layout constant %s is %q; the documented layout has %s", k, got, want), "", nil)
		}
	}
	fd, _ := c.constValue("lmdbenv/header", "FlagDeleted")
	fm, _ := c.constValue("lmdbenv/header", "FlagSyncMask")
	if fd != "1" || fm != "1" {
		bad++
		c.Bad(rule, "lmdbenv/header.Flags", fmt.Sprintf("FlagDeleted=%s FlagSyncMask=%s; documented: deleted = 0x01, and it is the synced set", fd, fm), "", nil)
	}
	if bad == 0 {
		c.Ok(rule, "lmdbenv/header/layout-constants", "offsets 16/17/18-21/22/23, MinHeaderSize 24, BlockSize 8, FlagDeleted 0x01 = FlagSyncMask: equal to the documented layout", "")
	}
	// IsDeleted / Masked leaf meanings
	for name, want := range map[string]string{
		"lmdbenv/header.(Flags).IsDeleted": "((param:f & const:1) > const:0)",
		"lmdbenv/header.(Flags).Masked":    "(param:f & const:1)",
	} {
		fn, paths := c.walkFn(rule, name, WalkConfig{})
		if paths == nil {
			continue
		}
		got := ""
		if len(paths) == 1 {
			got = paths[0].Rets[0]
		}
		alt := strings.Replace(want, "> const:0", "!= const:0", 1)
		c.Expect(got == want || got == alt, rule, name, "meaning confirmed: "+got, "unexpected body: returns "+got+", expected "+want, c.P.Pos(fn.Pos()))
	}
}

// R1 PUTBASIC-COVERAGE.
func rulePutBasic(c *Check, rule string) {
	name := "lmdbenv/header.PutBasic"
	fn := c.P.Func(name)
	if fn == nil || fn.Blocks == nil || len(fn.Params) < 4 {
		c.Undecided(rule, name, "anchor function not found in the current tree", "")
		return
	}
	c.UseFunc(name)
	pos := c.P.Pos(fn.Pos())
	bufP := fn.Params[0]
	// the value written: which parameter (through conversions) or constant
	origin := func(v ssa.Value) string {
		for d := 0; d < 4; d++ {
			switch x := v.(type) {
			case *ssa.Convert:
				v = x.X
				continue
			case *ssa.ChangeType:
				v = x.X
				continue
			case *ssa.Parameter:
				return "param:" + x.Name()
			case *ssa.Const:
				return constStr(x)
			}
			break
		}
		return v.Name()
	}
	// is v the buffer parameter, possibly resliced from its start?
	var isBuf func(v ssa.Value) bool
	isBuf = func(v ssa.Value) bool {
		if v == ssa.Value(bufP) {
			return true
		}
		if sl, ok := v.(*ssa.Slice); ok && (sl.Low == nil || isZeroConst(sl.Low)) {
			return isBuf(sl.X)
		}
		return false
	}
	konst := func(v ssa.Value) (int64, bool) {
		if v == nil {
			return 0, true
		}
		k, ok := v.(*ssa.Const)
		if !ok || k.Value == nil {
			return 0, false
		}
		return k.Int64(), true
	}
	// index range of a store: a constant, or a counting loop variable with
	// constant start and bound
	idxRange := func(v ssa.Value) (int64, int64, bool) {
		if k, ok := konst(v); ok && v != nil {
			return k, k + 1, true
		}
		phi, ok := v.(*ssa.Phi)
		if !ok || !isLoopHeader(phi.Block()) {
			return 0, 0, false
		}
		start, haveStart := int64(0), false
		for i, e := range phi.Edges {
			if phi.Block().Dominates(phi.Block().Preds[i]) {
				add, ok := e.(*ssa.BinOp)
				if !ok || add.Op != token.ADD || add.X != ssa.Value(phi) {
					return 0, 0, false
				}
				if k, ok := konst(add.Y); !ok || k != 1 {
					return 0, 0, false
				}
				continue
			}
			k, ok := konst(e)
			if !ok {
				return 0, 0, false
			}
			start, haveStart = k, true
		}
		iff, ok := phi.Block().Instrs[len(phi.Block().Instrs)-1].(*ssa.If)
		if !ok || !haveStart {
			return 0, 0, false
		}
		cmp, ok := iff.Cond.(*ssa.BinOp)
		if !ok || cmp.X != ssa.Value(phi) {
			return 0, 0, false
		}
		end, ok := konst(cmp.Y)
		if !ok {
			return 0, 0, false
		}
		switch cmp.Op {
		case token.LSS:
			return start, end, true
		case token.LEQ:
			return start, end + 1, true
		}
		return 0, 0, false
	}
	covered := make([]string, 24)
	unknown := ""
	for _, b := range fn.Blocks {
		for _, in := range b.Instrs {
			switch x := in.(type) {
			case *ssa.Call:
				callee := x.Common().StaticCallee()
				if callee == nil || !strings.Contains(callee.String(), "bigEndian).PutUint64") {
					continue
				}
				args := x.Common().Args
				sl, ok := args[len(args)-2].(*ssa.Slice)
				if !ok || !isBuf(sl.X) {
					continue
				}
				lo, ok1 := konst(sl.Low)
				if !ok1 {
					unknown = "PutUint64 at a non-constant offset"
					continue
				}
				for i := lo; i < lo+8 && i < 24; i++ {
					covered[i] = origin(args[len(args)-1])
				}
			case *ssa.Store:
				ia, ok := x.Addr.(*ssa.IndexAddr)
				if !ok || !isBuf(ia.X) {
					continue
				}
				lo, hi, ok := idxRange(ia.Index)
				if !ok {
					// the offsets listed in a constant package-level array, ranged over completely
					if offs, okT := tableOffsets(c.P, ia.Index); okT {
						for _, i := range offs {
							if i >= 0 && i < 24 {
								covered[i] = origin(x.Val)
							}
						}
						continue
					}
					unknown = "a store at an index that is neither constant nor a constant-bounded counter"
					continue
				}
				for i := lo; i < hi && i < 24; i++ {
					if i >= 0 {
						covered[i] = origin(x.Val)
					}
				}
			}
		}
	}
	if unknown != "" {
		c.Undecided(rule, name, "cannot account for every write: "+unknown, pos)
		return
	}
	ts, tx, fl := "param:"+fn.Params[1].Name(), "param:"+fn.Params[2].Name(), "param:"+fn.Params[3].Name()
	bad := 0
	for i := 0; i < 24; i++ {
		want := "const:0"
		switch {
		case i < 8:
			want = ts
		case i < 16:
			want = tx
		case i == 17:
			want = fl
		}
		if covered[i] != want {
			bad++
			c.Bad(rule, fmt.Sprintf("%s/byte-%d", name, i), fmt.Sprintf("header byte %d is written with %q; expected %s (big-endian timestamp 0-7, txn id 8-15, version 0, flags, reserved 0, extension count 0)", i, covered[i], want), pos, nil)
		}
	}
	if bad == 0 {
		c.Ok(rule, name, "all 24 header bytes are written: big-endian timestamp at 0-7, txn id at 8-15, version 0, the flags argument at 17, reserved bytes and both extension-count bytes 0", pos)
	}
}

// tableOffsets: v is the element, at the running index of a `range` over the
// whole array, of a package-level array that nothing changes (consttab.go):
// all its entries.
func tableOffsets(p *Program, v ssa.Value) ([]int64, bool) {
	ix, ok := v.(*ssa.Index)
	if !ok {
		return nil, false
	}
	ld, ok := ix.X.(*ssa.UnOp)
	if !ok || ld.Op != token.MUL {
		return nil, false
	}
	g, ok := ld.X.(*ssa.Global)
	if !ok {
		return nil, false
	}
	tab := p.globalTable(g)
	if tab == nil || tab.kind != "array" {
		return nil, false
	}
	// the index: rangeindex + 1 of a loop bounded by the array's length
	add, ok := ix.Index.(*ssa.BinOp)
	if !ok || add.Op != token.ADD {
		return nil, false
	}
	phi, ok := add.X.(*ssa.Phi)
	if !ok || phi.Comment != "rangeindex" {
		return nil, false
	}
	iff, ok := phi.Block().Instrs[len(phi.Block().Instrs)-1].(*ssa.If)
	if !ok {
		return nil, false
	}
	cmp, ok := iff.Cond.(*ssa.BinOp)
	if !ok || cmp.Op != token.LSS || cmp.X != ssa.Value(add) {
		return nil, false
	}
	k, ok := cmp.Y.(*ssa.Const)
	if !ok || k.Value == nil || int(k.Int64()) != len(tab.entries) {
		return nil, false
	}
	var out []int64
	for _, e := range tab.entries {
		n, ok := constInt(e.val)
		if !ok {
			return nil, false
		}
		out = append(out, n)
	}
	return out, true
}

func isZeroConst(v ssa.Value) bool {
	k, ok := v.(*ssa.Const)
	return ok && k.Value != nil && k.Int64() == 0
}

// R6 PARSE-GUARDS: Parse and Skip tables interpreted on byte strings.
func ruleParseTable(c *Check, rule string) {
	inl := func(f *ssa.Function, d int) bool { return d <= 2 && QualName(f) == "lmdbenv/header.getNumExtra" }
	pf, pp := c.walkFn(rule, "lmdbenv/header.Parse", WalkConfig{Inline: inl})
	sf, sp := c.walkFn(rule, "lmdbenv/header.Skip", WalkConfig{Inline: inl})
	if pp == nil || sp == nil {
		return
	}
	mk := func(n int, version byte, flags byte, numExtra uint16, ts, tx uint64) []byte {
		b := make([]byte, n)
		for i := range b {
			b[i] = byte(i*7 + 3)
		}
		if n >= 8 {
			binary.BigEndian.PutUint64(b[0:8], ts)
		}
		if n >= 16 {
			binary.BigEndian.PutUint64(b[8:16], tx)
		}
		if n > 16 {
			b[16] = version
		}
		if n > 17 {
			b[17] = flags
		}
		if n >= 24 {
			binary.BigEndian.PutUint16(b[22:24], numExtra)
		}
		return b
	}
	type tc struct {
		b  []byte
		ne uint16
	}
	var cases []tc
	for _, n := range []int{0, 1, 8, 16, 17, 23} {
		cases = append(cases, tc{mk(n, 0, 0, 0, 1, 2), 0})
	}
	for _, ne := range []uint16{0, 1, 2, 3, 255, 256, 8191, 8192, 8193, 16384, 65535} {
		need := 24 + 8*int(ne)
		for _, n := range []int{24, need - 1, need, need + 1, need + 5} {
			if n < 24 {
				continue
			}
			cases = append(cases, tc{mk(n, 0, 0x81, ne, 0x0102030405060708, 0x1112131415161718), ne})
			cases = append(cases, tc{mk(n, 1, 1, ne, 5, 6), ne})
		}
	}
	nCases, bad := 0, 0
	for _, t := range cases {
		n := len(t.b)
		version := byte(0)
		if n > 16 {
			version = t.b[16]
		}
		wantErr := n < 24 || version != 0 || n < 24+8*int(t.ne)
		for which, fp := range map[string]struct {
			fn    *ssa.Function
			paths []Path
		}{"Parse": {pf, pp}, "Skip": {sf, sp}} {
			nCases++
			b := Bindings{param(fp.fn, 0): Bv(t.b)}
			i, err := selectPathR(fp.paths, b)
			if err != nil {
				if strings.Contains(err.Error(), "would panic") {
					bad++
					c.Bad(rule, fmt.Sprintf("lmdbenv/header.%s/bounds:len=%d,ext=%d", which, n, t.ne), fmt.Sprintf("a stored value of %d bytes declaring %d extension blocks makes %s index or slice out of range: %v", n, t.ne, which, err), c.P.Pos(fp.fn.Pos()), nil)
					continue
				}
				c.Undecided(rule, "lmdbenv/header."+which+"/table", "cannot evaluate the extracted table: "+err.Error(), c.P.Pos(fp.fn.Pos()))
				return
			}
			p := &fp.paths[i]
			gotErr := !retIsNilErr(p)
			if gotErr != wantErr {
				bad++
				c.Bad(rule, fmt.Sprintf("lmdbenv/header.%s/accept:len=%d,ver=%d,ext=%d", which, n, version, t.ne), fmt.Sprintf("%s of a %d-byte value with version %d declaring %d extension blocks: error=%v, expected %v (too short, wrong version, or shorter than header+extensions must be rejected; everything else accepted)", which, n, version, t.ne, gotErr, wantErr), c.pathPos(p), nil)
				continue
			}
			if gotErr {
				continue
			}
			res := pathResolver(p, b)
			valTerm := p.Rets[len(p.Rets)-2]
			v, err := EvalTermR(valTerm, b, res)
			if err != nil {
				if strings.Contains(err.Error(), "would panic") {
					bad++
					c.Bad(rule, fmt.Sprintf("lmdbenv/header.%s/value-bounds:len=%d,ext=%d", which, n, t.ne), which+" would slice out of range: "+err.Error(), c.pathPos(p), nil)
					continue
				}
				c.Undecided(rule, "lmdbenv/header."+which+"/value", "cannot evaluate "+valTerm+": "+err.Error(), c.pathPos(p))
				return
			}
			want := t.b[24+8*int(t.ne):]
			if !bytes.Equal(v.B, want) {
				bad++
				c.Bad(rule, fmt.Sprintf("lmdbenv/header.%s/value:len=%d,ext=%d", which, n, t.ne), fmt.Sprintf("%s returns an application value of %d bytes; what follows the header and its %d extension blocks has %d bytes", which, len(v.B), t.ne, len(want)), c.pathPos(p), nil)
			}
			if which == "Parse" {
				for f, w := range map[string]uint64{"Timestamp": binary.BigEndian.Uint64(t.b[0:8]), "TxnID": binary.BigEndian.Uint64(t.b[8:16]), "Flags": uint64(t.b[17]), "NumExtra": uint64(t.ne), "Version": 0} {
					ft, okf := litField(p.Rets[0], f)
					if !okf {
						bad++
						c.Bad(rule, "lmdbenv/header.Parse/field:"+f, "the parsed header has no field "+f, c.pathPos(p), nil)
						continue
					}
					fv, err := EvalTermR(ft, b, res)
					if err != nil || fv.U != w {
						bad++
						c.Bad(rule, "lmdbenv/header.Parse/field:"+f, fmt.Sprintf("parsed %s = %v (%v), stored bytes say %d", f, fv.U, err, w), c.pathPos(p), nil)
					}
				}
			}
		}
	}
	c.Evaluations += nCases
	if bad == 0 {
		c.Ok(rule, "lmdbenv/header.Parse+Skip/tables", fmt.Sprintf("%d byte strings (lengths around 8/16/24 and around 24+8n for n up to 65535, header versions 0/1) interpreted on the extracted tables of Parse and Skip: rejected exactly when too short / wrong version / shorter than header+extensions; otherwise the application value is what follows all extension blocks and the parsed fields are the stored big-endian fields; no index or slice can go out of range; Parse and Skip agree", nCases), c.P.Pos(pf.Pos()))
	}
}

// R3 ASSEMBLY on the merge table's taking paths.
func ruleAssembly(c *Check, rule string, t *MergeTable) {
	n, bad := 0, 0
	low, _ := c.constValue("lmdbenv/header", "NumExtraOffsetLow")
	for i := range t.Paths {
		p := &t.Paths[i]
		puts := callsOf(p, "lmdbenv/header.PutBasic")
		if len(puts) == 0 {
			continue
		}
		n++
		pb := puts[0]
		pi := eventIndex(p, pb)
		buf := pb.Args[0]
		if !strings.HasSuffix(buf, ",,const:24,)") {
			bad++
			c.Bad(rule, t.Name+"/buffer-reset", "the header is written into "+buf+", not into a buffer reset to exactly 24 bytes", evPos(c, pb), nil)
		}
		pad, pf := boolCond(p, t.recv+".HeaderPaddingBlock", -1)
		var apps []*Event
		for j := pi + 1; j < len(p.Events); j++ {
			if p.Events[j].Kind == "call" && p.Events[j].Callee == "builtin:append" {
				apps = append(apps, &p.Events[j])
			}
		}
		cnt := false
		for j := pi + 1; j < len(p.Events); j++ {
			e := &p.Events[j]
			if e.Kind == "store" && (strings.HasSuffix(e.Addr, ".buf[const:"+low+"]") || e.Addr == "&"+buf+"[const:"+low+"]") && e.Val == "const:1" {
				cnt = true
			}
		}
		zero8 := "[const:0, const:0, const:0, const:0, const:0, const:0, const:0, const:0]"
		switch {
		case pf && pad:
			if !(cnt && len(apps) == 2 && apps[0].Args[1] == zero8 && apps[1].Args[0] == apps[0].Res) {
				bad++
				c.Bad(rule, t.Name+"/padding", "with the padding option the header does not get exactly: extension count 1, eight zero bytes, then the value", evPos(c, pb), describe(c, p))
			}
		case pf && !pad:
			if cnt || len(apps) != 1 {
				bad++
				c.Bad(rule, t.Name+"/no-padding", "without the padding option something other than the value is appended to the 24-byte header, or the extension count is set", evPos(c, pb), describe(c, p))
			}
		default:
			bad++
			c.Bad(rule, t.Name+"/padding-tested", "the assembly does not test HeaderPaddingBlock", evPos(c, pb), nil)
		}
		if len(apps) > 0 && apps[len(apps)-1].Res != p.Rets[0] {
			bad++
			c.Bad(rule, t.Name+"/value-last", "the returned bytes are not header (+padding) followed by the value as the last append", evPos(c, pb), nil)
		}
	}
	if bad == 0 {
		c.Ok(rule, t.Name+"/assembly", fmt.Sprintf("%d writing paths: buffer reset to 24 bytes → PutBasic → (padding option: extension count 1 and eight zero bytes) → application value appended last and returned", n), c.P.Pos(t.Fn.Pos()))
	}
	c.Floor(rule, n, 4, "writing paths of "+t.Name)
}

// ruleDeletedNoValue: also for incoming entries that carry the deleted flag
// together with a value, what is written has no value (C14-R4b, C11).
func ruleDeletedNoValue(c *Check, rule string, t *MergeTable) {
	n, bad := 0, 0
	for _, cfg := range remoteCfgs {
		for _, st := range []Ver{{}, {Present: true, TS: 1, Val: "a"}, {Present: true, TS: 1, Del: true}} {
			for _, fl := range []uint64{1, 3} {
				for _, fv := range []uint64{2, 3} {
					in := In{TS: 2, Flags: fl, Val: "payload", FV: fv}
					o, err := t.Apply(st, in, cfg)
					if err != nil {
						c.Undecided(rule, t.Name+"/adequacy", err.Error(), c.P.Pos(t.Fn.Pos()))
						return
					}
					n++
					if o.Kind != "TAKE" || !o.Ver.Del || o.Ver.Val != "" {
						bad++
						c.Bad(rule, fmt.Sprintf("%s/deleted-has-no-value:%v×%v", t.Name, st, in), fmt.Sprintf("a newer incoming entry with the deleted flag and a non-empty value is stored as %s %v; a deleted entry must be written with an empty value (the projection treats 'value empty' as 'deleted')", o.Kind, o.Ver), c.P.InstrPos(t.Paths[max(o.Path, 0)].EndPos), nil)
					}
				}
			}
		}
	}
	c.Evaluations += n
	if bad == 0 {
		c.Ok(rule, t.Name+"/deleted-has-no-value", fmt.Sprintf("%d cells: an entry written with the deleted flag never carries a value, even when the incoming entry does", n), c.P.Pos(t.Fn.Pos()))
	}
}

// ruleStoredValidated (C14-R7): a stored value is only used after header.Parse
// accepted it: malformed stored values (too short, other version) are rejected
// with an error, never kept or misread.
func ruleStoredValidated(c *Check, rule string, t *MergeTable) {
	n, bad := 0, 0
	for i := range t.Paths {
		p := &t.Paths[i]
		if p.End != "return" || !retIsNilErr(p) {
			continue
		}
		if p.State.RelOf("int", "len("+t.old+")", "const:0") == EQ {
			continue // key absent: nothing stored
		}
		n++
		okp, f := boolCond(p, "isnil("+t.parse+"#2)", -1)
		if !f || !okp {
			bad++
			c.Bad(rule, t.Name+"/stored-validated", "a stored value is kept or merged on a path that has not passed header.Parse's validation of it (length >= 24, version 0, extension blocks present): a value that is too short or has another header version would be misread instead of rejected", c.pathPos(p), describe(c, p))
		}
	}
	if bad == 0 {
		c.Ok(rule, t.Name+"/stored-validated", fmt.Sprintf("all %d successful paths with a stored value passed header.Parse's validation before using it", n), c.P.Pos(t.Fn.Pos()))
	}
	c.Floor(rule, n, 3, "successful paths with a stored value in "+t.Name)
}

// C14-R7 PUTBASIC-ON-FRESH: PutBasic writes the whole fixed part of a header,
// including an extension count of zero. Applied to a value that was read from
// LMDB it would disown extension blocks that are still in the value (readers
// then take them for application bytes). Every call site must therefore pass a
// buffer it owns: a fresh allocation or the iterator's scratch field — never
// bytes obtained from an LMDB read. (Patching single fields of a stored header
// in place, as migrate-timestamps does, leaves the count alone and is fine.)
func rulePutBasicFresh(c *Check, rule string) {
	var roots func(v ssa.Value, d int, seen map[ssa.Value]bool) []string
	roots = func(v ssa.Value, d int, seen map[ssa.Value]bool) []string {
		if v == nil || seen[v] || d > 10 {
			return nil
		}
		seen[v] = true
		switch x := v.(type) {
		case *ssa.Const:
			return nil
		case *ssa.MakeSlice:
			return []string{"fresh"}
		case *ssa.Alloc:
			out := []string{"fresh"}
			if rs := x.Referrers(); rs != nil {
				for _, r := range *rs {
					if st, ok := r.(*ssa.Store); ok && st.Addr == ssa.Value(x) {
						out = append(out, roots(st.Val, d+1, seen)...)
					}
				}
			}
			return out
		case *ssa.Parameter:
			return []string{"param:" + x.Name()}
		case *ssa.FreeVar:
			return []string{"free:" + x.Name()}
		case *ssa.Global:
			return []string{"global:" + x.Name()}
		case *ssa.Slice:
			return roots(x.X, d+1, seen)
		case *ssa.Phi:
			var out []string
			for _, e := range x.Edges {
				out = append(out, roots(e, d+1, seen)...)
			}
			return out
		case *ssa.UnOp:
			if fa, ok := x.X.(*ssa.FieldAddr); ok {
				return []string{"field:" + fieldName(fa.X.Type(), fa.Field)}
			}
			return roots(x.X, d+1, seen)
		case *ssa.FieldAddr:
			return []string{"field:" + fieldName(x.X.Type(), x.Field)}
		case *ssa.Extract:
			return roots(x.Tuple, d+1, seen)
		case *ssa.ChangeType:
			return roots(x.X, d+1, seen)
		case *ssa.Convert:
			return roots(x.X, d+1, seen)
		case *ssa.Call:
			cc := x.Common()
			if b, ok := cc.Value.(*ssa.Builtin); ok && b.Name() == "append" && len(cc.Args) > 0 {
				return roots(cc.Args[0], d+1, seen)
			}
			if cc.IsInvoke() {
				return []string{"call:invoke " + cc.Method.Name()}
			}
			if f := cc.StaticCallee(); f != nil {
				return []string{"call:" + calleeName(f)}
			}
			return []string{"call:dynamic"}
		}
		return []string{fmt.Sprintf("other:%T", v)}
	}
	n, bad := 0, 0
	var sites []string
	for _, fn := range c.P.RepoFuncs() {
		if fn.Blocks == nil || strings.Contains(QualName(fn), "_test") {
			continue
		}
		if fn.Pos().IsValid() {
			if f := fn.Prog.Fset.File(fn.Pos()); f != nil && strings.HasSuffix(f.Name(), "_test.go") {
				continue
			}
		}
		for _, b := range fn.Blocks {
			for _, in := range b.Instrs {
				call, ok := in.(*ssa.Call)
				if !ok {
					continue
				}
				cal := call.Common().StaticCallee()
				if cal == nil || QualName(cal) != "lmdbenv/header.PutBasic" || len(call.Common().Args) == 0 {
					continue
				}
				n++
				name := QualName(fn)
				sites = append(sites, name)
				for _, r := range roots(call.Common().Args[0], 0, map[ssa.Value]bool{}) {
					switch {
					case r == "fresh", strings.HasPrefix(r, "field:"):
					case strings.HasPrefix(r, "call:") && (strings.Contains(r, "lmdb.Txn).Get") || strings.Contains(r, "lmdb.Cursor).Get") || strings.Contains(r, "Scanner).Val") || strings.Contains(r, "LimitScanner).Val") || strings.Contains(r, "invoke")):
						bad++
						c.Bad(rule, name+"/putbasic-on-stored-value", "header.PutBasic is applied to bytes obtained from an LMDB read ("+r+"): it resets the extension count to zero while the extension blocks stay in the value, so the stored value no longer is header + application value", c.P.InstrPos(call), nil)
					case strings.HasPrefix(r, "param:"), strings.HasPrefix(r, "free:"), strings.HasPrefix(r, "global:"), strings.HasPrefix(r, "call:"), strings.HasPrefix(r, "other:"):
						bad++
						c.Bad(rule, name+"/putbasic-buffer-origin", "header.PutBasic is applied to a buffer whose origin ("+r+") is not a fresh allocation or the caller's own scratch field", c.P.InstrPos(call), nil)
					}
				}
			}
		}
	}
	sort.Strings(sites)
	if bad == 0 {
		c.Ok(rule, "lmdbenv/header.PutBasic/fresh-buffer", fmt.Sprintf("%d call sites (%s): the buffer is a fresh allocation or the iterator's own scratch field at each of them, never bytes read from LMDB", n, strings.Join(sites, ", ")), "")
	}
	c.Floor(rule, n, 3, "PutBasic call sites")
}
