package main

import (
	"go/constant"
	"go/types"
)

func constOf(obj types.Object) (string, bool) {
	c, ok := obj.(*types.Const)
	if !ok {
		return "", false
	}
	if c.Val().Kind() == constant.String {
		return constant.StringVal(c.Val()), true
	}
	return c.Val().ExactString(), true
}
