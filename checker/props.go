package main

import "strings"

// Property runners: which rules decide which property. Rule ids follow DESIGN.md §5.

const staticNote = "Static analysis of /repo's current source (type-checked syntax + SSA form); no lightningstream code is executed. "

func init() {
	register("C01", propMeta{
		Explanation: staticNote + "Decides the code-shape parts of convergence: (R1/R2) the merge decision table is a strict order on timestamps with an order-independent tie-break (table algebra over all ordering cells); (R3) the dump is complete: every non-private DBI reaches readDBI and every cursor entry is appended with key/value/timestamp/flags split out of the header, markers included; (R4) every snapshot DBI is applied through strategy.Update, every key through Get→Merge→setNewVal; (R5) in shadow mode the capture precedes both the dump and the projection. Further (R7): raw-read mode is only ever switched on in the read-only snapshot transaction, and snapshot names sort chronologically (UTC, fixed width), because peers take the last name of an instance as its newest; the mirror loops visit every DBI unconditionally. The walks over the environment's DBI names (dump) and over the snapshot's DBIs (apply) reach a successful return only behind the end of that loop (no `return nil`/`break` inside that would skip the remaining DBIs while the transaction commits); strategy.Update ends successfully only on io.EOF. Every per-DBI operation of the dump walk is on an element of ReadDBINames called on this transaction in this call (no cached listing); the iterators' Next hands over exactly one entry per call; a failed upload is fatal to the loop. The two-sided walk visits every stored key also for an empty input (a deletion of the last key of a DBI is captured).",
		NotDecided:  "Actual convergence over histories, delivery orders and clocks; the bucket; LMDB itself.",
		Assumptions: []string{"convergence of a join-semilattice merge applied to complete state dumps (standard CRDT argument) is not re-proved here", "hooks (FilterReadDBI etc.) are nil by default"},
	}, func(c *Check) {
		c.Rule("C01-R1", "LWW-ORDER: with the key present, a lower incoming timestamp keeps the stored version, a higher one takes exactly the incoming (timestamp, deleted, value)")
		c.Rule("C01-R2", "TIE-ORDER-INDEPENDENT: all merge orders of pairs and triples of versions (incl. equal timestamps) give the same logical content")
		c.Rule("C01-R3", "DUMP-COMPLETE: SendOnce's transaction body passes every DBI name without the private prefix to readDBI and appends the result; readDBI appends every cursor entry (First, then Next, until not-found) with Key, Value, TimestampNano, masked Flags taken from the entry's header; nothing but the explicit filter hook skips an entry")
		c.Rule("C01-R4", "APPLY-ALL: every non-private snapshot DBI reaches strategy.Update(txn, target DBI, iterator over that DBI); Update reads, merges and applies every key")
		c.Rule("C01-R5", "SHADOW-ORDER: mainToShadow precedes the dump (SendOnce) and the projection shadowToMain (LoadOnce) in the same transaction")
		t := BuildMergeTable(c, "syncer.(*NativeIterator).Merge")
		if t != nil {
			u := buildUniverse(t, c.Tier == "thorough")
			if ruleTableTotal(c, "C01-R1", t, u, remoteCfgs) {
				ruleLWWOrder(c, "C01-R1", t, u, remoteCfgs)
				ruleAbsentAdd(c, "C01-R1", t, u, remoteCfgs)
				ruleAlgebra(c, "C01-R2", t, u, remoteCfgs, true)
			}
			sampleTable(c, t, 25)
		}
		ruleReadDBILoop(c, "C01-R3", false)
		ruleSendDump(c, "C01-R3", "C01-R3", "C01-R5")
		ruleCollectionExhausted(c, "C01-R3", fnSendTxn, collDBINames, "the DBI names of the environment", nil)
		ruleCollectionExhausted(c, "C01-R4", fnLoadTxn, collSnapDBIs, "the DBIs of the snapshot", nil)
		ruleLoadBody(c, "C01-R4", "C01-R4", "C01-R4", "C01-R4", "C01-R4")
		ruleUpdateLoop(c, "C01-R4")
		ruleIterNextFaithful(c, "C01-R4")
		ruleCaptureBeforeProject(c, "C01-R5")
		ruleMainToShadow(c, "C01-R5", "C01-R5", "C01-R5")
		ruleEmptyPut(c, "C01-R5")
		ruleIterBoth(c, "C01-R5", "C01-R5", "C01-R5")
		c.Rule("C01-R7", "INDIRECT: raw-read mode only in read-only snapshot transactions (aliasing corrupts merges); snapshot names sort chronologically (peers take the last name as an instance's newest)")
		ruleRawReadWriters(c, "C01-R7")
		ruleNameLayout(c, "C01-R7")
		c.Rule("C01-R6", "PUBLISH: the stale-marker cutoff is off unless the sweeper is enabled; the id reported as synced is bounded by what LMDB recorded (else a local write is never uploaded and replicas cannot converge)")
		ruleFatal(c, "C01-R6")
		ruleCutoffProvenance(c, "C01-R6")
		ruleSyncedIdBound(c, "C01-R6")
	})

	register("C02", propMeta{
		Explanation: staticNote + "Extracts the complete decision table of the merge routine (every SSA path of NativeIterator.Merge with addHeader and all small helpers inlined: conditions over timestamps, values, flags, format version, cutoff; outcomes keep-the-parameter / drop / assembled header+value) and checks the algebraic laws of the property on that table for representatives of every cell of the finite ordering domain (timestamps incl. 0, values incl. empty, deleted flag, format versions 1..3, raw flag bits, every constant the table compares with). Only the extracted conditions and outcome terms are interpreted. Adequacy (the routine touches these quantities only through evaluable comparisons) is checked: any unrecognised use fails as undecided. Further (R8): strategy.Update merges every key the iterator yields against exactly the value stored under it in the same transaction (no path bypasses the lookup) and applies only that decision. Every KV.Unmarshal decodes into a zero KV (fresh local or overwritten with the zero value, followed through pointer parameters to the callers); remote entries are merged with the iterator arguments of the load (no default timestamp). The iterators' Next reads exactly one entry per call, remembers it as current and returns its key.",
		NotDecided:  "LMDB writes themselves; stored values whose header does not parse (error path); deleted entries carrying a value (outside the schema); commutativity across a non-zero stale-marker cutoff (documented retention assumption; the drop rule itself is checked).",
		Assumptions: []string{"header.Parse returns what PutBasic wrote (structure checked under C14)", "deleted entries carry an empty value (schema)"},
	}, func(c *Check) {
		c.Rule("C02-R1", "TABLE-TOTAL: every (stored, incoming, config) cell selects exactly one path with outcome keep/take/drop; every condition is evaluable from the declared roles")
		c.Rule("C02-R2", "ALGEBRA: idempotent, commutative from every stored state, order-independent for all permutations of triples, selective, never lowers the stored timestamp")
		c.Rule("C02-R3", "KEEP-IDENTITY: a non-winning merge returns the stored slice parameter itself; setNewVal performs no Put/Del when new == old")
		c.Rule("C02-R5", "FLAGS-MASKED: only flags of the synced set are written, for all raw incoming flag bits; the header carries the iterator's transaction id")
		c.Rule("C02-R6", "LWW-ORDER: lower incoming timestamp keeps, higher takes exactly the incoming content; an absent key takes the incoming content")
		c.Rule("C02-R7", "CUTOFFS: with every stale-deletion cutoff the table stays total, idempotent, selective and monotone; a marker is dropped exactly when absent ∧ deleted ∧ older than the cutoff")
		t := BuildMergeTable(c, "syncer.(*NativeIterator).Merge")
		if t == nil {
			return
		}
		u := buildUniverse(t, c.Tier == "thorough")
		if !ruleTableTotal(c, "C02-R1", t, u, remoteCfgs) {
			return
		}
		ruleAlgebra(c, "C02-R2", t, u, remoteCfgs, true)
		ruleKeepIdentity(c, "C02-R3", t)
		ruleSetNewVal(c, "C02-R3")
		ruleFlagsMasked(c, "C02-R5", t, u, remoteCfgs)
		ruleLWWOrder(c, "C02-R6", t, u, remoteCfgs)
		ruleAbsentAdd(c, "C02-R6", t, u, remoteCfgs)
		cut := []MCfg{{Cutoff: 1}, {Cutoff: 2}, {Cutoff: 3, Pad: true, CapBuf: 64}}
		if ruleTableTotal(c, "C02-R7", t, u, cut) {
			ruleAlgebra(c, "C02-R7", t, u, cut, false)
			ruleStaleDrop(c, "C02-R7", t, u)
		}
		c.Rule("C02-R8", "MERGE-AGAINST-STORED: every key the iterator yields is merged with exactly the value stored under it in the same transaction (no path bypasses the lookup), and only that decision is applied")
		ruleUpdateLoop(c, "C02-R8")
		// the merge function is order-insensitive only for the versions as they
		// were written: remote entries keep their own timestamps (no default
		// timestamp, the load-time cutoff, this transaction's id)
		ruleLoadBody(c, "C02-R8", "C02-R8", "C02-R8", "C02-R8", "C02-R8")
		ruleEntryDecodedIntoZero(c, "C02-R8")
		ruleIterNextFaithful(c, "C02-R8")
		sampleTable(c, t, 40)
		c.Notes = append(c.Notes, "universe: timestamps "+fmtU(u.TS)+", values "+fmtS(u.Vals)+", format versions "+fmtU(u.FVs))
	})

	register("C03", propMeta{
		Explanation: staticNote + "Decides the structural conditions under which a committed local write can be destroyed: (R1) the projection shadowToMain is only reached after mainToShadow ran in the same transaction or with localChanged == false, and localChanged ≡ lastTxnID < txn.ID()-1 on the caller's watermark; (R2) the transaction id reported as synced must come from inside the transaction (reports the known check-then-act on env.Info()); (R3) the projection's delete decision must depend on the deleted flag (reports the known empty-value defect); (R4) in native mode the load transaction mutates LMDB only through strategy.Update/OpenDBI(Create) and the dump is a read-only view; (R5) at start-up with data, the capture runs before the first load. Further (R8/R9): in the merge table a stored version is replaced or removed only by an LWW winner, for every stale-marker cutoff, and every key is merged against exactly its stored value; the two-sided walk visits every stored key also for an empty input; remote entries are merged with default timestamp 0 and the load-time cutoff. The capture pass walks every DBI name to the end before it can return successfully. In shadow mode every successful end of the load body ran shadowToMain. The sweeper's cutoff is the configured retention, fractional days included.",
		NotDecided:  "The interleavings themselves: no schedule is explored.",
		Assumptions: []string{"LMDB: empty write transactions are not recorded; txn.ID() semantics"},
	}, func(c *Check) {
		c.Rule("C03-R1", "CAPTURE-BEFORE-PROJECT")
		c.Rule("C03-R2", "WATERMARK-ATOMIC: the id returned as synced must not be read from env.Info() after the transaction ended")
		c.Rule("C03-R3", "PROJECT-READS-FLAG: the projection's delete decision depends on the shadow entry's deleted flag, not on the value length alone")
		c.Rule("C03-R4", "NATIVE-WRITES-ONLY-BY-MERGE")
		c.Rule("C03-R5", "STARTUP-CAPTURE")
		ruleCaptureBeforeProject(c, "C03-R1")
		ruleWatermarkAtomic(c, "C03-R2")
		rulePlainIterator(c, "C03-R3", "C03-R3")
		ruleNativeWrites(c, "C03-R4")
		ruleStartupCapture(c, "C03-R5")
		c.Rule("C03-R6", "SYNCED-ID-BOUNDED: the id reported as synced is min(txn.ID(), LastTxnID)")
		ruleSyncedIdBound(c, "C03-R6")
		c.Rule("C03-R7", "CAPTURE-COMPLETE: the capture pass runs unconditionally in shadow mode and passes no application DBI over")
		ruleSendDump(c, "C03-R7", "C03-R7", "C03-R7")
		ruleCollectionExhausted(c, "C03-R7", fnMainToSh, collDBINames, "the DBI names of the environment", nil)
		ruleMainToShadow(c, "C03-R7", "C03-R7", "C03-R7")
		c.Rule("C03-R8", "LIVE-KEPT-UNLESS-BEATEN: in the merge table a stored version is replaced or removed only by an incoming version that wins last-writer-wins, for every stale-marker cutoff; the merge is always against the stored value")
		if t := BuildMergeTable(c, "syncer.(*NativeIterator).Merge"); t != nil {
			u := buildUniverse(t, c.Tier == "thorough")
			if ruleTableTotal(c, "C03-R8", t, u, remoteCfgs) {
				ruleLWWOrder(c, "C03-R8", t, u, remoteCfgs)
			}
			cut := []MCfg{{Cutoff: 1}, {Cutoff: 2}, {Cutoff: 3, Pad: true, CapBuf: 64}}
			if ruleTableTotal(c, "C03-R8", t, u, cut) {
				ruleAlgebra(c, "C03-R8", t, u, cut, false)
				ruleStaleDrop(c, "C03-R8", t, u)
			}
		}
		ruleUpdateLoop(c, "C03-R8")
		c.Rule("C03-R9", "INDIRECT: the two-sided walk visits every stored key also for an empty input (Clean for emptied DBIs); remote entries are merged with default timestamp 0 and the load-time cutoff")
		ruleEmptyPut(c, "C03-R9")
		ruleIterBoth(c, "C03-R9", "C03-R9", "C03-R9")
		ruleSweeperCutoff(c, "C03-R9")
		ruleLoadBody(c, "C03-R9", "C03-R9", "C03-R9", "C03-R9", "C03-R9")
	})
}

func init() {
	register("C04", propMeta{
		Explanation: staticNote + "Decides marker handling in the decision tables and the cutoff arithmetic: (R1) deletion markers are dumped like any entry (no filtering by flag); (R2) a key missing from the application DBI becomes a marker stamped with the detection time, an existing marker is left alone; (R3/R4) in the merge table a deleted outcome has no value and timestamps decide regardless of the deleted flag; (R5) a marker is dropped exactly when absent ∧ deleted ∧ older than the cutoff; (R6) the load cutoff is 0 when the sweeper is off and now − RetentionDurationMinusCutoff() when on; (R7) RetentionDurationMinusCutoff() ∈ [0, RetentionDuration()] for every configuration (shape + path-condition proof incl. overflow); (R8) the projection deletes the application key of a marker. Further: a deleted outcome never carries a value; the capture pass runs for every application DBI unconditionally (R9); the timestamp conversion of the cutoff cannot wrap; the iterator is built with the load-time cutoff. No hook is installed by the repository's own code (a built-in FilterReadDBI would keep markers out of the snapshots); the two-sided walk calls Clean also when the input is empty.",
		NotDecided:  "Propagation over histories; concurrency of sweeping (C13); format-version-1 snapshots combined with the sweeper.",
		Assumptions: []string{"RetentionDuration() >= 0 (retention_days >= 0)"},
	}, func(c *Check) {
		c.Rule("C04-R1", "MARKERS-DUMPED: readDBI appends every entry regardless of its flags; the snapshot entry carries the masked flags")
		c.Rule("C04-R2", "CLEAN-TABLE: live ⇒ marker(detection time); marker ⇒ kept as is; IterUpdate calls Clean exactly for stored keys absent from the input")
		c.Rule("C04-R3", "DELETE-CLEARS-VALUE / LWW-FOR-MARKERS: on unequal timestamps the outcome does not depend on either deleted flag; a deleted outcome carries no value")
		c.Rule("C04-R5", "STALE-DROP-ONLY-WHEN-ABSENT")
		c.Rule("C04-R6", "CUTOFF-PROVENANCE")
		c.Rule("C04-R7", "CUTOFF-ORDER: load cutoff never older than the sweeper cutoff, for every sweeper configuration")
		c.Rule("C04-R8", "PROJECT-DELETES")
		ruleReadDBILoop(c, "C04-R1", true)
		ruleCleanTable(c, "C04-R2")
		ruleIterUpdateTable(c, "C04-R2")
		ruleIterBoth(c, "C04-R2", "C04-R2", "C04-R2")
		t := BuildMergeTable(c, "syncer.(*NativeIterator).Merge")
		if t != nil {
			u := buildUniverse(t, c.Tier == "thorough")
			if ruleTableTotal(c, "C04-R3", t, u, remoteCfgs) {
				ruleLWWOrder(c, "C04-R3", t, u, remoteCfgs)
				ruleAbsentAdd(c, "C04-R3", t, u, remoteCfgs)
				ruleStaleDrop(c, "C04-R5", t, u)
			}
		}
		ruleCutoffProvenance(c, "C04-R6")
		ruleSweeperCutoff(c, "C04-R6")
		ruleTimestampNoWrap(c, "C04-R6")
		ruleCutoffOrder(c, "C04-R7")
		rulePlainIterator(c, "", "C04-R8")
		if t != nil {
			ruleDeletedNoValue(c, "C04-R3", t)
		}
		c.Rule("C04-R9", "DELETIONS-CAPTURED: in shadow mode the capture pass runs for every application DBI unconditionally (an emptied DBI included), so every disappeared key gets its marker")
		ruleMainToShadow(c, "C04-R9", "C04-R9", "C04-R9")
		ruleLoadBody(c, "C04-R6", "C04-R6", "C04-R6", "C04-R6", "C04-R6")
		c.Rule("C04-R10", "HOOKS-ONLY-FROM-EMBEDDER: no built-in FilterReadDBI keeps deletion markers out of the snapshots")
		ruleHooksFromEmbedder(c, "C04-R10")
	})

	register("C05", propMeta{
		Explanation: staticNote + "Decides the ordering and guard conditions that keep published data in the bucket: (R1) every SendOnce in syncLoop is behind !HasSnapshots (start-up) or behind Contains(ownInstanceID) == false; (R2) the waiting set is filled from SeenInstances() after a successful RunOnce(ctx, true) and instances are removed only when their update is loaded; (R3) the listing that fills it includes the own instance; (R4) SendOnce returns success only after a successful Store (retry loop shape; zero iterations excluded by configuration validation); (R5) the cleaner is told what is merged only after a successful Store, from a map written only after a committed merge; (R6) a failing SendOnce/LoadOnce leaves the loop; (R7) the cleaner's delete rules (C12). Further: Config.Check establishes storage_retry_count >= 1 on every accepting path (otherwise the store loop runs zero times and SendOnce reports success). Every retry of the store loop carries the non-nil Store failure in the variable that is tested after the loop (running out of retries cannot look like success); the unordered listing of seen instances is consumed only by order-independent operations in CleanDisappeared. Snapshot names carry the UTC rendering of the snapshot time.",
		NotDecided:  "Crash points and storage fault sequences as such; the cleaners of other instances.",
		Assumptions: []string{"simpleblob.Store is atomic per blob", "hooks are nil by default"},
	}, func(c *Check) {
		c.Rule("C05-R1", "OWN-FIRST")
		c.Rule("C05-R2", "WAIT-SET")
		c.Rule("C05-R3", "LISTING-INCLUDES-OWN")
		c.Rule("C05-R4", "STORE-OR-FAIL")
		c.Rule("C05-R5", "COMMITTED-AFTER-STORE")
		c.Rule("C05-R6", "FATAL-NOT-SKIPPED")
		c.Rule("C05-R7", "cleaner delete rules (see C12)")
		ruleOwnFirst(c, "C05-R1")
		ruleWaitSet(c, "C05-R2")
		ruleCleanDisappeared(c, "C05-R2")
		ruleListingIncludesOwn(c, "C05-R3")
		ruleStoreOrFail(c, "C05-R4", "C05-R5", "C05-R4")
		ruleRetryCountValidated(c, "C05-R4")
		ruleFatal(c, "C05-R6")
		ruleCleanerDeletes(c, "C05-R7", "C05-R7", "C05-R7", "C05-R7", "C05-R7", "C05-R7")
		ruleCommittedCopied(c, "C05-R5")
		c.Rule("C05-R8", "CORRUPT-ONLY-ON-DECODE-ERROR: a snapshot is marked corrupt (ignored from then on) only when decoding it failed")
		ruleMarkCorrupt(c, "C05-R8")
		c.Rule("C05-R9", "NAMES-ORDER-BY-TIME: the time field of a snapshot name is the UTC rendering of the snapshot time (the cleaner and the receiver take the last name of an instance as its newest)")
		ruleNameLayout(c, "C05-R9")
	})

	register("C06", propMeta{
		Explanation: staticNote + "Decides that a snapshot is assembled inside exactly one LMDB transaction and is complete: (R1) SendOnce runs one transaction whose body and everything it reaches start no other; readers get the body's txn; (R2) private DBIs are skipped, all others dumped; (R3) every cursor entry is appended with exactly key, application value, timestamp and masked flags (no transaction id); (R4) the snapshot time is one time.Now() taken inside the transaction and used for metadata, capture and file name; (R5) name and metadata carry the same database/instance; (R6) the recorded DBI flags are those of the original DBI. Further (R7/R8): the name states the snapshot time in UTC with fixed width and a sanitised instance; raw-read mode is only used in the read-only transaction; header.Parse/Skip split header and application value for every extension count. The dump loop over the DBI names is left successfully only at its end. No hook is installed by the repository's own code; ReadDBINames lists every key of the root database; readDBI records name, flags and transform on every successful return.",
		NotDecided:  "'Later snapshots carry later times' (clock); LMDB MVCC (trusted given R1).",
		Assumptions: []string{"hooks (BeforeRead, FilterReadDBI, UpdateSnapshotInfo) are nil by default"},
	}, func(c *Check) {
		c.Rule("C06-R1", "ONE-TXN")
		c.Rule("C06-R2", "PRIVATE-SKIPPED / all application DBIs dumped")
		c.Rule("C06-R3", "ENTRY-CONTENT")
		c.Rule("C06-R4", "TIME-IN-TXN")
		c.Rule("C06-R5", "META/NAME-AGREE")
		c.Rule("C06-R6", "FLAGS-OF-ORIGINAL")
		ruleOneTxn(c, "C06-R1", fnSendOnce, fnSendTxn, []string{fnReadDBI, fnMainToSh, "lmdbenv.ReadDBINames"})
		ruleSendDump(c, "C06-R2", "C06-R4", "C06-R2")
		ruleCollectionExhausted(c, "C06-R2", fnSendTxn, collDBINames, "the DBI names of the environment", nil)
		ruleAllNamesListed(c, "C06-R2")
		ruleReadDBILoop(c, "C06-R3", false)
		ruleSendNaming(c, "C06-R5")
		ruleReadDBIFlags(c, "C06-R6", "C06-R6")
		c.Rule("C06-R7", "NAME-STATES-TIME-AND-INSTANCE: the name's time field is the UTC rendering of the snapshot time with fixed-width nanoseconds; the instance field is sanitised so that the separators stay unambiguous")
		ruleNameLayout(c, "C06-R7")
		ruleSanitiser(c, "C06-R7")
		c.Rule("C06-R8", "INDIRECT: raw-read mode only in the read-only snapshot transaction; header.Parse/Skip split header and application value correctly for every extension count")
		ruleRawReadRestored(c, "C06-R8")
		ruleRawReadWriters(c, "C06-R8")
		ruleParseTable(c, "C06-R8")
		c.Rule("C06-R9", "HOOKS-ONLY-FROM-EMBEDDER: no hook (FilterReadDBI in particular) is installed by the repository's own code; what readDBI leaves out is decided by the embedder's hook alone")
		ruleHooksFromEmbedder(c, "C06-R9")
	})

	register("C09", propMeta{
		Explanation: staticNote + "Decides the upload trigger and the watermark discipline: (R1) in every pass of the main loop env.Info() is re-read and LastTxnID > watermark ∧ not waiting for own ∧ database not empty ⇒ SendOnce; (R2) the watermark lastSyncedTxnID is only moved to SendOnce's id after success, to LoadOnce's id when no local change was detected, or to Info's id for an empty database, and LoadOnce is given the current watermark; (R3) the id returned as synced must come from inside the transaction (known finding); (R4) SendOnce returns success only after a successful Store. Further: Config.Check establishes storage_retry_count >= 1; in shadow mode every application DBI is captured unconditionally before the dump (R6). Instances that disappeared from the listing (an empty listing included) leave the set the first upload waits for.",
		NotDecided:  "Interleavings; that the snapshot contains the write relies on C01-R3/C06.",
		Assumptions: []string{"LMDB LastTxnID semantics"},
	}, func(c *Check) {
		c.Rule("C09-R1", "TRIGGER")
		c.Rule("C09-R2", "WATERMARK-WRITERS")
		c.Rule("C09-R3", "WATERMARK-ATOMIC (= C03-R2)")
		c.Rule("C09-R4", "STORE-OR-FAIL (= C05-R4)")
		ruleTrigger(c, "C09-R1", "C09-R1")
		ruleWatermarkWriters(c, "C09-R2")
		ruleWatermarkAtomic(c, "C09-R3")
		ruleStoreOrFail(c, "C09-R4", "C09-R4", "C09-R4")
		ruleRetryCountValidated(c, "C09-R4")
		ruleCaptureBeforeProject(c, "C09-R2")
		c.Rule("C09-R5", "SYNCED-ID-BOUNDED: the id reported as synced is min(txn.ID(), LastTxnID)")
		ruleSyncedIdBound(c, "C09-R5")
		ruleSendDump(c, "C09-R5", "C09-R5", "C09-R5")
		c.Rule("C09-R6", "CAPTURE-COMPLETE: in shadow mode every application DBI is captured unconditionally before the dump (an emptied DBI included)")
		// an instance does not publish before it has merged its own newest snapshot: that download is retried
		ruleRetryAndNotify(c, "C09-R6")
		ruleMainToShadow(c, "C09-R6", "C09-R6", "C09-R6")
		c.Rule("C09-R7", "WAIT-SET-DRAINS: an instance whose snapshots disappeared from the listing (the own one included, an empty listing included) leaves the set the first upload waits for")
		ruleCleanDisappeared(c, "C09-R7")
		ruleWaitSet(c, "C09-R7")
	})

	register("C10", propMeta{
		Explanation: staticNote + "Decides the no-write / no-upload conditions: (R1) a non-winning merge returns the stored slice itself and setNewVal / the IterUpdate callback perform no LMDB mutation for an unchanged value; (R2) the capture use of the merge keeps an unchanged entry without re-stamping and Clean keeps an existing marker; merging an entry a second time is a keep (idempotence on the table); (R3) SendOnce in the main loop only with LastTxnID strictly above the watermark or an overdue forced snapshot (!ReceiveOnly ∧ interval > 0 ∧ elapsed > interval); (R4) merged remote data advances the watermark (does not count as a local change) exactly when no local change was detected. Further (R5/R6): plain DBIs are projected with IterUpdate, only dupsort DBIs are rebuilt; the stale-marker cutoff is on exactly when the sweeper is. LoadOnce's local-change result is assigned the transaction-id test or false and nothing else.",
		NotDecided:  "Fleet-level boundedness; dupsort DBIs (excluded by the statement).",
		Assumptions: []string{"LMDB records no transaction when nothing was written"},
	}, func(c *Check) {
		c.Rule("C10-R1", "NO-WRITE-ON-KEEP")
		c.Rule("C10-R2", "NO-RESTAMP")
		c.Rule("C10-R3", "UPLOAD-ONLY-ON-CHANGE")
		c.Rule("C10-R4", "MERGE-IS-NOT-LOCAL")
		t := BuildMergeTable(c, "syncer.(*NativeIterator).Merge")
		if t != nil {
			u := buildUniverse(t, c.Tier == "thorough")
			cfgs := append([]MCfg{}, remoteCfgs...)
			if ruleTableTotal(c, "C10-R1", t, u, cfgs) {
				ruleKeepIdentity(c, "C10-R1", t)
				ruleAlgebra(c, "C10-R2", t, u, cfgs, false)
				ruleCapture(c, "C10-R2", t, u)
			}
		}
		ruleSetNewVal(c, "C10-R1")
		ruleIterUpdateTable(c, "C10-R1")
		ruleCleanTable(c, "C10-R2")
		ruleTrigger(c, "C10-R3", "C10-R3")
		ruleWatermarkWriters(c, "C10-R4")
		ruleLocalChangeOnlyByTxnID(c, "C10-R4")
		c.Rule("C10-R5", "NO-REBUILD: a plain DBI is projected with IterUpdate (no write when unchanged); only dupsort DBIs are rebuilt")
		ruleShadowToMain(c, "C10-R5", "C10-R5")
		c.Rule("C10-R6", "CUTOFF-PROVENANCE: the stale-marker cutoff is on exactly when the sweeper is (a swept marker re-added by every load is swept again: a commit and an echo upload per exchange)")
		ruleCutoffProvenance(c, "C10-R6")
	})

	register("C18", propMeta{
		Explanation: staticNote + "Decides all-or-nothing merging structurally: (R1) LoadOnce runs one write transaction; nothing reachable from its body starts another; every LMDB call in it gets the body's txn; (R2) every error of the body, the mirror passes, the strategies and the iterator reaches the caller as an error (so LMDB aborts); (R3) version gates: accepted exactly when fv != 0 ∧ fv >= Compat ∧ compat <= Current ∧ txn id != 0; (R4) in format version 1 an empty value denotes a deletion (merge table with fv = 1); (R5) private DBIs are ignored and ValidateTransform succeeds before the DBI is touched; its table is exact; (R6) the application DBI is created only from a v3+ snapshot or with explicit override flags; (R7) cancellation aborts. Further: DBI.Next reports io.EOF only behind cursor >= len(data), so a DBI is never merged partially with success reported. The projection is unconditional in shadow mode; a failing callback makes DBI.Map return an error. The snapshot's version fields are written by the decoder and the snapshot writer only.",
		NotDecided:  "Map-full at arbitrary points (LMDB abort semantics trusted given R1/R2); concurrent readers (LMDB MVCC).",
		Assumptions: []string{"LMDB aborts a write transaction whose callback returns an error"},
	}, func(c *Check) {
		c.Rule("C18-R1", "ONE-WRITE-TXN")
		c.Rule("C18-R2", "ERRORS-PROPAGATE")
		c.Rule("C18-R3", "VERSION-GATES")
		c.Rule("C18-R4", "V1-EMPTY-IS-DELETED")
		c.Rule("C18-R5", "VALIDATE-BEFORE-TOUCH + transform table")
		c.Rule("C18-R6", "PRE-V3 DBI creation")
		c.Rule("C18-R7", "CANCEL")
		ruleOneTxn(c, "C18-R1", fnLoadOnce, fnLoadTxn, []string{fnMainToSh, fnShToMain, fnStratUpd, "lmdbenv.DBIExists", "(*lmdb.Txn).OpenDBI"})
		ruleCaptureBeforeProject(c, "C18-R2")
		ruleErrFlow(c, "C18-R2", "snapshot.(*DBI).Map", fnLoadTxn, fnMainToSh, fnShToMain, fnStratUpd, fnIterUpd, iterUpdateCallback(c.P), fnEmptyPut, "?lmdbenv/strategy.doPut", "?lmdbenv/strategy.setNewVal", "lmdbenv/strategy.iterBoth", "syncer.(*NativeIterator).Next", fnReadDBI)
		ruleLoadErrReturned(c, "C18-R2")
		ruleNextEOF(c, "C18-R2")
		ruleVersionGates(c, "C18-R3")
		ruleVersionFieldsAsDeclared(c, "C18-R3")
		t := BuildMergeTable(c, "syncer.(*NativeIterator).Merge")
		if t != nil {
			u := buildUniverse(t, false)
			if ruleTableTotal(c, "C18-R4", t, u, remoteCfgs) {
				ruleAbsentAdd(c, "C18-R4", t, u, remoteCfgs)
				ruleLWWOrder(c, "C18-R4", t, u, remoteCfgs)
			}
		}
		ruleLoadBody(c, "C18-R5", "C18-R5", "C18-R5", "C18-R6", "C18-R7")
		ruleValidateTransformTable(c, "C18-R5")
	})

	register("C19", propMeta{
		Explanation: staticNote + "Extracts and checks the decision tables of the three strategies the syncer uses: (R1) Update: Next → Get → Merge(stored) → setNewVal for every key; (R2) the IterUpdate callback: nine cells (stored-only / input-only / both × nil / equal / changed) each with exactly the prescribed single LMDB mutation or none; (R3) one step of iterBoth: six cells with exact callback arguments and exactly the consumed side(s) advancing; (R4) sortedness: an input key is accepted only if first or strictly greater than the previous one in the selected order, rejected only otherwise; (R5) comparator: integer comparator exactly for integerKey on little-endian hosts, three-way table, decoder widths; (R7) EmptyPut: Drop(dbi, false) before refill; setNewVal table. Further (R8): a strategy fails only when the iterator or LMDB failed or the input order is wrong (no own rejections); Update never bypasses the per-key lookup; the endianness probe selects the integer comparator correctly. The refill loop (doPut) and Update end successfully only when the iterator reported io.EOF.",
		NotDecided:  "Extensional equality with a map-based reference over all inputs; LMDB cursor semantics; keys of mixed widths in one integer-key DBI.",
		Assumptions: []string{"LMDB cursor iteration is in the DBI's key order"},
	}, func(c *Check) {
		c.Rule("C19-R1", "UPDATE-LOOP")
		c.Rule("C19-R2", "ITERUPDATE-TABLE")
		c.Rule("C19-R3", "ITERBOTH-STEP")
		c.Rule("C19-R4", "SORTED-CHECK (valid input never rejected, invalid order always rejected)")
		c.Rule("C19-R5", "COMPARATOR")
		c.Rule("C19-R7", "EMPTYPUT / setNewVal")
		ruleUpdateLoop(c, "C19-R1")
		ruleIterUpdateTable(c, "C19-R2")
		ruleIterBoth(c, "C19-R3", "C19-R4", "C19-R5")
		ruleCmpInt(c, "C19-R5")
		ruleIntegerKeyFlag(c, "C19-R5")
		ruleEndianProbe(c, "C19-R5")
		ruleEmptyPut(c, "C19-R7")
		ruleSetNewVal(c, "C19-R7")
		c.Rule("C19-R8", "NO-OWN-REJECTION: a strategy fails only when the iterator or LMDB failed or the input order is wrong")
		ruleNoOwnRejection(c, "C19-R8", fnStratUpd, "?lmdbenv/strategy.doPut", fnEmptyPut, "?lmdbenv/strategy.setNewVal", iterUpdateCallback(c.P), "lmdbenv/strategy.iterBoth", "lmdbenv/strategy.Append")
	})
}

func init() {
	register("C12", propMeta{
		Explanation: staticNote + "Decides the cleaner's rules from the code: (R1) who may Delete/Store blobs (cleaner.RunOnce and SendOnce only; offline CLI commands allow-listed and proven unreachable from Sync); (R2) what is deleted: FullName of successfully parsed snapshot-kind names from List(ctx, name+\"__\"), after sort(newest first) ∘ keep-interval filter ∘ newest-protection filter, or a stale-list entry; (R3) keep-interval table (first seen strictly more than MustKeepInterval ago); (R4) comparator table (newest first at full resolution) and newest-protection table; (R5) the stale-instance Delete only under !Timestamp.After(GetCommitted(instance)) and entries enter the stale list only when older than RemoveOldInstancesInterval; (R6) a List error returns before any Delete, a Delete error changes nothing; (R7) receive-only: disabled cleaner, no Store. Further: Config.Check establishes storage_retry_count >= 1 (an upload that never happened must not be reported as committed); names are parsed strictly by position.",
		NotDecided:  "Eventual removal / boundedness of the number of files (liveness); clocks.",
		Assumptions: []string{"slices.SortFunc and lo.Filter behave as documented (stable filtering in order)"},
	}, func(c *Check) {
		c.Rule("C12-R1", "WHO may Delete / Store")
		c.Rule("C12-R2", "WHAT is deleted")
		c.Rule("C12-R3", "KEEP-INTERVAL")
		c.Rule("C12-R4", "NEWEST-PROTECTED")
		c.Rule("C12-R5", "STALE-RULE")
		c.Rule("C12-R6", "ERRORS-SAFE")
		c.Rule("C12-R7", "RECEIVE-ONLY")
		ruleWhoMutatesBucket(c, "C12-R1")
		ruleCleanerDeletes(c, "C12-R2", "C12-R3", "C12-R4", "C12-R5", "C12-R6", "C12-R7")
		ruleReceiveOnlyCleaner(c, "C12-R7")
		ruleStoreOrFail(c, "C12-R5", "C12-R5", "C12-R7")
		ruleRetryCountValidated(c, "C12-R5")
		ruleBuildParse(c, "C12-R2")
		ruleCommittedCopied(c, "C12-R5")
	})

	register("C13", propMeta{
		Explanation: staticNote + "Decides the sweeper's per-entry table and scope: (R1) in the slice body an entry is deleted exactly when its header parses, the deleted flag is set and timestamp < cutoff (strict), as Del(dbi, scanner key, scanner value); (R2) the cutoff is now − RetentionDuration(), assigned once before the first slice, and RetentionDuration() is days × 24h without truncation (expression evaluated on sample configurations); (R3) a sweep transaction is opened only in native mode or for a DBI with the private prefix (same constant as the syncer's); (R4) that Del is the only LMDB mutator reachable from the sweeper; (R5) the slice resume cursor is fresh per DBI and recorded unconditionally at the end of each slice. Further (R6/R7): a slice resumes with SetRange on the saved (key, value) and steps past it exactly when it landed on that same entry; a failed slice transaction ends the pass with an error before the resume flag is looked at; the cutoff conversion cannot wrap; raw-read mode is not used. The DBI loop of a pass is left successfully only at its end. An iteration of the DBI loop that starts no sweep transaction is justified only by non-native mode and a non-private name.",
		NotDecided:  "That every expired marker is removed across slices (depends on lmdbscan's runtime behaviour); concurrency with application writes (LMDB write lock trusted).",
		Assumptions: []string{"lmdbscan.Scanner iterates the DBI in order; Del(key, value) removes exactly that entry"},
	}, func(c *Check) {
		c.Rule("C13-R1", "SWEEP-TABLE")
		c.Rule("C13-R2", "CUTOFF")
		c.Rule("C13-R3", "PRIVATE-ONLY")
		c.Rule("C13-R4", "ONLY-EFFECT")
		c.Rule("C13-R5", "PER-DBI RESUME CURSOR")
		ruleSweeper(c, "C13-R1", "C13-R3", "C13-R4", "C13-R5")
		ruleSweeperCutoff(c, "C13-R2")
		ruleTimestampNoWrap(c, "C13-R2")
		c.Rule("C13-R6", "RESUME-EXACT: a slice resumes with SetRange on the saved (key, value) and steps past it exactly when it landed on that same entry")
		ruleLimitScannerResume(c, "C13-R6")
		c.Rule("C13-R7", "SLICE-ERROR-ABORTS: a failed slice transaction ends the pass with an error before the resume flag is looked at")
		ruleSweepSliceErrors(c, "C13-R7")
		ruleCollectionExhausted(c, "C13-R7", fnSweep, collLocalNames, "the DBI names of the environment", nil)
		ruleEveryDBISwept(c, "C13-R7")
		ruleRawReadWriters(c, "C13-R5")
	})
}

func init() {
	register("C16", propMeta{
		Explanation: staticNote + "Decides delivery/limit structure: (R1) in Downloader.LoadOnce every acquired token is released on every path or handed to the stored update's OnClose, which releases it; (R2) a replaced, not yet merged snapshot is closed; (R3) the sync loop closes every update it obtained directly after LoadOnce; (R4) a failed load sleeps (cancellable) and re-reads the newest name, and/or the receiver notifies on every change of an instance's newest name, so an older decodable snapshot is delivered when the newest is corrupt; corrupt blobs are marked only on decode errors, copied into the ignore list, which gates the listing; (R5) syncLoop returns nil only under OnlyOnce ∧ waiting set empty; instances that disappeared are removed from the waiting set; (R6) the limiter's channel capacity equals the number of tokens, Tokens are minted only after a receive, Release is idempotent; (R7) Next removes what it hands out under the lock. Further: the download token covers the whole lifetime of the compressed blob; the receiver notifies on every change of an instance's newest name (required, not only the retry); without an InstanceReady hook an instance leaves the waiting set only for a snapshot-kind update; metric label arity (R7). The unordered listing handed to CleanDisappeared is consumed only by order-independent operations; the receiver's listing and notification loops handle every element. The loader reads the gzip stream itself to its end (no refusal other than a decode error); every successful poll replaces the per-instance map.",
		NotDecided:  "Eventual delivery as a liveness property; relative speeds; memory actually held by decoded snapshots.",
		Assumptions: []string{"simpleblob List/Load semantics"},
	}, func(c *Check) {
		c.Rule("C16-R1", "TOKEN-PAIRING")
		c.Rule("C16-R2", "OVERWRITE-CLOSED")
		c.Rule("C16-R3", "CONSUMED-CLOSED")
		c.Rule("C16-R4", "RETRY / NOTIFY / CORRUPT-IGNORED")
		c.Rule("C16-R5", "RUN-ONCE exit and disappeared instances")
		c.Rule("C16-R6", "LIMITER")
		ruleDownloaderLoad(c, "C16-R1", "C16-R2", "C16-R4")
		ruleListingIncludesOwn(c, "C16-R4")
		ruleConsumedClosed(c, "C16-R3")
		ruleRetryAndNotify(c, "C16-R4")
		ruleMarkCorrupt(c, "C16-R4")
		ruleReceiverListing(c, "C16-R4", "C16-R4")
		ruleListingNotReordered(c, "C16-R4", fnRecvRun, fnCleanerRun)
		ruleCollectionExhausted(c, "C16-R4", fnRecvRun, `\(simpleblob\.BlobList\)\.Names@[\w~]+`, "the names of the listing", nil)
		ruleCollectionExhausted(c, "C16-R4", fnRecvRun, `makemap@[\w~]+`, "the newest snapshot of every instance", nil)
		ruleRunOnceExit(c, "C16-R5")
		ruleCleanDisappeared(c, "C16-R5")
		ruleWaitSet(c, "C16-R5")
		ruleLimiter(c, "C16-R6")
		c.Rule("C16-R7", "LABEL-ARITY: metric vectors get as many label values as they declare (a mismatch panics on the download-failure path instead of retrying)")
		ruleMetricLabelArity(c, "C16-R7")
		c.Rule("C16-R8", "WHOLE-STREAM: a valid blob is never refused by the loader for a reason other than a decode error (every refusal marks it corrupt for good)")
		ruleWholeStream(c, "C16-R8")
	})
}

func init() {
	register("C20", propMeta{
		Explanation: staticNote + "Extracts the encode and decode tables of the dupsort hack and interprets them (no code is run) on representative (key, value) pairs chosen from the statement (zero bytes next to the separator, values longer than the room left, boundary lengths, maximal keys): (R1) constant relations 511 / 255 / 4 / 1; (R2/R3) decode(encode(kv)) == kv on every cell, shadow key length <= 511, empty/oversized keys and malformed shadow keys refused, no index out of range; (R4) while encoding a DBI an equal or descending shadow key is refused; (R5) the transform is recorded when dumping and validated before merging (table); (R6) encode iff dupsort in the capture, decode+EmptyPut iff dupsort in the projection; native schema excludes the hack. Further: the shadow DBI is created with the allowed flag mask applied last. The refill loop of EmptyPut ends successfully only when the iterator reported io.EOF (a tombstone must not end it). A failing callback makes DBI.Map (and with it the encode and decode passes) return an error. readDBI records flags and transform on every successful return (an early return for an empty DBI included).",
		NotDecided:  "Reversibility over all byte strings (only the representative cells are interpreted); the full mirror cycle on real LMDB.",
		Assumptions: []string{"the representative lengths cover the boundaries of the extracted conditions (every constant in the tables is hit on both sides)"},
	}, func(c *Check) {
		c.Rule("C20-R1", "CONSTANTS")
		c.Rule("C20-R2", "ROUND-TRIP on the extracted encode/decode tables, refusals, bounds")
		c.Rule("C20-R4", "UNIQUE/ORDER")
		c.Rule("C20-R5", "TRANSFORM recorded and validated")
		c.Rule("C20-R6", "PAIRING in the mirror passes")
		ruleDupSortCodec(c, "C20-R1", "C20-R2")
		ruleDupSortUnique(c, "C20-R4")
		ruleReadDBIFlags(c, "C20-R5", "C20-R5")
		ruleValidateTransformTable(c, "C20-R5")
		ruleLoadBody(c, "C20-R5", "C20-R5", "C20-R5", "C20-R5", "C20-R5")
		ruleMainToShadow(c, "C20-R6", "C20-R6", "C20-R6")
		ruleShadowToMain(c, "C20-R6", "C20-R6")
		ruleErrFlow(c, "C20-R4", "snapshot.(*DBI).Map", "syncer.dupSortHackEncode", "syncer.dupSortHackDecode")
		ruleEmptyPut(c, "C20-R6")
		ruleShadowCreateMask(c, "C20-R6")
	})

	register("C11", propMeta{
		Explanation: staticNote + "Decides the mirror's decision tables and plumbing: (R1) capture table: an unchanged application value keeps its entry and timestamp, a changed or new one is stamped with the detection time; (R2) a key missing from the application DBI becomes a marker (Clean), via the IterUpdate table; (R3) the projection writes exactly the shadow value and deletes the key of a marker (reports the known empty-value defect); (R4) key order: IterUpdate derives integerKey from the DBI's MDB_INTEGERKEY flag, the comparator is selected by it, shadow DBIs are created with that flag from the application DBI (both creation sites); (R5) the sortedness check never rejects a valid first key; (R6) the detection time is taken inside the write transaction; (R7) both passes visit every non-private DBI; raw-read mode is restored after a dump. Further (R8): raw-read mode is never on in a write transaction (complete set of writers of Txn.RawRead enumerated); the endianness probe stores true exactly under the low-byte-first outcome. Both mirror loops are left successfully only at their end (COLLECTION-EXHAUSTED). The capture and projection walks use a listing read from this transaction in this call; in shadow mode every successful end of the load body ran shadowToMain. ReadDBINames lists every key of the root database.",
		NotDecided:  "The mirror's extensional equality with a reference over all contents; changes made while the syncer is down.",
		Assumptions: []string{"instances share one monotone clock (documented)"},
	}, func(c *Check) {
		c.Rule("C11-R1", "CAPTURE-TABLE")
		c.Rule("C11-R2", "CLEAN-TABLE / ITERUPDATE-TABLE")
		c.Rule("C11-R3", "PROJECTION (T-PLAIN)")
		c.Rule("C11-R4", "KEY-ORDER")
		c.Rule("C11-R5", "FIRST-KEY / SORTED-CHECK")
		c.Rule("C11-R6", "DETECTION-TIME")
		c.Rule("C11-R7", "MIRROR-LOOPS")
		c.Rule("C11-R8", "RAWREAD-RESTORED")
		t := BuildMergeTable(c, "syncer.(*NativeIterator).Merge")
		if t != nil {
			u := buildUniverse(t, c.Tier == "thorough")
			ruleCapture(c, "C11-R1", t, u)
		}
		ruleCleanTable(c, "C11-R2")
		ruleIterUpdateTable(c, "C11-R2")
		rulePlainIterator(c, "C11-R3", "C11-R3")
		if t != nil {
			ruleDeletedNoValue(c, "C11-R3", t)
		}
		ruleIntegerKeyFlag(c, "C11-R4")
		ruleIterBoth(c, "C11-R4", "C11-R5", "C11-R4")
		ruleCmpInt(c, "C11-R4")
		ruleEndianProbe(c, "C11-R4")
		ruleShadowCreateMask(c, "C11-R4")
		ruleCaptureBeforeProject(c, "C11-R6")
		ruleSendDump(c, "C11-R7", "C11-R6", "C11-R7")
		ruleMainToShadow(c, "C11-R7", "C11-R7", "C11-R4")
		ruleShadowToMain(c, "C11-R7", "C11-R7")
		ruleCollectionExhausted(c, "C11-R7", fnMainToSh, collDBINames, "the DBI names of the environment", nil)
		ruleCollectionExhausted(c, "C11-R7", fnShToMain, collDBINames, "the DBI names of the environment", nil)
		ruleAllNamesListed(c, "C11-R7")
		ruleSyncedIdBound(c, "C11-R7")
		ruleRawReadRestored(c, "C11-R8")
		ruleRawReadWriters(c, "C11-R8")
	})
}

func init() {
	register("C14", propMeta{
		Explanation: staticNote + "Decides header well-formedness structurally and by interpreting extracted terms: (R1) PutBasic writes all 24 bytes (big-endian timestamp and txn id, version 0, the flags argument, reserved and extension count 0); (R2) layout constants equal the documented layout; flag helper meanings; (R3) every value Lightning Stream assembles is: buffer reset to 24 bytes → PutBasic → optional padding block with count 1 → the application value last; (R4) only synced flags are written for all raw incoming flags, a deleted entry is written without value, the txn id is the iterator's; (R5) the iterator's txn id is txn.ID() of the writing transaction at both construction sites; (R6) the extracted Parse and Skip tables, interpreted on byte strings around every length boundary and extension counts up to 65535, reject exactly the too-short / wrong-version values, return what follows all extension blocks, never index out of range, and agree with each other. Further (R7): PutBasic (which zeroes the extension count) is only applied to fresh buffers or the iterator's scratch field, in the daemon and in the CLI commands; the sweeper validates stored values through header.Parse.",
		NotDecided:  "Values written by the application itself; Header.Bytes()/doBytes (not used by the syncer's write path).",
		Assumptions: []string{"encoding/binary big-endian semantics"},
	}, func(c *Check) {
		c.Rule("C14-R1", "PUTBASIC-COVERAGE")
		c.Rule("C14-R2", "LAYOUT constants and flag helpers")
		c.Rule("C14-R3", "ASSEMBLY")
		c.Rule("C14-R4", "FLAGS-MASKED, deleted ⇒ no value, iterator's txn id")
		c.Rule("C14-R5", "TXNID provenance")
		c.Rule("C14-R6", "PARSE/SKIP tables")
		rulePutBasic(c, "C14-R1")
		ruleHeaderLayout(c, "C14-R2")
		for _, fn := range []string{"syncer.(*NativeIterator).Merge", "syncer.(*NativeIterator).Clean"} {
			t := BuildMergeTable(c, fn)
			if t == nil {
				continue
			}
			ruleAssembly(c, "C14-R3", t)
			ruleStoredValidated(c, "C14-R6", t)
			if strings.HasSuffix(fn, "Merge") {
				u := buildUniverse(t, c.Tier == "thorough")
				if ruleTableTotal(c, "C14-R4", t, u, remoteCfgs) {
					ruleFlagsMasked(c, "C14-R4", t, u, remoteCfgs)
					ruleDeletedNoValue(c, "C14-R4", t)
				}
			}
		}
		ruleLoadBody(c, "C14-R5", "C14-R5", "C14-R5", "C14-R5", "C14-R5")
		ruleMainToShadow(c, "C14-R5", "C14-R5", "C14-R5")
		ruleReadDBILoop(c, "C14-R4", false)
		ruleParseTable(c, "C14-R6")
		c.Rule("C14-R7", "PUTBASIC-ON-FRESH: PutBasic (which zeroes the extension count) is only applied to a fresh buffer or the caller's scratch field, never to bytes read from LMDB")
		rulePutBasicFresh(c, "C14-R7")
		ruleSweeper(c, "C14-R6", "C14-R6", "C14-R6", "C14-R6")
	})
}

func init() {
	register("C15", propMeta{
		Explanation: staticNote + "Decides the structural conditions of round-tripping, chronologically sorting names: (R1) the time layout tokenises to fixed-width zero-padded numeric fields, most significant first, down to nanoseconds; dotIndex is its '.'; NameTimestamp is ts.UTC().Format(layout) with '.'→'-'; (R2) BuildName writes database, instance, timestamp, generation, extras joined by \"__\", then '.' and the extension; ParseName cuts the extension at the first '.', requires a registered extension, splits on the same \"__\" into the same four fields in the same order, checks length and '-' and parses with the same layout; (R3) instanceID() returns reUnsafe.ReplaceAllString(n, \"-\") on every path and reUnsafe (parsed with regexp/syntax) replaces '_', '.', and everything outside [a-zA-Z0-9-]; (R4) receiver and cleaner list name+\"__\" and consider only successfully parsed names of kind snapshot. Further: Timestamp.Time is uniformly time.Unix(0, int64(ts)). The listing returned by List is never sorted, reversed or written to before it is scanned, also not through a helper that receives a copy of the slice header. NameExtraItem.String returns the item unchanged.",
		NotDecided:  "time.Format/Parse behaviour over 1970–2262; injectivity beyond field order; database names containing the separator (documented alphabet).",
		Assumptions: []string{"database and sanitised instance names contain neither \"__\" nor '.' (documented safe alphabet)"},
	}, func(c *Check) {
		c.Rule("C15-R1", "LAYOUT")
		c.Rule("C15-R2", "SEPARATORS / ORDER / PARSER")
		c.Rule("C15-R3", "SANITISER")
		c.Rule("C15-R4", "KIND-FILTER and prefixes")
		ruleNameLayout(c, "C15-R1")
		ruleTimestampTime(c, "C15-R1")
		ruleBuildParse(c, "C15-R2")
		ruleSanitiser(c, "C15-R3")
		ruleReceiverListing(c, "C15-R4", "C15-R4")
		ruleListingNotReordered(c, "C15-R4", fnRecvRun, fnCleanerRun)
		ruleCollectionExhausted(c, "C15-R4", fnRecvRun, `\(simpleblob\.BlobList\)\.Names@[\w~]+`, "the names of the listing", nil)
		ruleCollectionExhausted(c, "C15-R4", fnRecvRun, `makemap@[\w~]+`, "the newest snapshot of every instance", nil)
		ruleCleanerDeletes(c, "C15-R4", "C15-R4", "C15-R4", "C15-R4", "C15-R4", "C15-R4")
		ruleSendNaming(c, "C15-R2")
	})
}

func init() {
	register("C17", propMeta{
		Explanation: staticNote + "Decides lock discipline and cancellation structurally: (R1) guarded-by: every access to the fields the repository documents as mutex-protected happens with the mutex of the same object held (all functions of the concurrent packages, helpers inlined two levels so locks held by callers count); (R2) the cleaner's committed map is a private copy, never an alias of the sync loop's map; (R3) no blocking operation (channel operation without default, storage call, sleep, token acquire, publish) while a mutex is held — reports the known Publish-under-lock defect; sends to and closes of subscriber channels are serialised by the topic's mutex; (R4) nested lock acquisitions are acyclic; (R5) GetGlobal returns the storage only when non-nil and panics only if still nil after waiting; (R6) every unbounded loop of the goroutine bodies passes a cancellation point on every cycle; (R7) Token.Release is idempotent under its mutex. Further (R8-R10): static lockset over all fields of the component struct types and package-level variables — written after construction, reachable from goroutines not ordered by start-up (VTA call graph, go statements as roots) ⇒ a common lock at every access; a locally built map is not modified after publication except under the publishing lock; a function that subscribes and keeps the subscription closes it on every path out; subscriber channels are closed at most once; readiness of the global storage is a broadcast; SleepContext is a cancellation point on every path. A deferred wait for started goroutines is deferred before (runs after) the cancellation of their context; Publish reaches every subscriber. A map that is modified in a call and then installed in a shared object or handed to subscribers is made in that call on every path (no refilled map that was published before); every token acquired in LoadOnce is released or handed on.",
		NotDecided:  "Races on memory reached through slices/maps handed between goroutines other than published maps, hand-over discipline of the snapshot message types, the command-line layer; third-party internals; the schedules themselves.",
		Assumptions: []string{"one goroutine per started root and object (one Run per Downloader/Receiver/cleaner/sweeper); objects of the snapshot message types are owned by one goroutine at a time"},
	}, func(c *Check) {
		c.Rule("C17-R1", "GUARDED-BY")
		c.Rule("C17-R2", "COMMITTED-MAP-COPIED (no sharing of the sync loop's map with the cleaner)")
		c.Rule("C17-R3", "NO-BLOCKING-UNDER-LOCK; close/send serialised")
		c.Rule("C17-R4", "LOCK-ORDER acyclic")
		c.Rule("C17-R5", "GETGLOBAL")
		c.Rule("C17-R6", "CANCELLABLE-LOOPS")
		c.Rule("C17-R7", "RELEASE-IDEMPOTENT / limiter")
		ruleLockset(c, "C17-R1", "C17-R3", "C17-R4", "C17-R3")
		ruleCommittedCopied(c, "C17-R2")
		ruleTopicChannels(c, "C17-R3")
		ruleCollectionExhausted(c, "C17-R3", "utils/topics.(*Topic[T]).Publish", `[^()]*\.subscribers`, "the subscribers of the topic", nil)
		ruleGetGlobal(c, "C17-R5")
		ruleCancellableLoops(c, "C17-R6")
		ruleWaitAfterCancel(c, "C17-R6")
		ruleDownloaderLoad(c, "C17-R6", "C17-R6", "C17-R6")
		ruleSleepContext(c, "C17-R6")
		ruleLimiter(c, "C17-R7")
		c.Rule("C17-R8", "SHARED-FIELDS: every struct field written after construction and reachable from goroutines not ordered by start-up is accessed under a common lock (static lockset over the VTA call graph)")
		ruleSharedFields(c, "C17-R8")
		c.Rule("C17-R9", "PUBLISHED-FROZEN: a locally built map is not modified after it was stored into a shared object or published, except under the publishing lock")
		rulePublishedFrozen(c, "C17-R9")
		c.Rule("C17-R10", "SUBSCRIPTION-CLOSED: a function that subscribes and keeps the subscription closes it on every path out")
		ruleSubscriptionClosed(c, "C17-R10")
	})
}

func init() {
	register("C07", propMeta{
		Explanation: staticNote + "Decides the structural conditions of a lossless, wire-compatible codec: (R1) for KV, DBI, Snapshot and Meta the (field number, wire type) tables of the generated reference schema (struct tags), of the Field* constants, of the hand-written writers (EncodeTag sites) and of the hand-written readers (switch cases with expectWT / get* helpers) are equal; (R2) the size phase of DBI.Append declares exactly what the emit phase writes and reserves exactly header+message, interpreted on the extracted events for lengths across every varint boundary, and the buffer has capacity after growth; (R3) every decode/skip call in the cursor parsers reads from the buffer sliced at the advancing cursor; (R4) unknown fields are skipped by wire type in every reader; (R5) decoders merge into their receiver and never reset it. Further (R6/R7): no encoder result aliases package-level storage; every encoder scratch buffer is at least as long as the most that can be written into it for all field lengths (linear bounds, followed into helpers, with recognition of a dominating fit test); the Append table is also evaluated at the buffer states around \"exactly enough room\"; the DBI reader reports io.EOF only at the end of the data. Every round of the KV and DBI field loops compares the cursor with the data length before the next tag is read (a message may end after any field, also an unknown one); every DBI of a snapshot is written and every field of a message is looked at; entries are decoded into a zero KV. LoadData collects the decompressed bytes from the gzip reader itself until it reports the end (no bounded or wrapped source that stops early without an error). A length assembled by hand from buffer bytes has every contributing byte tested for its continuation bit.",
		NotDecided:  "Round-trip equality for all inputs (byte content of the emitted fields is not interpreted); the csproto decoder used for the outer message; gzip.",
		Assumptions: []string{"csproto.EncodeTag/EncodeVarint write SizeOfVarint bytes; copy copies len(src) bytes into the reserved space"},
	}, func(c *Check) {
		c.Rule("C07-R1", "SCHEMA-TABLE agreement: reference tags = constants = writer = reader")
		c.Rule("C07-R2", "SIZE-EMIT / GROW-SUFFICIENT")
		c.Rule("C07-R3", "READ-AT-CURSOR")
		c.Rule("C07-R4", "UNKNOWN-SKIPPED")
		c.Rule("C07-R5", "DECODERS-MERGE")
		ruleSchemaTables(c, "C07-R1", "C07-R4")
		ruleAppendSizes(c, "C07-R2")
		ruleReadAtCursor(c, "C07-R3", "C07-R3")
		ruleLengthGuarded(c, "C07-R3", true)
		ruleNextEOF(c, "C07-R3")
		// every DBI is written, every field of the message is looked at
		ruleCollectionExhausted(c, "C07-R1", "snapshot.(*Snapshot).WriteTo", `[^()]*\.Databases`, "the DBIs of the snapshot", nil)
		ruleCollectionExhausted(c, "C07-R4", "snapshot.(*Snapshot).Unmarshal", `\(\*csproto\.Decoder\)\.More@[\w~]+`, "the fields of the message", nil)
		ruleCollectionExhausted(c, "C07-R4", "snapshot.(*Meta).Unmarshal", `\(\*csproto\.Decoder\)\.More@[\w~]+`, "the fields of the message", nil)
		ruleEndTestEveryField(c, "C07-R4", "snapshot.(*KV).Unmarshal", "snapshot.(*DBI).indexData")
		ruleWholeStream(c, "C07-R3")
		// a truncated or failing read of the container surfaces as an error (no silently shortened snapshot)
		ruleErrFlow(c, "C07-R3", "snapshot.LoadData", "snapshot.(*Snapshot).Unmarshal", "snapshot.NewDBIFromData", "snapshot.(*DBI).indexData", "snapshot.(*KV).Unmarshal")
		ruleNoReceiverReset(c, "C07-R5")
		ruleEntryDecodedIntoZero(c, "C07-R5")
		c.Rule("C07-R6", "OUTPUT-FRESH: encoder results do not alias package-level storage")
		ruleEncoderOutputFresh(c, "C07-R6")
		c.Rule("C07-R7", "WRITE-FITS: every encoder scratch buffer is at least as long as the most the encoder can write into it, for all field lengths")
		ruleWriteFits(c, "C07-R7")
	})

	register("C08", propMeta{
		Explanation: staticNote + "Decides the parser discipline that keeps hostile blobs from crashing or hanging the process: (R1) every slice bounded by a wire-derived length is dominated, on its path, by 'length >= 0' and 'length <= remaining bytes'; fixed-size reads by a remaining-bytes check; skipTag returns only constants, decoded varint lengths, or a 64-bit length bounded by len(data) before its conversion to int, each checked against len(data); (R2) every cycle of the cursor loops advances the cursor by at least one decoded varint and reads at the cursor; (R3) no explicit panic is on a feasible path reachable from the decode entry points; (R4) an undecodable blob is marked corrupt (token released, remembered as processed), copied into the ignore list that gates the listing, and the older decodable snapshot is still delivered; (R5) every decode error surfaces to the caller; (R6) pre-allocations depend only on the blob's length; the decoder's field-length limit keeps its arithmetic from overflowing. Further: the wait set drops instances whose snapshots all became undecodable; metric vectors get as many label values as they declare (R7). Every successful poll replaces the per-instance map and hasSnapshots.",
		NotDecided:  "Time/memory proportionality in general (gzip ratio); internals of csproto and gzip; a blob whose framing decodes but whose entries are malformed fails later inside the merge (policy stated in the code).",
		Assumptions: []string{"csproto.DecodeVarint: on success 1 <= n <= len(p)"},
	}, func(c *Check) {
		c.Rule("C08-R1", "LENGTH-GUARDED")
		c.Rule("C08-R2", "CURSOR-PROGRESS")
		c.Rule("C08-R3", "NO-REACHABLE-PANIC")
		c.Rule("C08-R4", "CORRUPT-IGNORED")
		c.Rule("C08-R5", "DECODE-ERRORS-SURFACE")
		c.Rule("C08-R6", "RESOURCE bounds visible in the code shape")
		ruleLengthGuarded(c, "C08-R1", false)
		ruleReadAtCursor(c, "C08-R2", "C08-R2")
		ruleNoPanic(c, "C08-R3")
		ruleDownloaderLoad(c, "C08-R4", "C08-R4", "C08-R4")
		ruleMarkCorrupt(c, "C08-R4")
		ruleReceiverListing(c, "C08-R4", "C08-R4")
		ruleListingNotReordered(c, "C08-R4", fnRecvRun, fnCleanerRun)
		ruleCollectionExhausted(c, "C08-R4", fnRecvRun, `\(simpleblob\.BlobList\)\.Names@[\w~]+`, "the names of the listing", nil)
		ruleCollectionExhausted(c, "C08-R4", fnRecvRun, `makemap@[\w~]+`, "the newest snapshot of every instance", nil)
		ruleRetryAndNotify(c, "C08-R4")
		ruleCleanDisappeared(c, "C08-R4")
		ruleListingIncludesOwn(c, "C08-R4")
		c.Rule("C08-R7", "LABEL-ARITY: metric vectors get as many label values as they declare (a mismatch panics on the failure path)")
		ruleMetricLabelArity(c, "C08-R7")
		ruleErrFlow(c, "C08-R5", "snapshot.LoadData", "snapshot.(*Snapshot).Unmarshal", "snapshot.NewDBIFromData", "snapshot.(*Meta).Unmarshal", "snapshot.(*DBI).indexData", "snapshot.(*DBI).Next", "snapshot.(*KV).Unmarshal", "snapshot.skipTag")
		ruleDecodeResources(c, "C08-R6")
	})
}
