package main

func init() {
	register("C02", propMeta{
		Explanation: "Decides, from the SSA form of (*NativeIterator).Merge with addHeader and the flag helpers inlined, the complete decision table of the merge routine (every path with its conditions over timestamps, values, flags, format version, cutoff, and its outcome: keep the parameter, drop, or assemble header+value), then checks the algebraic laws of the property on that table for representatives of every cell of the finite ordering domain (timestamps incl. 0, values incl. empty, deleted flag, format versions, raw flag bits, every constant the table compares against). The code is never executed: only the extracted conditions and outcome terms are interpreted. Adequacy (the routine touches the quantities only through evaluable comparisons) is checked; any unrecognised use makes the check fail as undecided.",
		NotDecided:  "Behaviour of LMDB writes themselves; values whose stored header does not parse (error path); deleted entries that carry a non-empty value (excluded by the schema); commutativity across a non-zero stale-deletion cutoff (documented retention assumption, the drop rule is checked separately in C04).",
		Assumptions: []string{"header.Parse returns the fields PutBasic wrote (checked structurally in C14)", "strategy.Update applies nil as delete and an identical slice as no-op (checked in C10/C19)", "deleted entries carry an empty value (schema)"},
	}, runC02)
}

func runC02(c *Check) {
	c.Rule("C02-R1", "TABLE-TOTAL: every (stored, incoming, config) cell selects exactly one path of Merge∘addHeader with outcome keep/take/drop; every condition on the paths is evaluable from the declared roles (abstraction adequacy)")
	c.Rule("C02-R2", "ALGEBRA: on the extracted table, merging is idempotent, commutative from every stored state, order-independent for all permutations of triples, selective and never lowers the stored timestamp (logical content: timestamp, deleted, value)")
	c.Rule("C02-R3", "KEEP-IDENTITY: a non-winning merge returns the stored slice parameter itself; setNewVal performs no Put/Del when the new value equals the old one")
	c.Rule("C02-R5", "FLAGS-MASKED: flags written are within the synced set for all raw incoming flag bits; the header carries the iterator's transaction id")
	c.Rule("C02-R6", "LWW-ORDER: lower incoming timestamp keeps, higher takes exactly the incoming content")
	t := BuildMergeTable(c, "syncer.(*NativeIterator).Merge")
	if t == nil {
		return
	}
	u := buildUniverse(t, c.Tier == "thorough")
	if !ruleTableTotal(c, "C02-R1", t, u, remoteCfgs) {
		return
	}
	ruleAlgebra(c, "C02-R2", t, u, remoteCfgs, true)
	c.Rule("C02-R7", "CUTOFFS: with every stale-deletion cutoff the table stays total, idempotent, selective and monotone (a present key is never dropped or moved backwards); a marker is dropped exactly when the key is absent, the entry is deleted and older than the cutoff")
	cut := []MCfg{{Cutoff: 1}, {Cutoff: 2}, {Cutoff: 3, Pad: true, CapBuf: 64}}
	if ruleTableTotal(c, "C02-R7", t, u, cut) {
		ruleAlgebra(c, "C02-R7", t, u, cut, false)
		ruleStaleDrop(c, "C02-R7", t, u)
	}
	ruleKeepIdentity(c, "C02-R3", t)
	ruleSetNewVal(c, "C02-R3")
	ruleFlagsMasked(c, "C02-R5", t, u, remoteCfgs)
	ruleLWWOrder(c, "C02-R6", t, u, remoteCfgs)
	ruleAbsentAdd(c, "C02-R6", t, u, remoteCfgs)
	sampleTable(c, t, 40)
	c.Notes = append(c.Notes, "universe: timestamps "+fmtU(u.TS)+", values "+fmtS(u.Vals)+", format versions "+fmtU(u.FVs))
}
