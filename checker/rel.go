package main

import (
	"fmt"
	"math"
	"sort"
	"strconv"
	"strings"
)

// Rel is a subset of {<,=,>} for an ordered pair of origins.
type Rel uint8

const (
	LT  Rel = 1
	EQ  Rel = 2
	GT  Rel = 4
	LE      = LT | EQ
	GE      = GT | EQ
	NE      = LT | GT
	ANY     = LT | EQ | GT
)

func (r Rel) String() string {
	switch r {
	case 0:
		return "∅"
	case LT:
		return "<"
	case EQ:
		return "=="
	case GT:
		return ">"
	case LE:
		return "<="
	case GE:
		return ">="
	case NE:
		return "!="
	}
	return "any"
}

func (r Rel) Flip() Rel {
	var o Rel
	if r&LT != 0 {
		o |= GT
	}
	if r&GT != 0 {
		o |= LT
	}
	if r&EQ != 0 {
		o |= EQ
	}
	return o
}

// Atom is a recognised branch condition.
type Atom struct {
	Kind string // "cmp" or "bool"
	Dom  string // "int", "bytes" (bytes.Compare/Equal order), "str"
	A, B string // cmp: operands (canonical origins); bool: A only
	R    Rel    // cmp: relation A ? B that makes the atom true
}

func (a Atom) String() string {
	if a.Kind == "bool" {
		return a.A
	}
	if a.Dom == "bytes" {
		return fmt.Sprintf("bytes(%s) %s bytes(%s)", a.A, a.R, a.B)
	}
	return fmt.Sprintf("%s %s %s", a.A, a.R, a.B)
}

// Cond is an atom with the truth value taken on a path.
type Cond struct {
	Atom  Atom
	Truth bool
}

func (c Cond) String() string {
	if c.Atom.Kind == "bool" {
		if c.Truth {
			return c.Atom.A
		}
		return "!" + c.Atom.A
	}
	r := c.Atom.R
	if !c.Truth {
		r = ANY &^ r
	}
	if c.Atom.Dom == "bytes" {
		return fmt.Sprintf("bytes(%s) %s bytes(%s)", c.Atom.A, r, c.Atom.B)
	}
	return fmt.Sprintf("%s %s %s", c.Atom.A, r, c.Atom.B)
}

type ival struct {
	lo, hi int64
	neq    []int64
}

// RelState is the finite relational abstract state of a path.
type RelState struct {
	pairs map[string]Rel
	bools map[string]bool
	ints  map[string]*ival
}

func NewRelState() *RelState {
	return &RelState{pairs: map[string]Rel{}, bools: map[string]bool{}, ints: map[string]*ival{}}
}

func (s *RelState) Clone() *RelState {
	n := NewRelState()
	for k, v := range s.pairs {
		n.pairs[k] = v
	}
	for k, v := range s.bools {
		n.bools[k] = v
	}
	for k, v := range s.ints {
		c := *v
		c.neq = append([]int64(nil), v.neq...)
		n.ints[k] = &c
	}
	return n
}

func constInt(s string) (int64, bool) {
	if !strings.HasPrefix(s, "const:") {
		return 0, false
	}
	t := strings.TrimPrefix(s, "const:")
	if v, err := strconv.ParseInt(t, 10, 64); err == nil {
		return v, true
	}
	if v, err := strconv.ParseUint(t, 10, 64); err == nil {
		if v > math.MaxInt64 {
			return math.MaxInt64, true
		}
		return int64(v), true
	}
	return 0, false
}

func pairKey(dom, a, b string) (string, bool) {
	if a <= b {
		return dom + "|" + a + "|" + b, false
	}
	return dom + "|" + b + "|" + a, true
}

func evalRel(a, b int64) Rel {
	switch {
	case a < b:
		return LT
	case a > b:
		return GT
	}
	return EQ
}

// Refine intersects the state with atom==truth. Returns false when the
// result is empty (infeasible path).
func (s *RelState) Refine(a Atom, truth bool) bool {
	if a.Kind == "bool" {
		if a.A == "const:true" {
			return truth
		}
		if a.A == "const:false" {
			return !truth
		}
		if v, ok := s.bools[a.A]; ok {
			return v == truth
		}
		s.bools[a.A] = truth
		return true
	}
	want := a.R
	if !truth {
		want = ANY &^ a.R
	}
	if want == 0 {
		return false
	}
	ca, aok := constInt(a.A)
	cb, bok := constInt(a.B)
	if a.Dom == "int" {
		switch {
		case aok && bok:
			return evalRel(ca, cb)&want != 0
		case bok:
			return s.refineInt(a.A, want, cb)
		case aok:
			return s.refineInt(a.B, want.Flip(), ca)
		}
	}
	if a.A == a.B {
		return want&EQ != 0
	}
	k, sw := pairKey(a.Dom, a.A, a.B)
	if sw {
		want = want.Flip()
	}
	cur, ok := s.pairs[k]
	if !ok {
		cur = ANY
	}
	cur &= want
	if cur == 0 {
		return false
	}
	s.pairs[k] = cur
	return true
}

func (s *RelState) refineInt(x string, r Rel, c int64) bool {
	iv := s.ints[x]
	if iv == nil {
		iv = &ival{lo: math.MinInt64, hi: math.MaxInt64}
		if strings.HasPrefix(x, "len(") || strings.HasPrefix(x, "cap(") {
			iv.lo = 0
		}
		if lo, hi, ok := maskRange(x); ok {
			iv.lo, iv.hi = lo, hi
		}
		s.ints[x] = iv
	}
	switch r {
	case LT:
		if c == math.MinInt64 {
			return false
		}
		iv.hi = min(iv.hi, c-1)
	case LE:
		iv.hi = min(iv.hi, c)
	case EQ:
		iv.lo = max(iv.lo, c)
		iv.hi = min(iv.hi, c)
	case GE:
		iv.lo = max(iv.lo, c)
	case GT:
		if c == math.MaxInt64 {
			return false
		}
		iv.lo = max(iv.lo, c+1)
	case NE:
		iv.neq = append(iv.neq, c)
	}
	for changed := true; changed; {
		changed = false
		for _, n := range iv.neq {
			if iv.lo == n && iv.lo < math.MaxInt64 {
				iv.lo++
				changed = true
			}
			if iv.hi == n && iv.hi > math.MinInt64 {
				iv.hi--
				changed = true
			}
		}
	}
	return iv.lo <= iv.hi
}

// RelOf returns the set of relations a ? b still possible in this state.
func (s *RelState) RelOf(dom, a, b string) Rel {
	ca, aok := constInt(a)
	cb, bok := constInt(b)
	if dom == "int" {
		switch {
		case aok && bok:
			return evalRel(ca, cb)
		case bok:
			return s.relConst(a, cb)
		case aok:
			return s.relConst(b, ca).Flip()
		}
	}
	if a == b {
		return EQ
	}
	k, sw := pairKey(dom, a, b)
	r, ok := s.pairs[k]
	if !ok {
		return ANY
	}
	if sw {
		return r.Flip()
	}
	return r
}

func (s *RelState) relConst(x string, c int64) Rel {
	iv := s.ints[x]
	lo, hi := int64(math.MinInt64), int64(math.MaxInt64)
	if strings.HasPrefix(x, "len(") || strings.HasPrefix(x, "cap(") {
		lo = 0
	}
	if l, h, ok := maskRange(x); ok {
		lo, hi = l, h
	}
	var neq []int64
	if iv != nil {
		lo, hi, neq = iv.lo, iv.hi, iv.neq
	}
	var r Rel
	if lo < c {
		r |= LT
	}
	if hi > c {
		r |= GT
	}
	if lo <= c && c <= hi {
		eq := true
		for _, n := range neq {
			if n == c {
				eq = false
			}
		}
		if eq {
			r |= EQ
		}
	}
	return r
}

// BoolOf returns (value, known).
func (s *RelState) BoolOf(a string) (bool, bool) {
	v, ok := s.bools[a]
	return v, ok
}

func (s *RelState) String() string {
	var parts []string
	for k, v := range s.pairs {
		f := strings.SplitN(k, "|", 3)
		if f[0] == "bytes" {
			parts = append(parts, fmt.Sprintf("bytes(%s) %s bytes(%s)", f[1], v, f[2]))
		} else {
			parts = append(parts, fmt.Sprintf("%s %s %s", f[1], v, f[2]))
		}
	}
	for k, v := range s.bools {
		if v {
			parts = append(parts, k)
		} else {
			parts = append(parts, "!"+k)
		}
	}
	for k, v := range s.ints {
		lo, hi := "-inf", "+inf"
		if v.lo != math.MinInt64 {
			lo = strconv.FormatInt(v.lo, 10)
		}
		if v.hi != math.MaxInt64 {
			hi = strconv.FormatInt(v.hi, 10)
		}
		p := fmt.Sprintf("%s in [%s,%s]", k, lo, hi)
		if len(v.neq) > 0 {
			p += fmt.Sprintf(" \\ %v", v.neq)
		}
		parts = append(parts, p)
	}
	sort.Strings(parts)
	return strings.Join(parts, " ∧ ")
}

// Forget drops every fact mentioning a term with the given prefix (memory that
// a callee may have modified).
func (s *RelState) Forget(prefix string) {
	for k := range s.pairs {
		if strings.Contains(k, prefix) {
			delete(s.pairs, k)
		}
	}
	for k := range s.bools {
		if strings.Contains(k, prefix) {
			delete(s.bools, k)
		}
	}
	for k := range s.ints {
		if strings.Contains(k, prefix) {
			delete(s.ints, k)
		}
	}
}

// maskRange: a term "(X & const:k)" with k >= 0 lies in [0, k].
func maskRange(x string) (int64, int64, bool) {
	if !strings.HasPrefix(x, "(") || !strings.HasSuffix(x, ")") {
		return 0, 0, false
	}
	i := strings.LastIndex(x, " & const:")
	if i < 0 {
		return 0, 0, false
	}
	k, err := strconv.ParseInt(x[i+len(" & const:"):len(x)-1], 10, 64)
	if err != nil || k < 0 {
		return 0, 0, false
	}
	// the left operand must be balanced (the & is the top-level operator)
	left := x[1:i]
	if strings.Count(left, "(") != strings.Count(left, ")") {
		return 0, 0, false
	}
	return 0, k, true
}

// ForgetExcept is Forget that keeps facts whose only mention of the prefix is
// inside terms known to read immutable memory.
func (s *RelState) ForgetExcept(prefix string, immut map[string]bool) {
	keep := func(k string) bool {
		if !strings.Contains(k, prefix) {
			return true
		}
		rest := k
		for t := range immut {
			if strings.Contains(t, prefix) {
				rest = strings.ReplaceAll(rest, t, "")
			}
		}
		return !strings.Contains(rest, prefix)
	}
	for k := range s.pairs {
		if !keep(k) {
			delete(s.pairs, k)
		}
	}
	for k := range s.bools {
		if !keep(k) {
			delete(s.bools, k)
		}
	}
	for k := range s.ints {
		if !keep(k) {
			delete(s.ints, k)
		}
	}
}
