package main

import (
	"encoding/json"
	"fmt"
	"os"
	"path/filepath"
	"sort"
	"strings"
	"time"
)

type Status string

const (
	Discharged Status = "discharged"
	Violated   Status = "violated"
	Known      Status = "known-finding"
	Undecided  Status = "undecided"
)

// Obligation is one rule instance on one construct.
type Obligation struct {
	Rule      string `json:"rule"`
	Construct string `json:"construct"`
	Status    Status `json:"status"`
	Detail    string `json:"detail,omitempty"`
	Pos       string `json:"pos,omitempty"`
	Witness   any    `json:"witness,omitempty"`
	trivial   bool
}

type KnownFinding struct {
	Property      string `json:"property"`
	Rule          string `json:"rule"`
	Construct     string `json:"construct"`
	What          string `json:"what"`
	Demonstration string `json:"demonstration,omitempty"`
	Status        string `json:"status"` // "known" or "fixed"
	Commit        string `json:"commit,omitempty"`
	ID            string `json:"id,omitempty"`
}

// Check accumulates the obligations of one property run.
type Check struct {
	Prop        string
	Tier        string
	P           *Program
	Obls        []Obligation
	Evaluations int
	Funcs       map[string]bool
	Samples     []any
	Tables      map[string]any
	Rules       map[string]string // rule id -> rule text
	Notes       []string
	Exhaustive  bool
	start       time.Time
	seen        map[string]bool
	Mutants     any
	capCount    map[string]int
	Suppressed  int
}

func NewCheck(prop, tier string, p *Program) *Check {
	return &Check{Prop: prop, Tier: tier, P: p, Funcs: map[string]bool{}, Tables: map[string]any{},
		Rules: map[string]string{}, start: time.Now(), seen: map[string]bool{}, Exhaustive: true}
}

func (c *Check) Rule(id, text string) { c.Rules[id] = text }

func (c *Check) add(o Obligation) {
	if o.Status == Violated || o.Status == Undecided {
		// cap repeated reports of the same rule on the same construct
		if c.capCount == nil {
			c.capCount = map[string]int{}
		}
		ck := o.Rule + "|" + o.Construct
		c.capCount[ck]++
		if c.capCount[ck] > 1 {
			// the same rule on the same construct: reported once (further paths/cells counted)
			c.Suppressed++
			return
		}
	}
	key := o.Rule + "|" + o.Construct
	if c.seen[key] {
		// keep key unique: append ordinal
		n := 2
		for c.seen[fmt.Sprintf("%s#%d", key, n)] {
			n++
		}
		o.Construct = fmt.Sprintf("%s#%d", o.Construct, n)
		key = o.Rule + "|" + o.Construct
	}
	c.seen[key] = true
	c.Obls = append(c.Obls, o)
}

func (c *Check) Ok(rule, construct, detail, pos string) {
	c.add(Obligation{Rule: rule, Construct: construct, Status: Discharged, Detail: detail, Pos: pos})
}

// OkTrivial records a discharged obligation that does not count as non-trivial
// (e.g. vacuous instance).
func (c *Check) OkTrivial(rule, construct, detail, pos string) {
	c.add(Obligation{Rule: rule, Construct: construct, Status: Discharged, Detail: detail, Pos: pos, trivial: true})
}

func (c *Check) Bad(rule, construct, detail, pos string, witness any) {
	c.add(Obligation{Rule: rule, Construct: construct, Status: Violated, Detail: detail, Pos: pos, Witness: witness})
}

func (c *Check) Undecided(rule, construct, detail, pos string) {
	c.add(Obligation{Rule: rule, Construct: construct, Status: Undecided, Detail: detail, Pos: pos})
}

// Expect records Ok when cond holds and Bad otherwise.
func (c *Check) Expect(cond bool, rule, construct, okDetail, badDetail, pos string) bool {
	if cond {
		c.Ok(rule, construct, okDetail, pos)
	} else {
		c.Bad(rule, construct, badDetail, pos, nil)
	}
	return cond
}

// Floor fails the rule as undecided when fewer instances than confirmed by
// hand were found (a rule matching zero sites passes vacuously forever).
func (c *Check) Floor(rule string, got, min int, what string) {
	if got < min {
		c.Undecided(rule, "floor:"+what, fmt.Sprintf("found %d instances of %s, expected at least %d (anchor lost or code restructured beyond what the rule understands)", got, what, min), "")
	} else {
		c.OkTrivial(rule, "floor:"+what, fmt.Sprintf("%d instances of %s (floor %d)", got, what, min), "")
	}
}

func (c *Check) UseFunc(names ...string) {
	for _, n := range names {
		c.Funcs[n] = true
	}
}

func (c *Check) Sample(s any) {
	if len(c.Samples) < 40 {
		c.Samples = append(c.Samples, s)
	}
}

func loadKnown(verifDir string) ([]KnownFinding, error) {
	b, err := os.ReadFile(filepath.Join(verifDir, "known_findings.json"))
	if err != nil {
		if os.IsNotExist(err) {
			return nil, nil
		}
		return nil, err
	}
	var f struct {
		Findings []KnownFinding `json:"findings"`
	}
	if err := json.Unmarshal(b, &f); err != nil {
		return nil, fmt.Errorf("known_findings.json: %w", err)
	}
	return f.Findings, nil
}

type propMeta struct {
	Explanation string
	Assumptions []string
	NotDecided  string
}

var trustedBase = []string{
	"Go type checker and go/ssa construction (golang.org/x/tools v0.50.0, built with go1.26.8)",
	"LMDB / lmdb-go semantics: a write transaction whose callback returns an error is aborted; readers see only committed transactions; an empty write transaction does not consume its id; Txn.ID()",
	"csproto.DecodeVarint contract: on success 1 <= n <= len(p); any 64-bit value possible",
	"simpleblob.List returns names in byte order; Store/Load/Delete semantics of the backend",
	"time.Format/Parse semantics, bytes.Compare/Equal, encoding/binary",
	"the rule tables in /verif/checker/rules_*.go (written from the property statements and project documentation)",
}

// Finish writes the evidence file, prints VIOLATION / KNOWN-FINDING lines and
// returns the process exit code.
func (c *Check) Finish(verifDir string, meta propMeta) int {
	known, kerr := loadKnown(verifDir)
	if kerr != nil {
		c.Undecided("framework", "known_findings.json", kerr.Error(), "")
	}
	usedKnown := map[int]bool{}
	nviol := 0
	var violations []Obligation
	var knownLines []string
	for i := range c.Obls {
		o := &c.Obls[i]
		if o.Status != Violated {
			continue
		}
		for k, kf := range known {
			if kf.Status == "known" && kf.Property == c.Prop && kf.Rule == o.Rule && kf.Construct == o.Construct {
				o.Status = Known
				usedKnown[k] = true
				knownLines = append(knownLines, fmt.Sprintf("KNOWN-FINDING: property=%s %s %s — %s", c.Prop, o.Rule, o.Construct, kf.What))
				break
			}
		}
	}
	disch, nontriv := 0, 0
	distinct := map[string]bool{}
	for _, o := range c.Obls {
		switch o.Status {
		case Discharged:
			disch++
			if !o.trivial {
				distinct[o.Rule+"|"+o.Construct] = true
			}
		case Known:
			distinct[o.Rule+"|"+o.Construct] = true
		case Violated, Undecided:
			nviol++
			violations = append(violations, o)
		}
	}
	nontriv = len(distinct)

	// samples: a dozen obligations written out + rule-provided samples
	samples := []any{}
	step := 1
	if len(c.Obls) > 12 {
		step = len(c.Obls) / 12
	}
	for i := 0; i < len(c.Obls) && len(samples) < 14; i += step {
		samples = append(samples, c.Obls[i])
	}
	samples = append(samples, c.Samples...)

	funcs := []string{}
	pkgs := map[string]bool{}
	for f := range c.Funcs {
		funcs = append(funcs, f)
		if i := strings.Index(f, "."); i > 0 {
			pkgs[f[:i]] = true
		}
	}
	sort.Strings(funcs)
	pkgl := []string{}
	for p := range pkgs {
		pkgl = append(pkgl, p)
	}
	sort.Strings(pkgl)

	seed := 0
	fmt.Sscanf(os.Getenv("VERIF_SEED"), "%d", &seed)
	wall := time.Since(c.start).Seconds()
	ev := map[string]any{
		"property_id": c.Prop,
		"tier":        c.Tier,
		"seed":        seed,
		"level":       "other",
		"coverage": map[string]any{
			"explanation":         meta.Explanation,
			"not_decided":         meta.NotDecided,
			"obligations":         len(c.Obls),
			"discharged":          disch,
			"known_findings":      len(knownLines),
			"evaluations":         c.Evaluations + len(c.Obls),
			"distinct_nontrivial": nontriv,
			"rule":                "one obligation per (rule, construct): a rule instance on a function, call site, decision-table cell or constant relation found in /repo's current source; distinct = distinct (rule, construct) keys; non-trivial = not a floor/count bookkeeping obligation and not vacuous; evaluations additionally counts paths walked, table cells and algebra tuples looked up",
			"samples":             samples,
			"exhaustive":          c.Exhaustive,
			"checker_cmd":         fmt.Sprintf("./bin/lscheck -p %s -tier %s", c.Prop, c.Tier),
			"trusted_base":        trustedBase,
			"functions":           funcs,
			"packages":            pkgl,
			"rules":               c.Rules,
			"tables":              c.Tables,
			"all_obligations":     c.Obls,
			"notes":               c.Notes,
			"suppressed_repeats":  c.Suppressed,
			"mutant_selftest":     c.Mutants,
		},
		"assumptions": meta.Assumptions,
		"wall_s":      wall,
		"violations":  nviol,
	}
	evDir := filepath.Join(verifDir, "evidence")
	_ = os.MkdirAll(evDir, 0o755)
	b, _ := json.MarshalIndent(ev, "", " ")
	if err := os.WriteFile(filepath.Join(evDir, c.Prop+".json"), b, 0o644); err != nil {
		fmt.Fprintf(os.Stderr, "cannot write evidence: %v\n", err)
		return 2
	}
	for _, l := range knownLines {
		fmt.Println(l)
	}
	replay := filepath.Join(evDir, c.Prop+".violations.json")
	if nviol > 0 {
		vb, _ := json.MarshalIndent(map[string]any{"property": c.Prop, "tier": c.Tier, "violations": violations, "rules": c.Rules}, "", " ")
		_ = os.WriteFile(replay, vb, 0o644)
		for _, o := range violations {
			fmt.Printf("  %s %s [%s] %s: %s\n", strings.ToUpper(string(o.Status)), o.Rule, o.Pos, o.Construct, o.Detail)
		}
		fmt.Printf("VIOLATION property=%s replay=%s\n", c.Prop, replay)
		return 1
	}
	_ = os.Remove(replay)
	fmt.Printf("OK property=%s tier=%s obligations=%d discharged=%d known=%d nontrivial=%d funcs=%d wall=%.1fs\n",
		c.Prop, c.Tier, len(c.Obls), disch, len(knownLines), nontriv, len(funcs), wall)
	return 0
}
