package main

import (
	"fmt"
	"go/types"
	"strings"

	"golang.org/x/tools/go/ssa/ssautil"
)

func debugFuncs(p *Program, sub string) {
	for fn := range ssautil.AllFunctions(p.SSA) {
		if strings.Contains(fn.String(), sub) {
			fmt.Printf("%s | blocks=%d synthetic=%q origin=%v pkg=%v\n", fn.String(), len(fn.Blocks), fn.Synthetic, fn.Origin() != nil, fn.Pkg != nil)
		}
	}
	if tp := p.TypesPkg("utils/topics"); tp != nil {
		for _, n := range tp.Scope().Names() {
			if tn, ok := tp.Scope().Lookup(n).(*types.TypeName); ok {
				if named, ok := tn.Type().(*types.Named); ok {
					for i := 0; i < named.NumMethods(); i++ {
						f := p.SSA.FuncValue(named.Method(i))
						if f != nil {
							fmt.Printf("method %s blocks=%d tparams=%d\n", f.String(), len(f.Blocks), f.TypeParams().Len())
						} else {
							fmt.Println("method", named.Method(i).Name(), "nil")
						}
					}
				}
			}
		}
	}
	pk := p.byPkg[modPath+"/utils/topics"]
	if pk != nil {
		for name, m := range pk.Members {
			fmt.Println("member", name, fmt.Sprintf("%T", m))
		}
	}
}
