package main

func init() {
	register("T5", propMeta{Explanation: "tmp"}, func(c *Check) {
		ruleIterUpdateTable(c, "C19-R2")
		ruleIterBoth(c, "C19-R3", "C19-R4", "C19-R5")
		ruleCmpInt(c, "C19-R5")
		ruleUpdateLoop(c, "C19-R1")
		ruleEmptyPut(c, "C19-R7")
	})
	register("T4", propMeta{Explanation: "tmp"}, func(c *Check) {
		ruleLoadBody(c, "C01-R4", "C14-R5", "C18-R5", "C18-R6", "C18-R7")
		ruleVersionGates(c, "C18-R3")
		ruleValidateTransformTable(c, "C18-R5")
		ruleCutoffProvenance(c, "C04-R6")
		ruleCutoffOrder(c, "C04-R7")
	})
	register("T3", propMeta{Explanation: "tmp"}, func(c *Check) {
		ruleReadDBILoop(c, "C01-R3", false)
		ruleSendDump(c, "C01-R3", "C06-R4", "C01-R5")
		ruleSendNaming(c, "C06-R5")
		ruleReadDBIFlags(c, "C06-R6", "C20-R5")
	})
	register("T2", propMeta{Explanation: "tmp"}, func(c *Check) {
		ruleCaptureBeforeProject(c, "C03-R1")
		ruleWatermarkAtomic(c, "C03-R2")
		ruleNativeWrites(c, "C03-R4")
		ruleStoreOrFail(c, "C05-R4", "C05-R5", "C12-R7")
		ruleOneTxn(c, "C06-R1", fnSendOnce, fnSendTxn, []string{fnReadDBI, fnMainToSh, "lmdbenv.ReadDBINames"})
		ruleOneTxn(c, "C18-R1", fnLoadOnce, fnLoadTxn, []string{fnMainToSh, fnShToMain, fnStratUpd, "lmdbenv.DBIExists", "(*lmdb.Txn).OpenDBI"})
		ruleErrFlow(c, "C18-R2", fnLoadTxn, fnMainToSh, fnShToMain, fnStratUpd, fnIterUpd, fnIterUpd+"$1", fnEmptyPut, "lmdbenv/strategy.doPut", "lmdbenv/strategy.setNewVal", "lmdbenv/strategy.iterBoth", "syncer.(*NativeIterator).Next", fnReadDBI)
	})
}
