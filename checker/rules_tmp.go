package main

func init() {
	register("T1", propMeta{Explanation: "tmp"}, func(c *Check) {
		ruleOwnFirst(c, "C05-R1")
		ruleWaitSet(c, "C05-R2")
		ruleFatal(c, "C05-R6")
		ruleTrigger(c, "C09-R1", "C10-R3")
		ruleWatermarkWriters(c, "C09-R2")
		ruleConsumedClosed(c, "C16-R3")
		ruleRunOnceExit(c, "C16-R5")
		ruleStartupCapture(c, "C03-R5")
	})
}
