package main

import (
	"fmt"
	"go/token"
	"go/types"
	"os"
	"sort"
	"strings"

	"golang.org/x/tools/go/callgraph"
	"golang.org/x/tools/go/ssa"
)

// C17-R8 SHARED-FIELDS (static lockset with thread roots and start-up
// ordering). For every field of every struct type the repository declares:
//
//   - writes in constructor context (the object was allocated in the same
//     function) do not count: the object is not shared yet;
//   - a field never written otherwise is immutable after publication;
//   - every other access gets the set of goroutine roots its function is
//     reachable from (VTA call graph, `go` edges start a new root); an access
//     made on the main goroutine at a call site that dominates, and cannot be
//     reached from, the `go` statement starting root G is ordered before G;
//   - two accesses of one field from unordered roots, one of them a write,
//     need a common lock: the intersection of the lock classes held at all
//     such accesses (with the locks held at every call site for helpers) must
//     not be empty.
//
// The rule decides the absence of unsynchronised sharing of struct fields; it
// does not cover package-level variables (snapshot/storage is decided by R5)
// or memory reached through slices/maps handed between goroutines.

type sfKey struct{ typ, field string }

type sfAccess struct {
	fn    *ssa.Function
	in    ssa.Instruction
	write bool
	fresh bool
}

type sfLabel struct {
	root string
	pre  string // sorted, comma-joined roots that start after this access
}

// roots that may run several instances over the same objects; own is the
// struct type each instance has for itself.
var sfMultiRoots = map[string]string{
	"http": "",
	"syncer/receiver.(*Receiver).getDownloader$go": "Downloader",
}

var sfSelfSync = []string{"sync.Mutex", "sync.RWMutex", "sync.Once", "sync.WaitGroup", "sync/atomic.", "sync.Map", "sync.Cond"}

// sfComponentPkg: packages whose struct types are long-lived components
// (services with goroutines, registries, trackers). The message types of
// package snapshot (Snapshot, DBI, Meta, Update, NameInfo) are built by one
// goroutine and handed to the next through the receiver's map under its lock:
// ownership transfer, not shared state; they are outside this rule.
func sfComponentPkg(p string) bool {
	switch p {
	case "syncer", "syncer/receiver", "syncer/cleaner", "syncer/sweeper", "syncer/events", "syncer/hooks",
		"utils/topics", "utils/climit", "utils", "snapshot/storage", "status", "status/healthtracker", "status/starttracker",
		"lmdbenv/stats", "lmdbenv/limitscanner":
		return true
	}
	return false
}

func sfInScope(fn *ssa.Function) bool {
	pp := fnPkgPath(fn)
	if !strings.HasPrefix(pp, modPath) {
		return false
	}
	sp := shortPkg(pp)
	if strings.HasPrefix(sp, "cmd/") || strings.Contains(sp, "gogosnapshot") || strings.HasPrefix(sp, "docs") {
		return false
	}
	if strings.Contains(QualName(fn), "_test") {
		return false
	}
	if fn.Pos().IsValid() {
		if f := fn.Prog.Fset.File(fn.Pos()); f != nil && strings.HasSuffix(f.Name(), "_test.go") {
			return false
		}
	}
	return true
}

func sfNamedStruct(t types.Type) (*types.Named, bool) {
	if pt, ok := t.Underlying().(*types.Pointer); ok {
		t = pt.Elem()
	}
	n, ok := t.(*types.Named)
	if !ok {
		return nil, false
	}
	if _, ok := n.Underlying().(*types.Struct); !ok {
		return nil, false
	}
	if n.Obj().Pkg() == nil || !strings.HasPrefix(n.Obj().Pkg().Path(), modPath) {
		return nil, false
	}
	if o := n.Origin(); o != nil {
		n = o
	}
	return n, true
}

func sfFresh(v ssa.Value, depth int) bool {
	if depth > 4 {
		return false
	}
	switch x := v.(type) {
	case *ssa.Alloc:
		if _, ok := x.Type().Underlying().(*types.Pointer).Elem().Underlying().(*types.Pointer); ok {
			// a local holding a pointer: fresh when everything stored is fresh
			rs := x.Referrers()
			if rs == nil {
				return false
			}
			n := 0
			for _, r := range *rs {
				if st, ok := r.(*ssa.Store); ok && st.Addr == ssa.Value(x) {
					n++
					if !sfFresh(st.Val, depth+1) {
						return false
					}
				}
			}
			return n > 0
		}
		return true
	case *ssa.UnOp:
		if x.Op == token.MUL {
			if a, ok := x.X.(*ssa.Alloc); ok {
				return sfFresh(a, depth+1)
			}
		}
	case *ssa.FieldAddr:
		return sfFresh(x.X, depth+1)
	}
	return false
}

// sfIsWrite: is the field (address) written through?
func sfIsWrite(v ssa.Value, depth int) bool {
	rs := v.Referrers()
	if rs == nil || depth > 3 {
		return false
	}
	for _, r := range *rs {
		switch x := r.(type) {
		case *ssa.Store:
			if x.Addr == v {
				return true
			}
		case *ssa.MapUpdate:
			if x.Map == v {
				return true
			}
		case *ssa.UnOp:
			// load of the field: a map or slice written through the loaded value
			if x.Op == token.MUL && x.X == v {
				switch x.Type().Underlying().(type) {
				case *types.Map, *types.Slice:
					if sfIsWrite(x, depth+1) {
						return true
					}
				}
			}
		case *ssa.IndexAddr:
			if x.X == v && sfIsWrite(x, depth+1) {
				return true
			}
		case *ssa.Call:
			if b, ok := x.Common().Value.(*ssa.Builtin); ok && (b.Name() == "delete" || b.Name() == "clear") && len(x.Common().Args) > 0 && x.Common().Args[0] == v {
				return true
			}
			if callee := x.Common().StaticCallee(); callee != nil {
				cn := calleeName(callee)
				if (cn == "maps.Copy" || cn == "maps.DeleteFunc") && len(x.Common().Args) > 0 && x.Common().Args[0] == v {
					return true
				}
			}
		}
	}
	return false
}

func sfSelfSynchronised(t types.Type) bool {
	if pt, ok := t.Underlying().(*types.Pointer); ok {
		t = pt.Elem()
	}
	s := types.TypeString(t, nil)
	for _, p := range sfSelfSync {
		if strings.HasPrefix(s, p) {
			return true
		}
	}
	return false
}

func ruleSharedFields(c *Check, rule string) {
	P := c.P
	// ---- phase 1: accesses
	acc := map[sfKey][]sfAccess{}
	ftype := map[sfKey]types.Type{}
	nGlobals := map[sfKey]bool{}
	var funcs []*ssa.Function
	for _, fn := range P.RepoFuncs() {
		if !sfInScope(fn) || fn.Blocks == nil {
			continue
		}
		funcs = append(funcs, fn)
		for _, b := range fn.Blocks {
			for _, in := range b.Instrs {
				// package-level variables: every instruction using the global's
				// address directly (load, store, map update through the load)
				for _, op := range in.Operands(nil) {
					gv, ok := (*op).(*ssa.Global)
					if !ok || gv.Pkg == nil || !strings.HasPrefix(gv.Pkg.Pkg.Path(), modPath) {
						continue
					}
					et := gv.Type().Underlying().(*types.Pointer).Elem()
					if sfSelfSynchronised(et) {
						continue
					}
					if _, isFA := in.(*ssa.FieldAddr); isFA {
						if _, isStruct := sfNamedStruct(et); isStruct {
							continue // handled as a field of its struct type below
						}
					}
					k := sfKey{"var " + shortPkg(gv.Pkg.Pkg.Path()), gv.Name()}
					a := sfAccess{fn: fn, in: in, fresh: fn.Name() == "init" || strings.HasPrefix(fn.Name(), "init#")}
					switch x := in.(type) {
					case *ssa.Store:
						a.write = x.Addr == ssa.Value(gv)
					case *ssa.UnOp:
						switch x.Type().Underlying().(type) {
						case *types.Map, *types.Slice:
							a.write = sfIsWrite(x, 1)
						}
					default:
						if v, ok := in.(ssa.Value); ok {
							a.write = sfIsWrite(v, 1)
						}
					}
					nGlobals[k] = true
					acc[k] = append(acc[k], a)
				}
				var base ssa.Value
				var idx int
				var val ssa.Value
				switch x := in.(type) {
				case *ssa.FieldAddr:
					base, idx, val = x.X, x.Field, x
				case *ssa.Field:
					base, idx, val = x.X, x.Field, nil
				default:
					continue
				}
				n, ok := sfNamedStruct(base.Type())
				if !ok || !sfComponentPkg(shortPkg(n.Obj().Pkg().Path())) {
					continue
				}
				fv := fieldVar(base.Type(), idx)
				if fv == nil || sfSelfSynchronised(fv.Type()) {
					continue
				}
				k := sfKey{shortPkg(n.Obj().Pkg().Path()) + "." + n.Obj().Name(), fv.Name()}
				ftype[k] = fv.Type()
				a := sfAccess{fn: fn, in: in, fresh: sfFresh(base, 0)}
				if val != nil {
					a.write = sfIsWrite(val, 0)
				}
				acc[k] = append(acc[k], a)
			}
		}
	}
	// ---- goroutine roots and labels
	g := P.vtaGraph()
	rootOf := map[*ssa.Function]string{}
	goSites := map[*ssa.Function][]*ssa.Go{} // parent -> go statements
	for _, fn := range funcs {
		for _, b := range fn.Blocks {
			for _, in := range b.Instrs {
				gi, ok := in.(*ssa.Go)
				if !ok {
					continue
				}
				goSites[fn] = append(goSites[fn], gi)
				for _, t := range sfGoTargets(g, fn, gi) {
					if sfInScope(t) {
						rootOf[t] = QualName(t)
					}
				}
			}
		}
	}
	if f := P.Func("syncer.(*Syncer).Sync"); f != nil {
		rootOf[f] = "main"
	}
	for _, fn := range funcs {
		if fn.Signature.Recv() == nil {
			continue
		}
		switch fn.Name() {
		case "ServeHTTP", "Collect", "Describe":
			rootOf[fn] = "http"
		}
	}
	for _, name := range []string{"status.(*StatusPage).BlobListPage", "status.BlobListPage"} {
		if f := P.Func(name); f != nil {
			rootOf[f] = "http"
		}
	}
	labels := map[*ssa.Function]map[sfLabel]bool{}
	type item struct {
		fn *ssa.Function
		l  sfLabel
	}
	var work []item
	for f, r := range rootOf {
		work = append(work, item{f, sfLabel{root: r}})
	}
	sort.Slice(work, func(i, j int) bool { return QualName(work[i].fn) < QualName(work[j].fn) })
	for len(work) > 0 {
		it := work[len(work)-1]
		work = work[:len(work)-1]
		if labels[it.fn] == nil {
			labels[it.fn] = map[sfLabel]bool{}
		}
		if labels[it.fn][it.l] {
			continue
		}
		labels[it.fn][it.l] = true
		node := g.Nodes[it.fn]
		if node == nil {
			continue
		}
		for _, e := range node.Out {
			if e.Site == nil {
				continue
			}
			if _, isGo := e.Site.(*ssa.Go); isGo {
				continue
			}
			cal := e.Callee.Func
			if cal == nil || !sfInScope(cal) || cal.Blocks == nil {
				continue
			}
			l := it.l
			if pre := sfStartedLater(g, it.fn, e.Site, goSites[it.fn]); len(pre) > 0 {
				set := map[string]bool{}
				for _, p := range strings.Split(l.pre, ",") {
					if p != "" {
						set[p] = true
					}
				}
				for _, p := range pre {
					set[p] = true
				}
				var ks []string
				for p := range set {
					ks = append(ks, p)
				}
				sort.Strings(ks)
				l.pre = strings.Join(ks, ",")
			}
			work = append(work, item{cal, l})
		}
		// closures defined here run where they are called: reached through the
		// call graph (VTA resolves function values); nothing to add
	}
	// ---- conflicts
	ordered := func(a, b sfLabel, typ string) bool {
		if a.root == b.root {
			own, multi := sfMultiRoots[a.root]
			if !multi {
				return true
			}
			return own != "" && strings.HasSuffix(typ, "."+own)
		}
		for _, p := range strings.Split(a.pre, ",") {
			if p == b.root {
				return true
			}
		}
		for _, p := range strings.Split(b.pre, ",") {
			if p == a.root {
				return true
			}
		}
		return false
	}
	type conflict struct {
		k    sfKey
		accs []sfAccess
		why  string
	}
	var conflicts []conflict
	nFields, nImmutable, nConfined := 0, 0, 0
	var keys []sfKey
	for k := range acc {
		keys = append(keys, k)
	}
	sort.Slice(keys, func(i, j int) bool {
		if keys[i].typ != keys[j].typ {
			return keys[i].typ < keys[j].typ
		}
		return keys[i].field < keys[j].field
	})
	for _, k := range keys {
		nFields++
		var live []sfAccess
		mutable := false
		for _, a := range acc[k] {
			if a.fresh {
				continue
			}
			if len(labels[a.fn]) == 0 {
				continue // not reachable from any goroutine root of the daemon
			}
			live = append(live, a)
			if a.write {
				mutable = true
			}
		}
		if !mutable {
			nImmutable++
			continue
		}
		if os.Getenv("LSCHECK_DEBUG") != "" {
			for _, a := range live {
				var ls []string
				for l := range labels[a.fn] {
					ls = append(ls, l.root+"<"+l.pre)
				}
				sort.Strings(ls)
				fmt.Fprintf(os.Stderr, "SF %s.%s write=%v %s %v\n", k.typ, k.field, a.write, QualName(a.fn), ls)
			}
		}
		why := ""
		for i := 0; i < len(live) && why == ""; i++ {
			for j := i; j < len(live) && why == ""; j++ {
				if !live[i].write && !live[j].write {
					continue
				}
				for la := range labels[live[i].fn] {
					for lb := range labels[live[j].fn] {
						if !ordered(la, lb, k.typ) {
							why = fmt.Sprintf("%s (goroutine %s) and %s (goroutine %s)", QualName(live[i].fn), la.root, QualName(live[j].fn), lb.root)
						}
					}
				}
			}
		}
		if why == "" {
			nConfined++
			continue
		}
		conflicts = append(conflicts, conflict{k, live, why})
	}
	// ---- phase 2: locksets (forward must-analysis of held lock classes per
	// function, entry sets = intersection over all call sites, to a fixpoint)
	entry := map[*ssa.Function]map[string]bool{} // nil = not yet constrained (⊤)
	heldAt := map[ssa.Instruction]map[string]bool{}
	for f := range rootOf {
		entry[f] = map[string]bool{}
	}
	inter := func(a, b map[string]bool) map[string]bool {
		if a == nil {
			o := map[string]bool{}
			for k := range b {
				o[k] = true
			}
			return o
		}
		o := map[string]bool{}
		for k := range a {
			if b[k] {
				o[k] = true
			}
		}
		return o
	}
	same := func(a, b map[string]bool) bool {
		if (a == nil) != (b == nil) || len(a) != len(b) {
			return false
		}
		for k := range a {
			if !b[k] {
				return false
			}
		}
		return true
	}
	lockOp := func(in ssa.Instruction) (class string, acquire, isLock bool) {
		call, ok := in.(*ssa.Call)
		if !ok {
			return "", false, false
		}
		callee := call.Common().StaticCallee()
		if callee == nil || len(call.Common().Args) == 0 {
			return "", false, false
		}
		switch calleeName(callee) {
		case "(*sync.Mutex).Lock", "(*sync.RWMutex).Lock", "(*sync.RWMutex).RLock":
			return lockClass(call.Common().Args[0]), true, true
		case "(*sync.Mutex).Unlock", "(*sync.RWMutex).Unlock", "(*sync.RWMutex).RUnlock":
			return lockClass(call.Common().Args[0]), false, true
		}
		return "", false, false
	}
	analyse := func(fn *ssa.Function) {
		if entry[fn] == nil {
			return
		}
		in := make([]map[string]bool, len(fn.Blocks))
		out := make([]map[string]bool, len(fn.Blocks))
		in[0] = inter(nil, entry[fn])
		work := []*ssa.BasicBlock{fn.Blocks[0]}
		for len(work) > 0 {
			b := work[0]
			work = work[1:]
			cur := inter(nil, in[b.Index])
			for _, ins := range b.Instrs {
				heldAt[ins] = inter(nil, cur)
				if cl, acq, ok := lockOp(ins); ok {
					if acq {
						cur[cl] = true
					} else {
						delete(cur, cl)
					}
				}
			}
			if same(out[b.Index], cur) {
				continue
			}
			out[b.Index] = cur
			for _, s := range b.Succs {
				n := inter(in[s.Index], cur)
				if !same(in[s.Index], n) || in[s.Index] == nil {
					in[s.Index] = n
					work = append(work, s)
				}
			}
		}
	}
	for round := 0; round < 12; round++ {
		changed := false
		for _, fn := range funcs {
			analyse(fn)
		}
		for _, fn := range funcs {
			if entry[fn] == nil {
				continue
			}
			node := g.Nodes[fn]
			if node == nil {
				continue
			}
			for _, e := range node.Out {
				cal := e.Callee.Func
				if e.Site == nil || cal == nil || !sfInScope(cal) || cal.Blocks == nil {
					continue
				}
				if _, isRoot := rootOf[cal]; isRoot {
					continue
				}
				var at map[string]bool
				if _, isGo := e.Site.(*ssa.Go); isGo {
					at = map[string]bool{}
				} else if _, isDefer := e.Site.(*ssa.Defer); isDefer {
					at = map[string]bool{}
				} else {
					h, known := heldAt[e.Site]
					if !known {
						continue // the caller has not been analysed yet (its own entry set is still unconstrained)
					}
					at = h
				}
				n := inter(entry[cal], at)
				if !same(entry[cal], n) {
					entry[cal] = n
					changed = true
				}
			}
		}
		if !changed {
			break
		}
	}
	for _, fn := range funcs {
		analyse(fn)
	}
	held := heldAt
	callHeld := map[*ssa.Function]map[string]bool{}
	bad := 0
	nLocked := 0
	var lockedNames []string
	for _, cf := range conflicts {
		var common map[string]bool
		var lacking []sfAccess
		for _, a := range cf.accs {
			hs := map[string]bool{}
			for k := range held[a.in] {
				hs[k] = true
			}
			if len(hs) == 0 {
				for k := range callHeld[a.fn] {
					hs[k] = true
				}
			}
			if len(hs) == 0 {
				lacking = append(lacking, a)
			}
			if common == nil {
				common = hs
			} else {
				for k := range common {
					if !hs[k] {
						delete(common, k)
					}
				}
			}
		}
		if len(common) > 0 {
			nLocked++
			var cs []string
			for k := range common {
				cs = append(cs, k)
			}
			sort.Strings(cs)
			lockedNames = append(lockedNames, fmt.Sprintf("%s.%s[%s]", cf.k.typ, cf.k.field, strings.Join(cs, ",")))
			continue
		}
		bad++
		at := ""
		var where []string
		show := lacking
		if len(show) == 0 {
			show = cf.accs
		}
		for _, a := range show {
			if at == "" {
				at = P.InstrPos(a.in)
			}
			rw := "read"
			if a.write {
				rw = "write"
			}
			where = append(where, fmt.Sprintf("%s in %s @ %s", rw, QualName(a.fn), P.InstrPos(a.in)))
		}
		sort.Strings(where)
		if len(where) > 6 {
			where = append(where[:6], "…")
		}
		c.Bad(rule, fmt.Sprintf("%s.%s/shared-unlocked", cf.k.typ, cf.k.field), fmt.Sprintf("%s.%s is written after construction and accessed from goroutines that are not ordered by start-up (%s) without a common lock held at every access: data race", cf.k.typ, cf.k.field, cf.why), at, where)
	}
	sort.Strings(lockedNames)
	if bad == 0 {
		c.Ok(rule, "shared-fields", fmt.Sprintf("%d fields of component struct types and package-level variables (%d) examined in %d functions (%d goroutine roots): %d are never written after construction, %d are written but confined to one goroutine (or ordered by start-up), %d are shared between goroutines and every access holds a common lock: %s", nFields, len(nGlobals), len(funcs), len(rootOf), nImmutable, nConfined, nLocked, strings.Join(lockedNames, " ")), "")
	}
	c.Floor(rule, nFields, 100, "struct fields examined")
	c.Floor(rule, nLocked, 8, "shared fields with a common lock")
	c.Floor(rule, len(rootOf), 6, "goroutine roots")
}

// sfGoTargets: functions a go statement may start.
func sfGoTargets(g *callgraph.Graph, parent *ssa.Function, gi *ssa.Go) []*ssa.Function {
	var out []*ssa.Function
	if n := g.Nodes[parent]; n != nil {
		for _, e := range n.Out {
			if e.Site == ssa.CallInstruction(gi) && e.Callee.Func != nil {
				out = append(out, e.Callee.Func)
			}
		}
	}
	if len(out) == 0 {
		if f := gi.Common().StaticCallee(); f != nil {
			out = append(out, f)
		}
		if mc, ok := gi.Common().Value.(*ssa.MakeClosure); ok {
			if f, ok := mc.Fn.(*ssa.Function); ok {
				out = append(out, f)
			}
		}
	}
	return out
}

// sfStartedLater: the roots started by go statements of fn that the call site
// dominates and cannot be reached from (the call completes before they start).
func sfStartedLater(g *callgraph.Graph, fn *ssa.Function, site ssa.CallInstruction, gos []*ssa.Go) []string {
	var out []string
	sb := site.Block()
	for _, gi := range gos {
		gb := gi.Block()
		before := false
		if sb == gb {
			for _, in := range sb.Instrs {
				if in == ssa.Instruction(site) {
					before = true
					break
				}
				if in == ssa.Instruction(gi) {
					break
				}
			}
			if before && blockReaches(gb, sb, true) {
				before = false // in a loop: a later iteration follows the start
			}
		} else if !blockReaches(gb, sb, false) {
			// the call can never run once the goroutine has been started (it may
			// sit in a loop that precedes the go statement)
			before = true
		}
		if !before {
			continue
		}
		for _, t := range sfGoTargets(g, fn, gi) {
			out = append(out, QualName(t))
		}
	}
	return out
}

// blockReaches: is there a CFG path from a to b (strict: through at least one edge)?
func blockReaches(a, b *ssa.BasicBlock, strict bool) bool {
	seen := map[*ssa.BasicBlock]bool{}
	stack := append([]*ssa.BasicBlock{}, a.Succs...)
	if !strict && a == b {
		return true
	}
	for len(stack) > 0 {
		x := stack[len(stack)-1]
		stack = stack[:len(stack)-1]
		if seen[x] {
			continue
		}
		seen[x] = true
		if x == b {
			return true
		}
		stack = append(stack, x.Succs...)
	}
	return false
}

// C17-R9 PUBLISHED-FROZEN: a map built locally and then published — stored into
// a field of a component object or handed to Topic.Publish — is shared from that
// point on. Mutating it afterwards through the local name (delete, m[k] = v)
// without the lock that guarded the publication is an unsynchronised write to
// shared memory, invisible to the field-based lockset (R8).
// maybeRecycledMap: the value is, depending on the path, a map made here or
// something else (a map loaded from a field: one that was in use before).
func maybeRecycledMap(v string) bool {
	if !strings.HasPrefix(v, "phi{") || !strings.Contains(v, "makemap") {
		return false
	}
	for _, alt := range strings.Split(strings.TrimSuffix(strings.TrimPrefix(v, "phi{"), "}"), " | ") {
		if !strings.HasPrefix(alt, "makemap") && alt != "nil" {
			return true
		}
	}
	return false
}

// loadedField: the value is read from a field of a parameter (param:r.x…).
func loadedField(v string) bool {
	return strings.HasPrefix(v, "param:") && strings.Contains(v, ".") && !strings.ContainsAny(v, "(@[")
}

func rulePublishedFrozen(c *Check, rule string) {
	nPub, nMut, bad := 0, 0, 0
	var pubs []string
	for _, fn := range c.P.RepoFuncs() {
		if !sfInScope(fn) || fn.Blocks == nil || fn.Parent() != nil || !sfComponentPkg(shortPkg(fnPkgPath(fn))) {
			continue
		}
		if unknownHelper(fn, 0) && hasRepoCaller(c.P, fn) {
			continue // walked as part of its callers
		}
		// pre-filter: the function (or a new helper it calls) makes a map
		makes := false
		var scan func(f *ssa.Function, d int)
		scan = func(f *ssa.Function, d int) {
			for _, b := range f.Blocks {
				for _, in := range b.Instrs {
					if _, ok := in.(*ssa.MakeMap); ok {
						makes = true
					}
					if ci, ok := in.(ssa.CallInstruction); ok && d < 3 {
						if cal := ci.Common().StaticCallee(); cal != nil && cal.Blocks != nil && unknownHelper(cal, d+1) {
							scan(cal, d+1)
						}
					}
				}
			}
		}
		scan(fn, 0)
		if !makes {
			continue
		}
		name := QualName(fn)
		w := Walk(c.P, fn, WalkConfig{Memo: true, MaxPaths: 30000,
			KeepEvent: func(e *Event) bool {
				switch e.Kind {
				case "store":
					return strings.HasPrefix(e.Val, "makemap") || maybeRecycledMap(e.Val) || loadedField(e.Val)
				case "mapupdate":
					return strings.HasPrefix(e.Addr, "makemap") || maybeRecycledMap(e.Addr) || loadedField(e.Addr)
				case "call":
					return strings.Contains(e.Callee, ").Publish") || e.Callee == "builtin:delete" || e.Callee == "builtin:clear"
				case "lock", "rlock", "unlock", "runlock", "ret":
					return true
				}
				return false
			},
			KeepAtom: func(a Atom) bool { return false }})
		if w.Err != nil {
			c.Undecided(rule, name, "path walk failed: "+w.Err.Error(), c.P.Pos(fn.Pos()))
			continue
		}
		c.UseFunc(name)
		seenPub := map[string]bool{}
		seenBad := map[string]bool{}
		for i := range w.Paths {
			p := &w.Paths[i]
			published := map[string][]string{} // map value -> locks held when it was published
			refilled := map[string]bool{}      // maps loaded from a field and modified on this path
			for j := range p.Events {
				e := &p.Events[j]
				switch {
				case e.Kind == "store" && strings.HasPrefix(e.Val, "makemap") && !strings.HasPrefix(e.Addr, "&alloc:") && !strings.HasPrefix(e.Addr, "free:") && strings.Contains(e.Addr, "."):
					published[e.Val] = append([]string{}, e.Held...)
					if !seenPub[e.Addr] {
						seenPub[e.Addr] = true
						nPub++
						pubs = append(pubs, strings.TrimPrefix(e.Addr, "&"))
					}
				case (e.Kind == "mapupdate" && loadedField(e.Addr)) || (e.Kind == "call" && (e.Callee == "builtin:clear" || e.Callee == "builtin:delete") && len(e.Args) > 0 && loadedField(e.Args[0])):
					if e.Kind == "mapupdate" {
						refilled[e.Addr] = true
					} else {
						refilled[e.Args[0]] = true
					}
				case e.Kind == "store" && refilled[e.Val] && e.Addr != "&"+e.Val && !strings.HasPrefix(e.Addr, "&alloc:") && !strings.HasPrefix(e.Addr, "free:") && strings.Contains(e.Addr, "."):
					key := c.P.InstrPos(e.Instr)
					if !seenBad[key] {
						seenBad[key] = true
						bad++
						c.Bad(rule, name+"/published-map-fresh", "the map installed in "+strings.TrimPrefix(e.Addr, "&")+" is "+e.Val+", a map that was in use before and is refilled here (not a map made in this call): goroutines that obtained it while it was installed or published earlier may still be reading it", key, describe(c, p))
					}
				case e.Kind == "store" && maybeRecycledMap(e.Val) && !strings.HasPrefix(e.Addr, "&alloc:") && !strings.HasPrefix(e.Addr, "free:") && strings.Contains(e.Addr, "."):
					key := c.P.InstrPos(e.Instr)
					if !seenBad[key] {
						seenBad[key] = true
						bad++
						c.Bad(rule, name+"/published-map-fresh", "the map installed in a shared object ("+strings.TrimPrefix(e.Addr, "&")+") is "+e.Val+": not on every path a map made in this call, but possibly one that was shared or published earlier and is refilled here, while goroutines that received it then may still be reading it", key, describe(c, p))
					}
				case e.Kind == "call" && strings.Contains(e.Callee, ").Publish"):
					for _, a := range e.Args {
						if maybeRecycledMap(a) || refilled[a] {
							key := c.P.InstrPos(e.Instr)
							if !seenBad[key] {
								seenBad[key] = true
								bad++
								c.Bad(rule, name+"/published-map-fresh", "the map handed to subscribers is "+a+": not on every path a map made in this call, but possibly one that was published earlier and is refilled here, while a subscriber that received it then may still be reading it", key, describe(c, p))
							}
						}
					}
					for _, a := range e.Args {
						if strings.HasPrefix(a, "makemap") {
							published[a] = append([]string{}, e.Held...)
							if !seenPub["publish:"+name] {
								seenPub["publish:"+name] = true
								nPub++
								pubs = append(pubs, "Publish in "+name)
							}
						}
					}
				case e.Kind == "mapupdate" || e.Kind == "call" && (e.Callee == "builtin:delete" || e.Callee == "builtin:clear"):
					m := e.Addr
					if e.Kind == "call" && len(e.Args) > 0 {
						m = e.Args[0]
					}
					locks, isPub := published[m]
					if !isPub {
						continue
					}
					nMut++
					common := false
					for _, l := range locks {
						for _, h := range e.Held {
							if l == h {
								common = true
							}
						}
					}
					key := c.P.InstrPos(e.Instr)
					if !common && !seenBad[key] {
						seenBad[key] = true
						bad++
						c.Bad(rule, name+"/mutation-after-publication", fmt.Sprintf("the map %s is modified after it was published (stored into a shared object or sent to subscribers) without the lock that guarded the publication (held then: %v, held now: %v): readers in other goroutines race with this write", m, locks, e.Held), key, describe(c, p))
					}
				}
			}
		}
	}
	sort.Strings(pubs)
	if bad == 0 {
		c.Ok(rule, "published-frozen", fmt.Sprintf("%d publications of locally built maps (%s): none is modified afterwards outside the publishing lock (%d modifications under it)", nPub, strings.Join(pubs, ", "), nMut), "")
	}
	c.Floor(rule, nPub, 2, "publications of locally built maps")
}
