package main

import (
	"go/token"
	"fmt"
	"os"
	"regexp"
	"strings"

	"golang.org/x/tools/go/ssa"
)

// Rules on syncer.(*Syncer).syncLoop (shared by C03, C05, C09, C10, C16, C17).

const fnSyncLoop = "syncer.(*Syncer).syncLoop"

// loopHeaders returns the loop headers of fn whose body contains an
// instruction satisfying pred, ordered from outermost (largest body) to innermost.
func loopHeaders(w *Walker, fn *ssa.Function, pred func(ssa.Instruction) bool) []*ssa.BasicBlock {
	li := w.loopsOf(fn)
	type hb struct {
		h *ssa.BasicBlock
		n int
	}
	var hs []hb
	for h, body := range li.headers {
		found := false
		for b := range body {
			for _, in := range b.Instrs {
				if pred(in) {
					found = true
				}
			}
		}
		if found {
			hs = append(hs, hb{h, len(body)})
		}
	}
	for i := range hs {
		for j := i + 1; j < len(hs); j++ {
			if hs[j].n > hs[i].n {
				hs[i], hs[j] = hs[j], hs[i]
			}
		}
	}
	var out []*ssa.BasicBlock
	for _, x := range hs {
		out = append(out, x.h)
	}
	return out
}

func isCallTo(in ssa.Instruction, name string) bool {
	c, ok := in.(ssa.CallInstruction)
	if !ok {
		return false
	}
	cc := c.Common()
	if cc.IsInvoke() {
		return strings.HasSuffix(name, "."+cc.Method.Name()) && strings.HasPrefix(name, "iface:")
	}
	if f := cc.StaticCallee(); f != nil {
		return QualName(f) == name
	}
	return false
}

type syncLoopCtx struct {
	fn       *ssa.Function
	mainHdr  *ssa.BasicBlock // outer for loop
	innerHdr *ssa.BasicBlock // loadReadySnapshotsLoop
}

func findSyncLoop(c *Check, rule string) *syncLoopCtx {
	fn := c.P.Func(fnSyncLoop)
	if fn == nil || fn.Blocks == nil {
		c.Undecided(rule, fnSyncLoop, "anchor function not found", "")
		return nil
	}
	c.UseFunc(fnSyncLoop)
	w := &Walker{P: c.P, loops: map[*ssa.Function]*loopInfo{}}
	next := loopHeaders(w, fn, func(in ssa.Instruction) bool { return isCallTo(in, "syncer/receiver.(*Receiver).Next") })
	if len(next) < 2 {
		c.Undecided(rule, fnSyncLoop, fmt.Sprintf("expected the main loop and the load loop around Receiver.Next (found %d loops)", len(next)), c.P.Pos(fn.Pos()))
		return nil
	}
	return &syncLoopCtx{fn: fn, mainHdr: next[0], innerHdr: next[len(next)-1]}
}

func keepRe(re string) (func(Atom) bool, func(*Event) bool) {
	r := regexp.MustCompile(re)
	return func(a Atom) bool { return r.MatchString(a.String()) },
		func(e *Event) bool {
			switch e.Kind {
			case "call", "go":
				return r.MatchString(e.Callee)
			case "ret":
				return true
			case "store", "mapupdate":
				return r.MatchString(e.Addr)
			}
			return false
		}
}

func (c *Check) walkRegion(rule string, fn *ssa.Function, entry *ssa.BasicBlock, keep string, stop func(*ssa.BasicBlock) bool) []Path {
	ka, ke := keepRe(keep)
	w := Walk(c.P, fn, WalkConfig{Entry: entry, KeepAtom: ka, KeepEvent: ke, Memo: true, StopBlock: stop, MaxPaths: 60000, Inline: smallHelper})
	if w.Err != nil {
		c.Undecided(rule, QualName(fn), "path walk failed: "+w.Err.Error(), c.P.Pos(fn.Pos()))
		return nil
	}
	c.Evaluations += len(w.Paths)
	return w.Paths
}

// isOwnID: the canonical origin of s.instanceID() (s being the receiver, however it is held).
var reOwnID = regexp.MustCompile(`^syncer\.\(\*Syncer\)\.instanceID\((&\{)?(param|local|\*free):[A-Za-z_][A-Za-z_0-9]*\}?\)$`)

func isOwnID(v string) bool { return reOwnID.MatchString(v) }

// C05-R1 OWN-FIRST: no upload while the own instance is still waited for.
func ruleOwnFirst(c *Check, rule string) {
	sl := findSyncLoop(c, rule)
	if sl == nil {
		return
	}
	keep := `SendOnce|InstanceSet\)\.(Contains|Add|Remove)|HasSnapshots|LastTxnID > const:0`
	// main loop
	paths := c.walkRegion(rule, sl.fn, sl.mainHdr, keep, nil)
	sites := map[ssa.Instruction]bool{}
	nMain, bad := 0, 0
	for i := range paths {
		p := &paths[i]
		for _, e := range callsOf(p, "syncer.(*Syncer).SendOnce") {
			sites[e.Instr] = true
			nMain++
			idx := eventIndex(p, e)
			// last Contains(own) before the call must be false, with no Add in between
			okGuard := false
			for j := idx - 1; j >= 0; j-- {
				ev := &p.Events[j]
				if ev.Kind == "call" && ev.Callee == "syncer.(*InstanceSet).Add" {
					break
				}
				if ev.Kind == "cond" && ev.Cond.Atom.Kind == "bool" && strings.HasPrefix(ev.Cond.Atom.A, "syncer.(*InstanceSet).Contains@") {
					// find the call to check its argument
					for k := j - 1; k >= 0; k-- {
						ce := &p.Events[k]
						if ce.Kind == "call" && ce.Res == ev.Cond.Atom.A {
							if len(ce.Args) == 2 && isOwnID(ce.Args[1]) && !ev.Cond.Truth {
								okGuard = true
							}
							break
						}
					}
					break
				}
			}
			if !okGuard {
				bad++
				if bad <= 2 {
					c.Bad(rule, fnSyncLoop+"/main-loop-SendOnce", "a path of the main loop reaches SendOnce without having established that the own instance is no longer in the waiting set (Contains(ownInstanceID) == false)", evPos(c, e), describe(c, p))
				}
			}
		}
	}
	if bad == 0 && nMain > 0 {
		c.Ok(rule, fnSyncLoop+"/main-loop-SendOnce", fmt.Sprintf("all %d main-loop paths reaching SendOnce pass the false edge of waitingForInstances.Contains(ownInstanceID) with no Add in between", nMain), c.P.Pos(sl.fn.Pos()))
	}
	// prelude: from entry to the main loop header
	pre := c.walkRegion(rule, sl.fn, nil, keep, func(b *ssa.BasicBlock) bool { return b == sl.mainHdr })
	nPre, badPre := 0, 0
	for i := range pre {
		p := &pre[i]
		for _, e := range callsOf(p, "syncer.(*Syncer).SendOnce") {
			sites[e.Instr] = true
			nPre++
			idx := eventIndex(p, e)
			hs, found := condTruth(p, "(*Receiver).HasSnapshots@", idx)
			if !found || hs {
				badPre++
				c.Bad(rule, fnSyncLoop+"/startup-SendOnce", "the start-up snapshot is sent on a path that has not established that the bucket holds no snapshots at all (HasSnapshots() == false)", evPos(c, e), describe(c, p))
			}
		}
	}
	if badPre == 0 && nPre > 0 {
		c.Ok(rule, fnSyncLoop+"/startup-SendOnce", fmt.Sprintf("all %d start-up paths reaching SendOnce pass the false edge of HasSnapshots()", nPre), c.P.Pos(sl.fn.Pos()))
	}
	c.Floor(rule, len(sites), 2, "SendOnce call sites in syncLoop")
	// any other caller of SendOnce in the repository (besides syncLoop) is reported
	callers := staticCallers(c.P, "syncer.(*Syncer).SendOnce")
	for _, cl := range callers {
		if cl != fnSyncLoop {
			c.Bad(rule, "caller:"+cl, "SendOnce is called from "+cl+", outside the guarded sites of syncLoop", "", nil)
		}
	}
	if len(callers) > 0 {
		c.OkTrivial(rule, "callers-of-SendOnce", fmt.Sprintf("callers: %v", callers), "")
	}
}

// staticCallers lists repository functions with a static call to name.
// A caller that is a helper extracted after the rules were confirmed
// (unknownHelper) stands for the functions that call it: its body is walked as
// part of theirs.
func staticCallers(p *Program, name string) []string {
	set := map[string]bool{}
	sites := map[string][]ssa.Instruction{}
	for _, fn := range p.RepoFuncs() {
		for _, b := range fn.Blocks {
			for _, in := range b.Instrs {
				if isCallTo(in, name) {
					sites[QualName(fn)] = append(sites[QualName(fn)], in)
				}
			}
		}
	}
	for k := range attributeToOwners(p, sites) {
		set[k] = true
	}
	var out []string
	for k := range set {
		out = append(out, k)
	}
	sortStrings(out)
	return out
}

// C05-R2 WAIT-SET: the waiting set is filled from SeenInstances() after a
// successful RunOnce(ctx, true); Remove only for the instance being loaded.
func ruleWaitSet(c *Check, rule string) {
	sl := findSyncLoop(c, rule)
	if sl == nil {
		return
	}
	keep := `RunOnce|SeenInstances|InstanceSet|NewInstanceSet|Receiver\)\.Next|LoadOnce`
	pre := c.walkRegion(rule, sl.fn, nil, keep+`|isnil\(loop:`, func(b *ssa.BasicBlock) bool { return b == sl.mainHdr })
	// a loop variable that only ever holds the result of RunOnce (the listing
	// loop written as `for err := RunOnce(); err != nil; err = RunOnce()`)
	runOnceVar := func(name string) bool {
		found := false
		for _, b := range sl.fn.Blocks {
			for _, in := range b.Instrs {
				phi, ok := in.(*ssa.Phi)
				if !ok {
					break
				}
				if phi.Comment != name || !isLoopHeader(b) {
					continue
				}
				found = true
				for _, e := range phi.Edges {
					call, ok := e.(*ssa.Call)
					if !ok || !isCallTo(call, "syncer/receiver.(*Receiver).RunOnce") {
						return false
					}
				}
			}
		}
		return found
	}
	nAdd, nReach, bad := 0, 0, 0
	for i := range pre {
		p := &pre[i]
		ro := callsOf(p, "syncer/receiver.(*Receiver).RunOnce")
		for _, e := range ro {
			if len(e.Args) != 3 || e.Args[2] != "const:true" {
				bad++
				c.Bad(rule, fnSyncLoop+"/startup-listing-includes-own", "the start-up listing is not RunOnce(ctx, true): the own snapshots would not be delivered for merging", evPos(c, e), nil)
			}
		}
		adds := callsOf(p, "syncer.(*InstanceSet).Add")
		for _, a := range adds {
			nAdd++
			seen := callsOf(p, "syncer/receiver.(*Receiver).SeenInstances")
			set := callsOf(p, "syncer.NewInstanceSet")
			okk := len(seen) == 1 && len(set) == 1 && a.Args[0] == set[0].Res && strings.HasPrefix(a.Args[1], seen[0].Res+"[")
			if okk {
				// RunOnce success before SeenInstances
				ri := -1
				for _, e := range ro {
					ri = eventIndex(p, e)
				}
				tr, f := condTruth(p, "isnil(syncer/receiver.(*Receiver).RunOnce@", eventIndex(p, seen[0]))
				if !f {
					for j := 0; j < eventIndex(p, seen[0]); j++ {
						e := &p.Events[j]
						if e.Kind == "cond" && e.Cond.Atom.Kind == "bool" && strings.HasPrefix(e.Cond.Atom.A, "isnil(loop:") {
							v := strings.TrimPrefix(e.Cond.Atom.A, "isnil(loop:")
							if k := strings.Index(v, "@"); k > 0 && runOnceVar(v[:k]) {
								tr, f = e.Cond.Truth, true
							}
						}
					}
				}
				okk = ri >= 0 && f && tr
			}
			if !okk {
				bad++
				c.Bad(rule, fnSyncLoop+"/wait-set-filled", "an instance is added to the waiting set that is not an element of SeenInstances() taken after a successful initial RunOnce", evPos(c, a), describe(c, p))
			}
		}
		if strings.HasPrefix(p.End, "stop:") {
			nReach++
			if len(callsOf(p, "syncer/receiver.(*Receiver).SeenInstances")) == 0 {
				bad++
				c.Bad(rule, fnSyncLoop+"/wait-set-before-main-loop", "a path reaches the main loop without having read SeenInstances() into the waiting set", c.pathPos(p), describe(c, p))
			}
		}
	}
	// every iteration of the range loop over SeenInstances adds the element (no skipping)
	if bad == 0 {
		c.Ok(rule, fnSyncLoop+"/wait-set-filled", fmt.Sprintf("%d Add sites add elements of SeenInstances() read after the successful start-up RunOnce(ctx,true); all %d paths into the main loop have read it", nAdd, nReach), c.P.Pos(sl.fn.Pos()))
	}
	c.Floor(rule, nAdd, 1, "InstanceSet.Add in the start-up section")
	// Remove sites in the main loop: only for the instance returned by Next()
	paths := c.walkRegion(rule, sl.fn, sl.innerHdr, keep+`|\.Kind|InstanceReady`, nil)
	nRem, badRem := 0, 0
	for i := range paths {
		p := &paths[i]
		for _, r := range callsOf(p, "syncer.(*InstanceSet).Remove") {
			nRem++
			// without an InstanceReady hook an instance is only done with once
			// its snapshot (not some other kind of update) is being loaded
			hookNil, hf := condTruth(p, "isnil("+param(sl.fn, 0)+".hooks.InstanceReady)", eventIndex(p, r))
			if !hf {
				hookNil, hf = condTruth(p, ".hooks.InstanceReady)", eventIndex(p, r))
			}
			if hf && hookNil {
				isSnap := false
				for _, cd := range p.Conds() {
					a := cd.Atom
					if a.Kind == "cmp" && a.Dom == "str" && (strings.HasSuffix(a.A, ".NameInfo.Kind") || strings.HasSuffix(a.B, ".NameInfo.Kind")) {
						rel := a.R
						if !cd.Truth {
							rel = ANY &^ a.R
						}
						if rel == EQ && (a.A == "const:\"snapshot\"" || a.B == "const:\"snapshot\"") {
							isSnap = true
						}
					}
				}
				if !isSnap {
					badRem++
					c.Bad(rule, fnSyncLoop+"/remove-only-snapshot", "with no InstanceReady hook, an instance is removed from the waiting set for an update whose kind was not established to be a snapshot: a run-once sync can end before that instance's newest snapshot is merged", evPos(c, r), describe(c, p))
				}
			}
			nx := callsOf(p, "syncer/receiver.(*Receiver).Next")
			lo := callsOf(p, "syncer.(*Syncer).LoadOnce")
			ok := len(nx) == 1 && r.Args[1] == nx[0].Res+"#0"
			// the same instance is loaded afterwards on every continuing path
			if ok && len(lo) == 1 {
				ok = lo[0].Args[3] == nx[0].Res+"#0" && eventIndex(p, lo[0]) > eventIndex(p, r)
			} else if ok && len(lo) == 0 {
				ok = false
			}
			if !ok {
				badRem++
				c.Bad(rule, fnSyncLoop+"/remove-only-loaded", "an instance is removed from the waiting set without its update being passed to LoadOnce on the same path", evPos(c, r), describe(c, p))
			}
		}
	}
	if badRem == 0 {
		c.Ok(rule, fnSyncLoop+"/remove-only-loaded", fmt.Sprintf("%d Remove events: each removes the instance returned by Receiver.Next() whose update is passed to LoadOnce on the same path", nRem), c.P.Pos(sl.fn.Pos()))
	}
	c.Floor(rule, nRem, 1, "InstanceSet.Remove on load paths")
	// CleanDisappeared is the only other remover
	for _, cl := range staticCallers(c.P, "syncer.(*InstanceSet).Remove") {
		if cl != fnSyncLoop && cl != "syncer.(*InstanceSet).CleanDisappeared" {
			c.Bad(rule, "caller:"+cl, "InstanceSet.Remove is called from "+cl, "", nil)
		}
	}
}

// C05-R6 FATAL-NOT-SKIPPED: errors of SendOnce / LoadOnce leave syncLoop.
func ruleFatal(c *Check, rule string) {
	sl := findSyncLoop(c, rule)
	if sl == nil {
		return
	}
	keep := `SendOnce|LoadOnce`
	n, bad := 0, 0
	for _, entry := range []*ssa.BasicBlock{nil, sl.mainHdr, sl.innerHdr} {
		paths := c.walkRegion(rule, sl.fn, entry, keep, nil)
		for i := range paths {
			p := &paths[i]
			for _, e := range callsOf(p, "syncer.(*Syncer).SendOnce", "syncer.(*Syncer).LoadOnce") {
				errIdx := "#1"
				if e.Callee == "syncer.(*Syncer).LoadOnce" {
					errIdx = "#2"
				}
				tr, found := boolCond(p, "isnil("+e.Res+errIdx+")", -1)
				if !found {
					if p.End != "return" || p.Rets[0] != e.Res+errIdx {
						// path ended before the test (cannot happen without return)
						bad++
						c.Bad(rule, fnSyncLoop+"/error-tested:"+e.Callee, "the error result of "+e.Callee+" is not tested on this path", evPos(c, e), describe(c, p))
					}
					continue
				}
				n++
				if !tr && !(p.End == "return" && len(p.Rets) == 1 && p.Rets[0] == e.Res+errIdx) {
					bad++
					c.Bad(rule, fnSyncLoop+"/error-returned:"+e.Callee, "a failing "+e.Callee+" does not make syncLoop return that error", evPos(c, e), describe(c, p))
				}
			}
		}
	}
	if bad == 0 {
		c.Ok(rule, fnSyncLoop+"/errors-fatal", fmt.Sprintf("%d path/call pairs: a non-nil error from SendOnce or LoadOnce is returned from syncLoop, never skipped", n), c.P.Pos(sl.fn.Pos()))
	}
	c.Floor(rule, n, 4, "tested SendOnce/LoadOnce error results")
}

func sortStrings(xs []string) {
	for i := range xs {
		for j := i + 1; j < len(xs); j++ {
			if xs[j] < xs[i] {
				xs[i], xs[j] = xs[j], xs[i]
			}
		}
	}
}

var reLastSynced = regexp.MustCompile(`lastSyncedTxnID=([^ ]+( [^= ]+)*)`)

func backedgeVal(p *Path, name string) string {
	for _, r := range p.Rets {
		if strings.HasPrefix(r, name+"=") {
			return strings.TrimPrefix(r, name+"=")
		}
	}
	return ""
}

// C09-R1 TRIGGER and C10-R3 UPLOAD-ONLY-ON-CHANGE on the main loop.
func ruleTrigger(c *Check, ruleTrig, ruleOnly string) {
	sl := findSyncLoop(c, ruleTrig)
	if sl == nil {
		return
	}
	keep := `SendOnce|Env\)\.Info|LastTxnID|InstanceSet\)\.Contains|Since|ReceiveOnly|StorageForceSnapshotInterval|SnapshotOverdue`
	paths := c.walkRegion(ruleTrig, sl.fn, sl.mainHdr, keep, nil)
	if paths == nil {
		return
	}
	nTrig, nSend, badTrig, badOnly := 0, 0, 0, 0
	for i := range paths {
		p := &paths[i]
		infos := callsOf(p, "(*lmdb.Env).Info")
		if len(infos) != 1 {
			if len(infos) > 1 {
				c.Undecided(ruleTrig, fnSyncLoop+"/info", "more than one env.Info() per pass of the main loop", c.pathPos(p))
				return
			}
			continue
		}
		info := infos[0]
		if tr, f := boolCond(p, "isnil("+info.Res+"#1)", -1); !f || !tr {
			continue
		}
		last := "conv:uint64(" + info.Res + "#0.LastTxnID)"
		// the watermark compared against
		var wm string
		var gt Rel = ANY
		for _, cd := range p.Conds() {
			a := cd.Atom
			if a.Kind == "cmp" && a.Dom == "int" && (a.A == last || a.B == last) {
				o := a.B
				if a.B == last {
					o = a.A
				}
				if strings.HasPrefix(o, "const:") {
					continue
				}
				wm = o
				gt = p.State.RelOf("int", last, wm)
			}
		}
		sends := callsOf(p, "syncer.(*Syncer).SendOnce")
		if wm == "" {
			if len(sends) > 0 {
				c.Bad(ruleOnly, fnSyncLoop+"/send-without-compare", "SendOnce on a main-loop path that never compares LastTxnID with the watermark", evPos(c, sends[0]), describe(c, p))
				badOnly++
			}
			continue
		}
		// waiting for own?
		var waitingOwn, haveWait bool
		for _, ce := range callsOf(p, "syncer.(*InstanceSet).Contains") {
			if len(ce.Args) == 2 && isOwnID(ce.Args[1]) {
				if tr, f := boolCond(p, ce.Res, -1); f {
					waitingOwn, haveWait = tr, true
				}
			}
		}
		hasData, hdFound := condTruth(p, "#0.LastTxnID > const:0", -1)
		_ = hdFound
		// elapsed > interval, whichever way the comparison is written
		overdueT, overdueF := false, false
		for _, cd := range p.Conds() {
			a := cd.Atom
			if a.Kind != "cmp" || !(strings.HasPrefix(a.A, "time.Since@") || strings.HasPrefix(a.B, "time.Since@")) {
				continue
			}
			overdueF = true
			x, y := a.A, a.B
			if strings.HasPrefix(a.B, "time.Since@") {
				x, y = a.B, a.A
			}
			// the relation this condition established when it was taken (the
			// final state may have forgotten it at a later call)
			r := a.R
			if !cd.Truth {
				r = ANY &^ a.R
			}
			if x != a.A {
				r = r.Flip()
			}
			overdueT = r == GT && strings.HasSuffix(y, "StorageForceSnapshotInterval")
		}
		enabledT, enabledF := condTruth(p, "ReceiveOnly", -1)
		overdue := overdueF && overdueT && enabledF && enabledT
		if len(sends) > 0 {
			nSend++
			if gt != GT && !overdue {
				if os.Getenv("LSCHECK_DEBUG") != "" {
					fmt.Fprintln(os.Stderr, "DBG overdue", overdueF, overdueT, enabledF, enabledT, p.CondStrings())
				}
				badOnly++
				if badOnly <= 2 {
					c.Bad(ruleOnly, fnSyncLoop+"/upload-only-on-change", fmt.Sprintf("SendOnce is reached with LastTxnID %s watermark and no overdue forced snapshot: an upload without a local change", gt), evPos(c, sends[0]), describe(c, p))
				}
			}
			if overdue && gt != GT {
				// forced snapshot requires !ReceiveOnly ∧ interval > 0 ∧ elapsed > interval: established by the two conditions found
			}
			continue
		}
		// no SendOnce on this path: must be justified
		if gt == GT && haveWait && !waitingOwn {
			nTrig++
			// allowed only when the database was empty at start and is still empty
			zero := p.State.RelOf("int", last, "const:0")
			if hdFound && !hasData && zero == EQ || hdFound && !hasData && zero&GT == 0 {
				continue
			}
			badTrig++
			if badTrig <= 2 {
				c.Bad(ruleTrig, fnSyncLoop+"/trigger", "LastTxnID is above the watermark, the own instance is not waited for, the database is not empty, and yet this path of the main loop does not call SendOnce", c.pathPos(p), describe(c, p))
			}
		}
	}
	// Info() must be inside the loop (fresh every pass): guaranteed by having found it in the region walk
	if badTrig == 0 {
		c.Ok(ruleTrig, fnSyncLoop+"/trigger", fmt.Sprintf("%d main-loop paths call SendOnce; %d non-sending paths with LastTxnID above the watermark are all justified by an empty database; env.Info() is re-read inside every pass", nSend, nTrig), c.P.Pos(sl.fn.Pos()))
	}
	if badOnly == 0 {
		c.Ok(ruleOnly, fnSyncLoop+"/upload-only-on-change", fmt.Sprintf("all %d sending main-loop paths have LastTxnID strictly above the watermark or an overdue forced snapshot (!ReceiveOnly ∧ interval>0 ∧ elapsed>interval)", nSend), c.P.Pos(sl.fn.Pos()))
	}
	c.Floor(ruleTrig, nSend, 1, "sending paths in the main loop")
}

// C09-R2 / C10-R4 WATERMARK-WRITERS: who may move lastSyncedTxnID.
func ruleWatermarkWriters(c *Check, rule string) {
	sl := findSyncLoop(c, rule)
	if sl == nil {
		return
	}
	keep := `SendOnce|LoadOnce|Env\)\.Info|LastTxnID`
	pos := c.P.Pos(sl.fn.Pos())
	kinds := map[string]int{}
	bad := 0
	// the watermark: the loop variable handed to LoadOnce as lastTxnID
	wm := callArgVar(sl.fn, calleeIs(fnLoadOnce), 5)
	if wm == "" {
		c.Undecided(rule, fnSyncLoop+"/watermark", "cannot identify the loop variable passed to LoadOnce as lastTxnID", pos)
		return
	}
	check := func(p *Path, hdr *ssa.BasicBlock) {
		v := backedgeVal(p, wm)
		if v == "" {
			return
		}
		switch {
		case strings.HasPrefix(v, "loop:"+wm+"@"):
			kinds["unchanged"]++
		case strings.HasPrefix(v, "syncer.(*Syncer).SendOnce@") && strings.HasSuffix(v, "#0"):
			res := strings.TrimSuffix(v, "#0")
			tr, f := boolCond(p, "isnil("+res+"#1)", -1)
			if !f || !tr {
				bad++
				c.Bad(rule, fnSyncLoop+"/watermark:SendOnce", "the watermark takes SendOnce's transaction id on a path where SendOnce did not succeed", c.pathPos(p), describe(c, p))
			}
			kinds["SendOnce"]++
		case strings.HasPrefix(v, "syncer.(*Syncer).LoadOnce@") && strings.HasSuffix(v, "#0"):
			res := strings.TrimSuffix(v, "#0")
			tr, f := boolCond(p, "isnil("+res+"#2)", -1)
			lc, lf := boolCond(p, res+"#1", -1)
			if !f || !tr || !lf || lc {
				bad++
				c.Bad(rule, fnSyncLoop+"/watermark:LoadOnce", "the watermark is advanced to LoadOnce's transaction id although a local change was detected (or the load failed): the local change would not trigger an upload", c.pathPos(p), describe(c, p))
			}
			kinds["LoadOnce(!localChanged)"]++
		case strings.HasPrefix(v, "conv:uint64((*lmdb.Env).Info@") && strings.HasSuffix(v, "#0.LastTxnID)"):
			// only on the path that does not upload because the database is empty
			if len(callsOf(p, "syncer.(*Syncer).SendOnce")) != 0 {
				bad++
				c.Bad(rule, fnSyncLoop+"/watermark:Info", "watermark set from env.Info() on a sending path", c.pathPos(p), nil)
			}
			zero := p.State.RelOf("int", v, "const:0")
			if zero&GT != 0 {
				bad++
				c.Bad(rule, fnSyncLoop+"/watermark:Info", "the watermark is advanced to the current LastTxnID without an upload although the database is not empty", c.pathPos(p), describe(c, p))
			}
			kinds["Info(empty database)"]++
		default:
			bad++
			c.Bad(rule, fnSyncLoop+"/watermark:other", "the watermark receives a value from an unexpected origin: "+v, c.pathPos(p), describe(c, p))
		}
	}
	for _, hdr := range []*ssa.BasicBlock{sl.mainHdr, sl.innerHdr} {
		paths := c.walkRegion(rule, sl.fn, hdr, keep, nil)
		for i := range paths {
			if strings.HasPrefix(paths[i].End, "backedge:") {
				check(&paths[i], hdr)
			}
		}
	}
	// LoadOnce must receive the current watermark
	paths := c.walkRegion(rule, sl.fn, sl.innerHdr, keep, nil)
	nLO := 0
	for i := range paths {
		for _, e := range callsOf(&paths[i], "syncer.(*Syncer).LoadOnce") {
			nLO++
			if len(e.Args) != 6 || !strings.HasPrefix(e.Args[5], "loop:"+wm+"@") {
				bad++
				c.Bad(rule, fnSyncLoop+"/LoadOnce-gets-watermark", "LoadOnce is not passed the loop's current watermark as lastTxnID: "+fmtList(e.Args), evPos(c, e), nil)
			}
		}
	}
	if bad == 0 {
		c.Ok(rule, fnSyncLoop+"/watermark-writers", fmt.Sprintf("back-edge values of lastSyncedTxnID by origin: %v; SendOnce's id only after success, LoadOnce's id only when !localChanged, Info's only for an empty database; LoadOnce receives the current watermark (%d sites)", kinds, nLO), pos)
	}
	c.Floor(rule, kinds["SendOnce"], 1, "watermark <- SendOnce")
	c.Floor(rule, kinds["LoadOnce(!localChanged)"], 1, "watermark <- LoadOnce")
	// the initial value is 0 (forces a snapshot at start-up)
	pre := c.walkRegion(rule, sl.fn, nil, `SendOnce`, func(b *ssa.BasicBlock) bool { return b == sl.mainHdr })
	_ = pre
}

// C16-R3 CONSUMED-CLOSED and C16-R5 RUN-ONCE.
func ruleConsumedClosed(c *Check, rule string) {
	sl := findSyncLoop(c, rule)
	if sl == nil {
		return
	}
	keep := `Receiver\)\.Next|LoadOnce|Update\)\.Close`
	paths := c.walkRegion(rule, sl.fn, sl.innerHdr, keep, nil)
	n, bad := 0, 0
	for i := range paths {
		p := &paths[i]
		nx := callsOf(p, "syncer/receiver.(*Receiver).Next")
		if len(nx) != 1 {
			continue
		}
		empty, f := condTruth(p, nx[0].Res+"#0", -1)
		if f && empty {
			continue // instance == "": nothing delivered
		}
		n++
		cl := callsOf(p, "snapshot.(*Update).Close")
		lo := callsOf(p, "syncer.(*Syncer).LoadOnce")
		ok := len(cl) == 1 && cl[0].Args[0] == "&{"+nx[0].Res+"#1}"
		if ok && len(lo) == 1 {
			// closed right after the load, before the error test can leave the loop
			ok = eventIndex(p, cl[0]) > eventIndex(p, lo[0])
			if tr, f := boolCond(p, "isnil("+lo[0].Res+"#2)", -1); f {
				_ = tr
				for j := eventIndex(p, lo[0]) + 1; j < eventIndex(p, cl[0]); j++ {
					if p.Events[j].Kind == "cond" || p.Events[j].Kind == "ret" {
						ok = false
					}
				}
			}
		}
		if !ok {
			bad++
			if bad <= 2 {
				c.Bad(rule, fnSyncLoop+"/update-closed", "an update obtained from Receiver.Next() is not closed (token released) on this path before the loop can be left", c.pathPos(p), describe(c, p))
			}
		}
	}
	if bad == 0 {
		c.Ok(rule, fnSyncLoop+"/update-closed", fmt.Sprintf("all %d load-loop paths that obtained an update close it directly after LoadOnce, before the error test", n), c.P.Pos(sl.fn.Pos()))
	}
	c.Floor(rule, n, 2, "load-loop paths with a delivered update")
}

func ruleRunOnceExit(c *Check, rule string) {
	sl := findSyncLoop(c, rule)
	if sl == nil {
		return
	}
	keep := `OnlyOnce|InstanceSet\)\.Done|SleepContext`
	n, bad := 0, 0
	for _, entry := range []*ssa.BasicBlock{nil, sl.mainHdr, sl.innerHdr} {
		paths := c.walkRegion(rule, sl.fn, entry, keep, nil)
		for i := range paths {
			p := &paths[i]
			if p.End != "return" || len(p.Rets) != 1 || p.Rets[0] != "nil" {
				continue
			}
			n++
			oo, f1 := condTruth(p, "OnlyOnce", -1)
			// last Done() result
			done, f2 := false, false
			for _, e := range callsOf(p, "syncer.(*InstanceSet).Done") {
				if tr, f := boolCond(p, e.Res, -1); f {
					done, f2 = tr, true
				}
			}
			if !(f1 && oo && f2 && done) {
				bad++
				c.Bad(rule, fnSyncLoop+"/nil-return", "syncLoop returns nil on a path that has not established OnlyOnce ∧ waitingForInstances.Done()", c.pathPos(p), describe(c, p))
			}
		}
	}
	if bad == 0 {
		c.Ok(rule, fnSyncLoop+"/nil-return", fmt.Sprintf("%d nil-returning paths, all under OnlyOnce ∧ waitingForInstances.Done() (tested after the local upload)", n), c.P.Pos(sl.fn.Pos()))
	}
	c.Floor(rule, n, 1, "nil returns of syncLoop")
}

// C03-R5 STARTUP-CAPTURE: with data at start in shadow mode, mainToShadow in
// its own write transaction precedes the first LoadOnce.
func ruleStartupCapture(c *Check, rule string) {
	sl := findSyncLoop(c, rule)
	if sl == nil {
		return
	}
	keep := `Env\)\.Update|SchemaTracksChanges|LastTxnID > const:0|LoadOnce|SendOnce`
	pre := c.walkRegion(rule, sl.fn, nil, keep, func(b *ssa.BasicBlock) bool { return b == sl.mainHdr })
	n, bad := 0, 0
	for i := range pre {
		p := &pre[i]
		if !strings.HasPrefix(p.End, "stop:") {
			continue
		}
		hd, f1 := condTruth(p, "#0.LastTxnID > const:0", -1)
		st, f2 := condTruth(p, "SchemaTracksChanges", -1)
		need := f1 && hd && f2 && !st
		if !f1 || !hd {
			continue
		}
		n++
		upd := callsOf(p, "(*lmdb.Env).Update")
		has := false
		for _, u := range upd {
			// the transaction body: a closure of syncLoop, or of a helper the
			// start-up capture was moved into
			if len(u.Args) == 2 && strings.HasPrefix(u.Args[1], "closure:") {
				cl := c.P.Func(strings.TrimPrefix(u.Args[1], "closure:"))
				if cl != nil && funcCalls(cl, "syncer.(*Syncer).mainToShadow") {
					has = true
				}
			}
		}
		if need && !has {
			bad++
			c.Bad(rule, fnSyncLoop+"/startup-capture", "shadow mode with data at start: a path reaches the main loop without the start-up env.Update(mainToShadow)", c.pathPos(p), describe(c, p))
		}
		if f2 && st && has {
			bad++
			c.Bad(rule, fnSyncLoop+"/startup-capture-native", "native mode runs the shadow capture", c.pathPos(p), nil)
		}
	}
	if bad == 0 {
		c.Ok(rule, fnSyncLoop+"/startup-capture", fmt.Sprintf("%d start-up paths with data at start: env.Update(mainToShadow) is run exactly when the schema does not track changes, before the main loop", n), c.P.Pos(sl.fn.Pos()))
	}
	c.Floor(rule, n, 2, "start-up paths with data")
}

func funcCalls(fn *ssa.Function, name string) bool {
	for _, b := range fn.Blocks {
		for _, in := range b.Instrs {
			if isCallTo(in, name) {
				return true
			}
		}
	}
	return false
}

// C05-R3 LISTING-INCLUDES-OWN: in Receiver.RunOnce the listing result that
// feeds SeenInstances()/HasSnapshots() does not depend on includingOwn.
func ruleListingIncludesOwn(c *Check, rule string) {
	name := "syncer/receiver.(*Receiver).RunOnce"
	inclOwn := param(c.P.Func(name), 2)
	fn, paths := c.walkFn(rule, name, WalkConfig{Memo: true,
		KeepEvent: func(e *Event) bool {
			return e.Kind == "ret" || e.Kind == "store" && (strings.HasSuffix(e.Addr, ".lastSeenByInstance") || strings.HasSuffix(e.Addr, ".hasSnapshots")) ||
				e.Kind == "mapupdate" && strings.Contains(e.Addr, "makemap") || e.Kind == "call" && (strings.Contains(e.Callee, "Interface.List") || strings.Contains(e.Callee, "ParseName"))
		},
		KeepAtom: func(a Atom) bool {
			s := a.String()
			return strings.Contains(s, inclOwn) || strings.Contains(s, "ownInstance") || strings.Contains(s, "Interface.List@")
		}})
	if paths == nil {
		return
	}
	inc := param(fn, 2)
	n, bad := 0, 0
	for i := range paths {
		p := &paths[i]
		for j, e := range p.Events {
			if e.Kind == "store" && (strings.HasSuffix(e.Addr, ".lastSeenByInstance") || strings.HasSuffix(e.Addr, ".hasSnapshots")) ||
				e.Kind == "mapupdate" && strings.HasPrefix(e.Addr, "makemap") && strings.HasSuffix(e.Key, ".InstanceID") {
				n++
				for _, pe := range p.Events[:j] {
					if pe.Kind == "cond" && (strings.Contains(pe.Cond.Atom.String(), inc) || strings.Contains(pe.Cond.Atom.String(), ".ownInstance")) {
						bad++
						c.Bad(rule, name+"/listing-independent-of-own", "what RunOnce records as seen per instance ("+e.Addr+") depends on includingOwn / the own instance name: the own snapshots would be missing from SeenInstances() and the start-up guard would not wait for them", c.P.InstrPos(e.Instr), describe(c, p))
						break
					}
				}
			}
		}
	}
	if bad == 0 {
		c.Ok(rule, name+"/listing-independent-of-own", fmt.Sprintf("%d writes of lastSeenByInstance / hasSnapshots / the per-instance map happen before (independently of) any test of includingOwn or ownInstance", n), c.P.Pos(fn.Pos()))
	}
	c.Floor(rule, n, 3, "listing result writes in Receiver.RunOnce")
	// every listing is published: a successful RunOnce has replaced lastSeenByInstance
	// and hasSnapshots (no short-cut for "the listing looks like the previous one":
	// MarkCorrupt changes what must be reported without changing the listing)
	nOK, badp := 0, 0
	for i := range paths {
		p := &paths[i]
		if !retIsNilErr(p) {
			continue
		}
		nOK++
		seenMap, seenHas := false, false
		for _, e := range p.Events {
			if e.Kind == "store" && strings.HasSuffix(e.Addr, ".lastSeenByInstance") {
				seenMap = true
			}
			if e.Kind == "store" && strings.HasSuffix(e.Addr, ".hasSnapshots") {
				seenHas = true
			}
		}
		if !seenMap || !seenHas {
			badp++
			c.Bad(rule, name+"/listing-published", "RunOnce returns successfully without replacing lastSeenByInstance / hasSnapshots from this listing: a snapshot marked corrupt since the previous poll keeps being reported as its instance's newest, the older decodable one is never offered and the instance never leaves SeenInstances()", c.pathPos(p), describe(c, p))
		}
	}
	if badp == 0 {
		c.Ok(rule, name+"/listing-published", fmt.Sprintf("all %d successful ends of RunOnce have stored the freshly built per-instance map and hasSnapshots", nOK), c.P.Pos(fn.Pos()))
	}
	c.Floor(rule, nOK, 1, "successful ends of Receiver.RunOnce")
}

// ruleLoadErrReturned: LoadOnce returns the transaction's error (C18-R2b).
func ruleLoadErrReturned(c *Check, rule string) {
	fn, paths := c.walkFn(rule, fnLoadOnce, WalkConfig{Memo: true,
		KeepEvent: func(e *Event) bool {
			return e.Kind == "ret" || e.Kind == "call" && strings.Contains(e.Callee, "lmdb.Env") || e.Kind == "mapupdate"
		},
		KeepAtom: func(a Atom) bool { return strings.Contains(a.String(), "lmdb.Env") }})
	if paths == nil {
		return
	}
	n, bad := 0, 0
	for i := range paths {
		p := &paths[i]
		for _, u := range callsOf(p, "(*lmdb.Env).Update") {
			okk, f := boolCond(p, "isnil("+u.Res+")", -1)
			if f && !okk {
				n++
				if !(p.End == "return" && p.Rets[2] == u.Res) {
					bad++
					c.Bad(rule, fnLoadOnce+"/txn-error-returned", "a failed (aborted) merge transaction is not returned as LoadOnce's error", c.pathPos(p), describe(c, p))
				}
				for _, e := range p.Events {
					if e.Kind == "mapupdate" {
						bad++
						c.Bad(rule, fnLoadOnce+"/state-after-abort", "syncer state is updated although the merge transaction failed", c.P.InstrPos(e.Instr), nil)
					}
				}
			}
		}
	}
	if bad == 0 && n > 0 {
		c.Ok(rule, fnLoadOnce+"/txn-error-returned", "the error of the aborted merge transaction is returned unchanged and no syncer state is updated", c.P.Pos(fn.Pos()))
	}
	c.Floor(rule, n, 1, "failing-transaction paths of LoadOnce")
}

// ruleIntegerKeyFlag (C19-R5c, C11-R4): IterUpdate derives integerKey from the
// DBI's MDB_INTEGERKEY flag; shadow DBIs inherit that flag.
func ruleIntegerKeyFlag(c *Check, rule string) {
	fn, paths := c.walkFn(rule, fnIterUpd, WalkConfig{})
	if paths == nil {
		return
	}
	ik, _ := c.constValue("lmdbenv/strategy", "LMDBIntegerKeyFlag")
	dk, _ := c.constValue("lmdbenv/dbiflags", "IntegerKey")
	mask, _ := c.constValue("syncer", "AllowedShadowDBIFlagsMask")
	c.Expect(ik == "8" && dk == ik && mask == ik, rule, "MDB_INTEGERKEY-constants", "LMDBIntegerKeyFlag == dbiflags.IntegerKey == 0x08 (MDB_INTEGERKEY) and the shadow flag mask contains exactly it", fmt.Sprintf("LMDBIntegerKeyFlag=%s dbiflags.IntegerKey=%s AllowedShadowDBIFlagsMask=%s; MDB_INTEGERKEY is 0x08", ik, dk, mask), "")
	n, bad := 0, 0
	for i := range paths {
		p := &paths[i]
		for _, ib := range callsOf(p, "lmdbenv/strategy.iterBoth") {
			n++
			fl := callsOf(p, "(*lmdb.Txn).Flags")
			ok := len(fl) == 1 && fl[0].Args[1] == param(fn, 1)
			if ok {
				atom := "(" + fl[0].Res + "#0 & const:" + ik + ")"
				if ib.Args[2] == "("+atom+" > const:0)" || ib.Args[2] == "("+atom+" != const:0)" {
					// the flag test itself is passed on
				} else {
					r := p.State.RelOf("int", atom, "const:0")
					want := "const:false"
					if r == GT {
						want = "const:true"
					} else if r&GT != 0 {
						ok = false
					}
					ok = ok && ib.Args[2] == want
				}
			}
			if !ok {
				bad++
				c.Bad(rule, fnIterUpd+"/integer-key-from-flags", "iterBoth's integerKey argument ("+ib.Args[2]+") is not derived from txn.Flags(dbi) & MDB_INTEGERKEY of the DBI being updated", evPos(c, ib), describe(c, p))
			}
		}
	}
	if bad == 0 {
		c.Ok(rule, fnIterUpd+"/integer-key-from-flags", fmt.Sprintf("on all %d paths integerKey is true exactly when txn.Flags(dbi) has MDB_INTEGERKEY", n), c.P.Pos(fn.Pos()))
	}
	c.Floor(rule, n, 2, "iterBoth calls in IterUpdate")
}

// ruleCleanDisappeared (C16-R5b): instances whose snapshots vanished stop being waited for.
func ruleCleanDisappeared(c *Check, rule string) {
	sl := findSyncLoop(c, rule)
	if sl == nil {
		return
	}
	keep := `InstanceSet\)\.(Done|CleanDisappeared)|SeenInstances|OnlyOnce`
	paths := c.walkRegion(rule, sl.fn, sl.mainHdr, keep, nil)
	n, bad := 0, 0
	for i := range paths {
		p := &paths[i]
		// on every pass that is still waiting, CleanDisappeared(SeenInstances()) is applied
		dn := callsOf(p, "syncer.(*InstanceSet).Done")
		if len(dn) == 0 {
			continue
		}
		d0, f := boolCond(p, dn[0].Res, -1)
		if !f || d0 {
			continue
		}
		n++
		cd := callsOf(p, "syncer.(*InstanceSet).CleanDisappeared")
		si := callsOf(p, "syncer/receiver.(*Receiver).SeenInstances")
		if !(len(cd) == 1 && len(si) >= 1 && cd[0].Args[1] == si[len(si)-1].Res && cd[0].Args[0] == dn[0].Args[0]) {
			bad++
			c.Bad(rule, fnSyncLoop+"/clean-disappeared", "a pass that is still waiting for instances does not remove those that disappeared from the listing (run-once mode would never end when a waited-for snapshot is cleaned or corrupt)", c.pathPos(p), describe(c, p))
		}
	}
	if bad == 0 {
		c.Ok(rule, fnSyncLoop+"/clean-disappeared", fmt.Sprintf("%d waiting passes apply CleanDisappeared(r.SeenInstances()) to the waiting set", n), c.P.Pos(sl.fn.Pos()))
	}
	c.Floor(rule, n, 1, "waiting passes")
	// CleanDisappeared table: removes exactly the names not in 'seen' (no special case for an empty listing)
	name := "syncer.(*InstanceSet).CleanDisappeared"
	fn, cp := c.walkFn(rule, name, WalkConfig{})
	if cp == nil {
		return
	}
	okc := true
	nRem := 0
	for i := range cp {
		p := &cp[i]
		if p.End == "return" {
			// an early return before the scan loops would skip the cleaning
			scanned := false
			for _, cd := range p.Conds() {
				if strings.Contains(cd.Atom.String(), "range(") || strings.Contains(cd.Atom.String(), "rangeindex") {
					scanned = true
				}
			}
			if !scanned {
				okc = false
				c.Bad(rule, name+"/early-return", "CleanDisappeared returns without comparing the set with the listing on some input (e.g. an empty listing)", c.pathPos(p), describe(c, p))
			}
		}
		for _, r := range callsOf(p, "syncer.(*InstanceSet).Remove") {
			_ = r
			nRem++
		}
	}
	if okc && nRem > 0 {
		c.Ok(rule, name, "every call compares the whole waiting set with the listing and removes the missing names; there is no early exit", c.P.Pos(fn.Pos()))
	}
	// the listing handed in is in no particular order (the receiver collects it
	// from a map): it may only be consumed by order-independent operations
	if len(fn.Params) >= 2 {
		orderFree := map[string]bool{
			"slices.Contains": true, "slices.Index": true, "slices.ContainsFunc": true, "slices.IndexFunc": true,
			"github.com/samber/lo.Contains": true, "github.com/samber/lo.SliceToMap": true, "github.com/samber/lo.Keyify": true,
			"github.com/samber/lo.Associate": true, "github.com/samber/lo.Without": true, "github.com/samber/lo.Difference": true,
			"slices.Clone": false,
		}
		nUse, badUse := 0, 0
		var visit func(v ssa.Value, d int)
		visit = func(v ssa.Value, d int) {
			if v.Referrers() == nil || d > 4 {
				return
			}
			for _, r := range *v.Referrers() {
				switch x := r.(type) {
				case *ssa.Range, *ssa.Index, *ssa.IndexAddr, *ssa.DebugRef, *ssa.Lookup:
					nUse++
				case *ssa.Slice, *ssa.ChangeType, *ssa.Phi:
					visit(x.(ssa.Value), d+1)
				case *ssa.Store:
					if al, ok := x.Addr.(*ssa.Alloc); ok && x.Val == v {
						if al.Referrers() != nil {
							for _, ar := range *al.Referrers() {
								if ld, ok := ar.(*ssa.UnOp); ok && ld.Op == token.MUL {
									visit(ld, d+1)
								}
								if mc, ok := ar.(*ssa.MakeClosure); ok {
									if cf, ok := mc.Fn.(*ssa.Function); ok {
										for i, b := range mc.Bindings {
											if b == ssa.Value(al) && i < len(cf.FreeVars) && cf.FreeVars[i].Referrers() != nil {
												for _, fr := range *cf.FreeVars[i].Referrers() {
													if ld, ok := fr.(*ssa.UnOp); ok && ld.Op == token.MUL {
														visit(ld, d+1)
													}
												}
											}
										}
									}
								}
							}
						}
					}
				case *ssa.MakeClosure:
					if cf, ok := x.Fn.(*ssa.Function); ok {
						for i, b := range x.Bindings {
							if b == v && i < len(cf.FreeVars) {
								visit(cf.FreeVars[i], d+1)
							}
						}
					}
				case ssa.CallInstruction:
					cc := x.Common()
					nUse++
					if bi, ok := cc.Value.(*ssa.Builtin); ok && (bi.Name() == "len" || bi.Name() == "cap") {
						continue
					}
					callee := cc.StaticCallee()
					nm := ""
					if callee != nil {
						o := callee
						if og := callee.Origin(); og != nil {
							o = og
						}
						nm = o.String()
					}
					if callee != nil && unknownHelper(callee, 0) {
						for i, a := range cc.Args {
							if a == v && i < len(callee.Params) {
								visit(callee.Params[i], d+1)
							}
						}
						continue
					}
					if !orderFree[nm] {
						badUse++
						c.Bad(rule, name+"/listing-order-free", "the listing of seen instances (in no particular order: it is collected from a map) is handed to "+nm+", which is not known to be independent of the order of its elements: instances that are still present can be reported as disappeared and leave the waiting set before their snapshot was merged", c.P.InstrPos(x), nil)
					}
				}
			}
		}
		visit(fn.Params[1], 0)
		if badUse == 0 && nUse > 0 {
			c.Ok(rule, name+"/listing-order-free", fmt.Sprintf("the unordered listing is only ranged over, indexed, measured or handed to order-independent membership helpers (%d uses)", nUse), c.P.Pos(fn.Pos()))
		}
		c.Floor(rule, nUse, 1, "uses of the listing in CleanDisappeared")
	}
}

// anchorFuncs are functions the rules refer to by name: they stay calls.
var anchorFuncs = map[string]bool{
	fnSendOnce: true, fnLoadOnce: true, fnMainToSh: true, fnShToMain: true, fnReadDBI: true,
	"syncer.(*Syncer).instanceID": true, "syncer.(*Syncer).generationID": true, "syncer.(*Syncer).deletedCutoff": true,
	"syncer.(*InstanceSet).Contains": true, "syncer.(*InstanceSet).Add": true, "syncer.(*InstanceSet).Remove": true,
	"syncer.(*InstanceSet).Done": true, "syncer.(*InstanceSet).CleanDisappeared": true, "syncer.NewInstanceSet": true,
	"syncer.NewNativeIterator": true, "syncer.dupSortHackEncode": true, "syncer.dupSortHackDecode": true,
}

// smallHelper: a small loop-free function of the syncer package that no rule
// anchors on is transparent (so extracting a block into a helper changes nothing).
func smallHelper(f *ssa.Function, depth int) bool {
	if depth > 2 || f.Blocks == nil || len(f.Blocks) > 25 || anchorFuncs[QualName(f)] {
		return false
	}
	if shortPkg(fnPkgPath(f)) != "syncer" {
		return false
	}
	return true
}
