package main

func runThoroughExtras(c *Check, prop, repo, verifDir string) {}
