package main

import (
	"encoding/json"
	"fmt"
	"os"
	"os/exec"
	"path/filepath"
	"sort"
	"strings"
	"sync"
	"time"

	"golang.org/x/tools/go/callgraph"
	"golang.org/x/tools/go/callgraph/cha"
	"golang.org/x/tools/go/callgraph/vta"
	"golang.org/x/tools/go/ssa"
	"golang.org/x/tools/go/ssa/ssautil"
)

// Thorough tier: the same rules, plus
//   - larger universes for the table algebra (selected by c.Tier in the rules),
//   - VTA call-graph reachability (dynamic calls through interfaces and function
//     values) for the who-may-call / nested-transaction / offline-CLI rules,
//   - the mutant self-test: every seeded property-breaking change kept under
//     /verif/seeded/<property>-<n>/ is applied as a source overlay in a
//     sub-process and the property's quick check must report a violation. The
//     self-test never changes the verdict or the exit code; it reports
//     killed/applicable in the evidence.

func (p *Program) vtaGraph() *callgraph.Graph {
	if p.vta == nil {
		all := ssautil.AllFunctions(p.SSA)
		p.vta = vta.CallGraph(all, cha.CallGraph(p.SSA))
	}
	return p.vta
}

// reachableVTA: repository functions reachable from roots in the VTA call graph.
func reachableVTA(p *Program, roots ...string) map[*ssa.Function]bool {
	g := p.vtaGraph()
	seen := map[*ssa.Function]bool{}
	var stack []*ssa.Function
	for _, r := range roots {
		if f := p.Func(r); f != nil {
			stack = append(stack, f)
		}
	}
	for len(stack) > 0 {
		f := stack[len(stack)-1]
		stack = stack[:len(stack)-1]
		if seen[f] {
			continue
		}
		seen[f] = true
		n := g.Nodes[f]
		if n == nil {
			continue
		}
		for _, e := range n.Out {
			cal := e.Callee.Func
			if cal == nil || !strings.HasPrefix(fnPkgPath(cal), modPath) {
				continue
			}
			stack = append(stack, cal)
		}
		for _, af := range f.AnonFuncs {
			stack = append(stack, af)
		}
	}
	return seen
}

func runThoroughExtras(c *Check, prop, repo, verifDir string) {
	// VTA reachability cross-checks
	switch prop {
	case "C05", "C12":
		reach := reachableVTA(c.P, "syncer.(*Syncer).Sync", "syncer/cleaner.(*Worker).Run", "syncer/receiver.(*Receiver).Run", "syncer/sweeper.(*Sweeper).Run")
		bad := 0
		for f := range reach {
			if offlineCLI(QualName(f)) {
				bad++
				c.Bad(prop+"-VTA", "cli-reachable:"+QualName(f), "an offline CLI function is reachable from the sync loop in the VTA call graph (dynamic calls included)", c.P.Pos(f.Pos()), nil)
			}
			for _, b := range f.Blocks {
				for _, in := range b.Instrs {
					ci, ok := in.(ssa.CallInstruction)
					if !ok || !ci.Common().IsInvoke() {
						continue
					}
					m := ci.Common().Method.Name()
					if (m == "Delete" || m == "Store") && strings.HasSuffix(typeShort(ci.Common().Value.Type()), "simpleblob.Interface") {
						if QualName(f) != fnCleanerRun && QualName(f) != fnSendOnce {
							bad++
							c.Bad(prop+"-VTA", "bucket-mutator:"+QualName(f), "simpleblob "+m+" reachable from the sync loop outside cleaner.RunOnce / SendOnce", c.P.InstrPos(in), nil)
						}
					}
				}
			}
		}
		if bad == 0 {
			c.Ok(prop+"-VTA", "bucket-mutators-vta", fmt.Sprintf("VTA call graph: %d repository functions reachable from Sync and the background goroutines (interface and function-value calls resolved); Delete only in cleaner.RunOnce, Store only in SendOnce, no offline CLI function", len(reach)), "")
		}
		c.Rule(prop+"-VTA", "who-may-call rules re-checked on the VTA call graph (thorough tier)")
	case "C06", "C18", "C13":
		root := map[string]string{"C06": fnSendTxn, "C18": fnLoadTxn, "C13": fnSweepTxn}[prop]
		reach := reachableVTA(c.P, root)
		bad := 0
		for f := range reach {
			for _, in := range callsIn(f, txnStarters) {
				bad++
				c.Bad(prop+"-VTA", "nested-txn:"+QualName(f), "an LMDB transaction is started in "+QualName(f)+", reachable (VTA call graph) from the transaction body "+root, c.P.InstrPos(in), nil)
			}
		}
		if bad == 0 {
			c.Ok(prop+"-VTA", "no-nested-txn-vta", fmt.Sprintf("VTA call graph: %d functions reachable from %s, none starts an LMDB transaction", len(reach), root), "")
		}
		c.Rule(prop+"-VTA", "one-transaction rule re-checked on the VTA call graph (thorough tier)")
	}
	c.Mutants = mutantSelfTest(prop, repo, verifDir)
}

type mutantResult struct {
	Seed    string  `json:"seed"`
	Outcome string  `json:"outcome"` // killed, survived, not-applicable
	Rules   string  `json:"rules,omitempty"`
	Secs    float64 `json:"secs"`
}

// mutantSelfTest applies every seeded change of this property as an overlay and
// runs the quick check in a sub-process. Informational only.
func mutantSelfTest(prop, repo, verifDir string) any {
	dirs, _ := filepath.Glob(filepath.Join(verifDir, "seeded", prop+"-*"))
	sort.Strings(dirs)
	exe, err := os.Executable()
	if err != nil || len(dirs) == 0 {
		return map[string]any{"applicable": 0, "note": "no seeded changes for this property"}
	}
	results := make([]mutantResult, len(dirs))
	var wg sync.WaitGroup
	sem := make(chan struct{}, 3)
	for i, d := range dirs {
		wg.Add(1)
		go func(i int, d string) {
			defer wg.Done()
			sem <- struct{}{}
			defer func() { <-sem }()
			t0 := time.Now()
			r := mutantResult{Seed: filepath.Base(d)}
			tmp, err := os.MkdirTemp("", "lsmut")
			if err != nil {
				r.Outcome = "not-applicable"
				results[i] = r
				return
			}
			defer os.RemoveAll(tmp)
			patch, _ := os.ReadFile(filepath.Join(d, "patch.diff"))
			files := patchFiles(string(patch))
			ok := len(files) > 0
			for _, f := range files {
				src, err := os.ReadFile(filepath.Join(repo, f))
				if err != nil {
					ok = false
					break
				}
				_ = os.MkdirAll(filepath.Dir(filepath.Join(tmp, "src", f)), 0o755)
				_ = os.WriteFile(filepath.Join(tmp, "src", f), src, 0o644)
			}
			if ok {
				cmd := exec.Command("patch", "-p1", "-s", "-d", filepath.Join(tmp, "src"))
				cmd.Stdin = strings.NewReader(string(patch))
				if err := cmd.Run(); err != nil {
					ok = false
				}
			}
			if !ok {
				r.Outcome = "not-applicable"
				r.Secs = time.Since(t0).Seconds()
				results[i] = r
				return
			}
			ov := map[string]string{}
			for _, f := range files {
				ov[filepath.Join(repo, f)] = filepath.Join(tmp, "src", f)
			}
			ovb, _ := json.Marshal(ov)
			ovf := filepath.Join(tmp, "overlay.json")
			_ = os.WriteFile(ovf, ovb, 0o644)
			vd := filepath.Join(tmp, "verif")
			_ = os.MkdirAll(filepath.Join(vd, "evidence"), 0o755)
			if kb, err := os.ReadFile(filepath.Join(verifDir, "known_findings.json")); err == nil {
				_ = os.WriteFile(filepath.Join(vd, "known_findings.json"), kb, 0o644)
			}
			out, _ := exec.Command(exe, "-p", prop, "-tier", "quick", "-repo", repo, "-verif", vd, "-overlay", ovf).CombinedOutput()
			if strings.Contains(string(out), "VIOLATION property="+prop) {
				r.Outcome = "killed"
				set := map[string]bool{}
				for _, l := range strings.Split(string(out), "\n") {
					f := strings.Fields(l)
					if len(f) >= 2 && (f[0] == "VIOLATED" || f[0] == "UNDECIDED") {
						set[f[1]] = true
					}
				}
				var rs []string
				for k := range set {
					rs = append(rs, k)
				}
				sort.Strings(rs)
				r.Rules = strings.Join(rs, ",")
			} else {
				r.Outcome = "survived"
			}
			r.Secs = time.Since(t0).Seconds()
			results[i] = r
		}(i, d)
	}
	wg.Wait()
	killed, app := 0, 0
	for _, r := range results {
		if r.Outcome != "not-applicable" {
			app++
		}
		if r.Outcome == "killed" {
			killed++
		}
	}
	return map[string]any{"applicable": app, "killed": killed, "results": results,
		"note": "seeded property-breaking changes (independent sub-agents, each confirmed by a failing demonstration) applied as source overlays; informational, never affects the verdict"}
}

func patchFiles(patch string) []string {
	var out []string
	for _, l := range strings.Split(patch, "\n") {
		if strings.HasPrefix(l, "+++ b/") {
			out = append(out, strings.TrimPrefix(l, "+++ b/"))
		}
	}
	return out
}
