package main

import (
	"fmt"
	"go/token"
	"go/types"
	"sort"
	"strings"

	"golang.org/x/tools/go/ssa"
)

// Rules for C17: guarded-by, blocking under lock, lock order, GetGlobal,
// cancellable loops, channel close/send serialisation.

// guardedBy: struct type -> field -> mutex field of the same object (from the
// field comments of the repository, confirmed by reading).
var guardedBy = map[string]map[string]string{
	"Receiver":     {"snapshotsByInstance": "mu", "lastSeenByInstance": "mu", "downloadersByInstance": "mu", "hasSnapshots": "mu", "corruptSnapshots": "mu"},
	"Worker":       {"lastByInstance": "mu"},
	"Topic":        {"subscribers": "mu", "lastID": "mu", "last": "mu", "hasLast": "mu"},
	"Subscription": {"topic": "mu", "ch": "mu"},
	"Token":        {"released": "mu", "cl": "mu"},
	"info":         {"dbs": "mu", "st": "mu"},
}

// concPackages: where the concurrent components live.
var concPackages = []string{"syncer/receiver", "syncer/cleaner", "utils/topics", "utils/climit", "snapshot/storage", "status", "status/healthtracker", "status/starttracker"}

func structTypeName(t types.Type) string {
	if pt, ok := t.Underlying().(*types.Pointer); ok {
		t = pt.Elem()
	}
	if n, ok := t.(*types.Named); ok {
		if o := n.Origin(); o != nil {
			return o.Obj().Name()
		}
		return n.Obj().Name()
	}
	return ""
}

func inConcPackage(fn *ssa.Function) bool {
	p := shortPkg(fnPkgPath(fn))
	for _, cp := range concPackages {
		if p == cp {
			return true
		}
	}
	return false
}

// blockingCallees block (or may block for long) by design.
func isBlockingCallee(name string) bool {
	switch name {
	case fnAcquire, "time.Sleep", "utils.SleepContext", "utils.SleepContextPerturb", "(*sync.WaitGroup).Wait",
		"utils/topics.(*Topic[T]).Publish", "snapshot/storage.wait", "snapshot/storage.GetGlobal":
		return true
	}
	return strings.HasPrefix(name, "iface:simpleblob.Interface.")
}

func ruleLockset(c *Check, rGuard, rBlock, rOrder, rChan string) {
	type acc struct{ fn, field string }
	nAcc := map[string]int{}
	badG := 0
	badB := 0
	edges := map[string]map[string]string{} // held class -> acquired class -> where
	nFuncs := 0
	nSendUnder := 0
	var blockingSites []string
	for _, fn := range c.P.RepoFuncs() {
		if !inConcPackage(fn) {
			continue
		}
		name := QualName(fn)
		if strings.Contains(name, "_test") {
			continue
		}
		if unknownHelper(fn, 0) && hasRepoCaller(c.P, fn) {
			continue // a new helper is walked as part of each of its callers
		}
		nFuncs++
		c.UseFunc(name)
		// held locks and lock classes
		classOf := map[string]string{}
		w := Walk(c.P, fn, WalkConfig{Memo: true, MaxPaths: 30000,
			Inline: func(f *ssa.Function, d int) bool {
				return d <= 2 && inConcPackage(f) && f.Blocks != nil && len(f.Blocks) < 40
			},
			WatchField: func(f *types.Var) bool {
				for _, m := range guardedBy {
					if _, ok := m[f.Name()]; ok {
						return true
					}
				}
				return false
			},
			KeepEvent: func(e *Event) bool {
				switch e.Kind {
				case "field", "lock", "rlock", "unlock", "runlock", "send", "recv", "select", "ret", "go":
					return true
				case "call":
					return isBlockingCallee(e.Callee) || e.Callee == "builtin:close"
				}
				return false
			},
			KeepAtom: func(a Atom) bool {
				return a.Kind == "bool" && strings.HasPrefix(a.A, "param:") || strings.Contains(a.String(), "released")
			},
		})
		if w.Err != nil {
			c.Undecided(rGuard, name, "path walk failed: "+w.Err.Error(), c.P.Pos(fn.Pos()))
			continue
		}
		c.Evaluations += len(w.Paths)
		for i := range w.Paths {
			p := &w.Paths[i]
			for j := range p.Events {
				e := &p.Events[j]
				switch e.Kind {
				case "lock", "rlock":
					classOf[e.Addr] = e.Val
					for _, h := range e.Held {
						hc := classOf[h]
						if hc == "" {
							hc = h
						}
						if hc == e.Val && h != e.Addr {
							continue
						}
						if edges[hc] == nil {
							edges[hc] = map[string]string{}
						}
						edges[hc][e.Val] = name + " @ " + c.P.InstrPos(e.Instr)
					}
				case "field":
					fi, ok := e.Instr.(*ssa.FieldAddr)
					var tn string
					if ok {
						tn = structTypeName(fi.X.Type())
					} else if f2, ok := e.Instr.(*ssa.Field); ok {
						tn = structTypeName(f2.X.Type())
					}
					mu, guarded := guardedBy[tn][e.Val]
					if !guarded {
						continue
					}
					// a freshly built object is not shared yet
					if strings.HasPrefix(e.Key, "&alloc:") || strings.HasPrefix(e.Key, "local:") && strings.Contains(e.Fn, ".New") {
						continue
					}
					nAcc[tn+"."+e.Val]++
					want := "&" + strings.TrimPrefix(e.Key, "&") + "." + mu
					if strings.HasPrefix(e.Key, "&") {
						want = e.Key + "." + mu
					}
					held := false
					for _, h := range e.Held {
						if h == want {
							held = true
						}
					}
					if !held {
						badG++
						c.Bad(rGuard, fmt.Sprintf("%s/%s.%s", e.Fn, tn, e.Val), fmt.Sprintf("%s.%s is accessed without %s.%s of the same object held (held: %v): data race with the goroutines that use it under the lock", tn, e.Val, tn, mu, e.Held), c.P.InstrPos(e.Instr), nil)
					}
				case "send", "recv", "select", "call":
					if len(e.Held) == 0 {
						continue
					}
					blocking := e.Block || e.Kind == "call" && isBlockingCallee(e.Callee)
					if !blocking {
						continue
					}
					site := e.Fn + "/" + e.Kind
					if e.Kind == "call" {
						site = e.Fn + "/call:" + e.Callee
					}
					// discharge: fresh buffered channel
					if e.Kind == "send" && strings.HasPrefix(e.Addr, "makechan(") && !strings.HasPrefix(e.Addr, "makechan(const:0)") {
						continue
					}
					// discharge: token returned to a channel whose capacity equals the number of tokens (at most once per token)
					inRelease := e.Fn == fnRelease
					if _, known := knownFuncs[e.Fn]; !inRelease && !known {
						// a helper split off Release, walked as part of it
						if hf := c.P.Func(e.Fn); hf != nil {
							inRelease = onlyCalledFrom(c.P, hf, fnRelease)
						}
					}
					if e.Kind == "send" && inRelease {
						if rel, f := condTruth(p, ".released", j); f && !rel {
							continue
						}
					}
					if e.Kind == "send" {
						nSendUnder++
					}
					blockingSites = append(blockingSites, site)
					badB++
					c.Bad(rBlock, site+"-under-lock", fmt.Sprintf("a blocking operation (%s %s%s) happens while %v is held: every goroutine needing that lock (e.g. to unsubscribe, to deliver or fetch a snapshot) waits as long as the operation blocks", e.Kind, e.Callee, e.Addr, e.Held), c.P.InstrPos(e.Instr), nil)
				}
			}
		}
	}
	// floors for guarded accesses
	total := 0
	for _, n := range nAcc {
		total += n
	}
	if badG == 0 {
		c.Ok(rGuard, "guarded-by", fmt.Sprintf("%d functions of the concurrent packages walked; %d accesses to guarded fields, each with the mutex of the same object held: %v", nFuncs, total, nAcc), "")
	}
	for tn, m := range guardedBy {
		for f := range m {
			if nAcc[tn+"."+f] == 0 && tn != "info" {
				c.Undecided(rGuard, "floor:"+tn+"."+f, "no access to the guarded field "+tn+"."+f+" found (field renamed or removed?)", "")
			}
		}
	}
	if badB == 0 {
		c.Ok(rBlock, "no-blocking-under-lock", fmt.Sprintf("no channel operation without default, no storage call, no sleep/acquire/publish happens while a mutex is held (%d functions)", nFuncs), "")
	}
	// lock order
	cyc := findCycle(edges)
	var es []string
	for a, m := range edges {
		for b := range m {
			es = append(es, a+" → "+b)
		}
	}
	sort.Strings(es)
	if cyc != "" {
		c.Bad(rOrder, "lock-order", "mutexes are acquired in a cyclic order: "+cyc, "", edges)
	} else {
		c.Ok(rOrder, "lock-order", fmt.Sprintf("nested acquisitions are acyclic: %v", es), "")
	}
	_ = rChan
}

func findCycle(edges map[string]map[string]string) string {
	color := map[string]int{}
	var stack []string
	var res string
	var dfs func(string) bool
	dfs = func(n string) bool {
		color[n] = 1
		stack = append(stack, n)
		for m := range edges[n] {
			if color[m] == 1 {
				res = strings.Join(append(stack, m), " → ")
				return true
			}
			if color[m] == 0 && dfs(m) {
				return true
			}
		}
		stack = stack[:len(stack)-1]
		color[n] = 2
		return false
	}
	var ks []string
	for k := range edges {
		ks = append(ks, k)
	}
	sort.Strings(ks)
	for _, k := range ks {
		if color[k] == 0 && dfs(k) {
			return res
		}
	}
	return ""
}

// ruleTopicChannels: sends to and close of subscriber channels are serialised
// by the topic's mutex (a send on a closed channel panics).
func ruleTopicChannels(c *Check, rule string) {
	nSend, nClose, bad := 0, 0, 0
	for _, fn := range c.P.RepoFuncs() {
		if shortPkg(fnPkgPath(fn)) != "utils/topics" {
			continue
		}
		name := QualName(fn)
		if unknownHelper(fn, 0) && hasRepoCaller(c.P, fn) {
			continue // a new helper is walked as part of each of its callers
		}
		w := Walk(c.P, fn, WalkConfig{Memo: true,
			KeepEvent: func(e *Event) bool {
				return e.Kind == "send" || e.Kind == "ret" || e.Kind == "call" && e.Callee == "builtin:close"
			},
			KeepAtom: func(a Atom) bool { return false }})
		if w.Err != nil {
			continue
		}
		for i := range w.Paths {
			for _, e := range w.Paths[i].Events {
				topicMu := false
				for _, h := range e.Held {
					if strings.HasSuffix(h, ".mu") && !strings.Contains(h, "topic.mu") || strings.HasSuffix(h, "t.mu") {
						topicMu = true
					}
				}
				switch {
				case e.Kind == "send" && !strings.HasPrefix(e.Addr, "makechan("):
					nSend++
					if !topicMu {
						bad++
						c.Bad(rule, name+"/send-serialised", "a value is sent to a subscriber channel without the topic's mutex held: Subscription.Close closes that channel under the mutex, so an unlocked send can hit a closed channel and panic the publisher", c.P.InstrPos(e.Instr), nil)
					}
				case e.Kind == "call" && e.Callee == "builtin:close":
					nClose++
					if !topicMu {
						bad++
						c.Bad(rule, name+"/close-serialised", "a subscriber channel is closed without the topic's mutex held", c.P.InstrPos(e.Instr), nil)
					}
				}
			}
		}
	}
	if bad == 0 {
		c.Ok(rule, "utils/topics/close-send-serialised", fmt.Sprintf("%d sends to subscriber channels and %d closes all happen with the topic's mutex held (no send can race with close)", nSend, nClose), "")
	}
	c.Floor(rule, nSend, 1, "sends to subscriber channels")
	c.Floor(rule, nClose, 1, "closes of subscriber channels")
	// CLOSE-ONCE: a subscriber channel is closed only when it was found in the
	// subscribers map, and it leaves the map in the same critical section. With
	// channels entering the map once (Subscribe), no channel is closed twice,
	// whatever the callers do (Close is documented as callable concurrently).
	nOnce, badOnce := 0, 0
	for _, fn := range c.P.RepoFuncs() {
		if shortPkg(fnPkgPath(fn)) != "utils/topics" {
			continue
		}
		name := QualName(fn)
		w := Walk(c.P, fn, WalkConfig{})
		if w.Err != nil {
			continue
		}
		for i := range w.Paths {
			p := &w.Paths[i]
			for j := range p.Events {
				e := &p.Events[j]
				if e.Kind != "call" || e.Callee != "builtin:close" || len(e.Args) != 1 {
					continue
				}
				nOnce++
				arg := e.Args[0]
				okc := false
				if strings.HasPrefix(arg, "lookup(") && strings.HasSuffix(arg, "#0") {
					lk := strings.TrimSuffix(arg, "#0")
					inner := lk[len("lookup("):strings.LastIndex(lk, ")@")]
					parts := splitTop(inner)
					found, f := boolCond(p, lk+"#1", j)
					if len(parts) == 2 && strings.HasSuffix(parts[0], ".subscribers") && f && found {
						// delete(M, K) in the same critical section
						for k := j + 1; k < len(p.Events); k++ {
							d := &p.Events[k]
							if d.Kind == "unlock" {
								break
							}
							if d.Kind == "call" && d.Callee == "builtin:delete" && len(d.Args) == 2 && d.Args[0] == parts[0] && d.Args[1] == parts[1] && len(d.Held) > 0 {
								okc = true
							}
						}
						for k := j - 1; k >= 0 && !okc; k-- {
							d := &p.Events[k]
							if d.Kind == "lock" || d.Kind == "unlock" {
								break
							}
							if d.Kind == "call" && d.Callee == "builtin:delete" && len(d.Args) == 2 && d.Args[0] == parts[0] && d.Args[1] == parts[1] && len(d.Held) > 0 {
								okc = true
							}
						}
					}
				}
				if !okc {
					badOnce++
					c.Bad(rule, name+"/close-once", "a subscriber channel is closed without (found in the subscribers map ∧ removed from it in the same critical section): two Close calls of one subscription, which the API allows from different goroutines, then close it twice (or close a nil channel) and panic", c.P.InstrPos(e.Instr), describe(c, p))
				}
			}
		}
	}
	if badOnce == 0 {
		c.Ok(rule, "utils/topics/close-once", fmt.Sprintf("%d close sites: the channel comes from a successful lookup in the subscribers map and its key is deleted in the same critical section", nOnce), "")
	}
	c.Floor(rule, nOnce, 1, "close sites in utils/topics")
}

// R5 GETGLOBAL.
func ruleGetGlobal(c *Check, rule string) {
	name := "snapshot/storage.GetGlobal"
	fn, paths := c.walkFn(rule, name, WalkConfig{Inline: func(f *ssa.Function, d int) bool {
		return d <= 2 && shortPkg(fnPkgPath(f)) == "snapshot/storage" && QualName(f) != "snapshot/storage.wait" && len(f.Blocks) < 10
	}})
	if paths == nil {
		return
	}
	pos := c.P.Pos(fn.Pos())
	nRet, nWait, bad := 0, 0, 0
	for i := range paths {
		p := &paths[i]
		waited := len(callsOf(p, "snapshot/storage.wait")) > 0
		switch p.End {
		case "return":
			nRet++
			v := p.Rets[0]
			isNil, f := boolCond(p, "isnil("+v+")", -1)
			if v == "nil" || !f || isNil || !strings.HasPrefix(v, "global:snapshot/storage.storage") {
				bad++
				c.Bad(rule, name+"/returns-non-nil", "GetGlobal returns "+v+" on a path that has not established it to be non-nil", c.pathPos(p), describe(c, p))
			}
			if waited {
				nWait++
			}
		case "panic":
			// only when the storage is still nil after waiting
			last := ""
			for _, cd := range p.Conds() {
				if strings.HasPrefix(cd.Atom.A, "isnil(global:snapshot/storage.storage") {
					last = cd.String()
				}
			}
			if !waited || strings.HasPrefix(last, "!") {
				bad++
				c.Bad(rule, name+"/panic", "GetGlobal panics on a path where the storage is set (or without having waited): a caller that asks before SetGlobal must receive the storage once it is set", c.pathPos(p), describe(c, p))
			}
		}
	}
	if bad == 0 && nWait > 0 {
		c.Ok(rule, name, fmt.Sprintf("%d returning paths return the storage read under the lock and tested non-nil (%d after waiting for SetGlobal); the only panic is 'still nil after wait'", nRet, nWait), pos)
	} else if bad == 0 {
		c.Undecided(rule, name, "no path returns after waiting", pos)
	}
	// wait() returns only when ready is closed
	wf, wp := c.walkFn(rule, "snapshot/storage.wait", WalkConfig{})
	if wp != nil {
		okw := true
		for i := range wp {
			p := &wp[i]
			if p.End == "return" {
				sel := false
				for _, e := range p.Events {
					if e.Kind == "select" && len(e.Extra) > 0 && strings.Contains(strings.Join(e.Extra, " "), "recv:global:snapshot/storage.ready") {
						sel = true
					}
				}
				if !sel {
					okw = false
				}
			}
		}
		c.Expect(okw, rule, "snapshot/storage.wait", "wait() returns only through the receive on the ready channel (closed by the first SetGlobal under the lock)", "wait() can return without the ready channel having been closed", c.P.Pos(wf.Pos()))
	}
	// SetGlobal wakes every waiter: readiness is a broadcast (close), issued
	// exactly when the storage was unset, inside the critical section that
	// sets it; nothing ever sends on the channel (a send wakes one waiter only).
	sn := "snapshot/storage.SetGlobal"
	sf, sp := c.walkFn(rule, sn, WalkConfig{})
	if sp != nil {
		const ready = "global:snapshot/storage.ready"
		const stv = "&global:snapshot/storage.storage"
		nFirst, nLater, bads := 0, 0, 0
		for i := range sp {
			p := &sp[i]
			if p.End != "return" {
				continue
			}
			var closed, stored *Event
			var unset, uf bool
			for j := range p.Events {
				e := &p.Events[j]
				switch {
				case e.Kind == "call" && e.Callee == "builtin:close" && len(e.Args) == 1 && e.Args[0] == ready:
					closed = e
				case e.Kind == "store" && e.Addr == stv:
					stored = e
				case e.Kind == "cond" && e.Cond.Atom.Kind == "bool" && strings.HasPrefix(e.Cond.Atom.A, "isnil(global:snapshot/storage.storage"):
					unset, uf = e.Cond.Truth, true
				}
			}
			locked := func(e *Event) bool {
				for _, h := range e.Held {
					if h == "&global:snapshot/storage.mu" {
						return true
					}
				}
				return false
			}
			switch {
			case stored == nil || stored.Val != param(sf, 0):
				bads++
				c.Bad(rule, sn+"/stores", "SetGlobal returns without storing its argument", c.pathPos(p), describe(c, p))
			case !uf:
				bads++
				c.Bad(rule, sn+"/first-test", "SetGlobal does not test whether the storage was already set", c.pathPos(p), describe(c, p))
			case unset && (closed == nil || !locked(closed) || eventIndex(p, closed) > eventIndex(p, stored)):
				bads++
				c.Bad(rule, sn+"/broadcast", "the first SetGlobal does not close the ready channel (inside the critical section, before publishing the storage): waiters in GetGlobal are woken by that close; anything else (a send, a buffered token) wakes at most one of them and the others block forever", c.pathPos(p), describe(c, p))
			case !unset && closed != nil:
				bads++
				c.Bad(rule, sn+"/close-once", "a later SetGlobal closes the ready channel again (panic: close of closed channel)", c.pathPos(p), describe(c, p))
			case unset:
				nFirst++
			default:
				nLater++
			}
		}
		// no send on the ready channel anywhere in the package
		for _, fn := range c.P.RepoFuncs() {
			if shortPkg(fnPkgPath(fn)) != "snapshot/storage" {
				continue
			}
			for _, b := range fn.Blocks {
				for _, in := range b.Instrs {
					var ch ssa.Value
					switch x := in.(type) {
					case *ssa.Send:
						ch = x.Chan
					case *ssa.Select:
						for _, st := range x.States {
							if st.Dir == types.SendOnly {
								ch = st.Chan
							}
						}
					}
					if u, ok := ch.(*ssa.UnOp); ok {
						if g, ok := u.X.(*ssa.Global); ok && g.Name() == "ready" {
							bads++
							c.Bad(rule, QualName(fn)+"/ready-send", "a value is sent on the ready channel: readiness must be a broadcast (close), a send wakes one waiter", c.P.InstrPos(in), nil)
						}
					}
				}
			}
		}
		if bads == 0 {
			c.Ok(rule, sn, fmt.Sprintf("SetGlobal stores its argument under the lock on all paths; the ready channel is closed exactly on the %d path(s) where the storage was unset, before the store, inside the critical section (%d later-set paths do not close); nothing sends on it", nFirst, nLater), c.P.Pos(sf.Pos()))
		}
		c.Floor(rule, nFirst, 1, "first-set paths of SetGlobal")
	}
}

// R6 CANCELLABLE-LOOPS.
var goroutineBodies = []string{
	fnSyncLoop, "syncer/receiver.(*Receiver).Run", fnDlRun, "syncer/cleaner.(*Worker).Run",
	"syncer/sweeper.(*Sweeper).Run", fnSweep, "syncer.(*Syncer).startStatsLogger$go", fnSendOnce,
}

// ctxArg: does the call receive the goroutine's context?
func ctxArg(e *Event) bool {
	ci, ok := e.Instr.(ssa.CallInstruction)
	if !ok {
		return false
	}
	for _, a := range ci.Common().Args {
		if types.TypeString(a.Type(), nil) == "context.Context" {
			return true
		}
	}
	return false
}

func isCancelPoint(p *Path) bool {
	for j, e := range p.Events {
		switch e.Kind {
		case "call":
			if e.Callee == "utils.SleepContext" || e.Callee == "utils.SleepContextPerturb" {
				// its error must be looked at (the cancel edge leaves the loop on a sibling path)
				if _, f := boolCond(p, "isnil("+e.Res+")", -1); f {
					return true
				}
			}
			if e.Callee == "utils.IsCanceled" {
				if _, f := boolCond(p, e.Res, -1); f {
					return true
				}
			}
		case "select":
			for _, ch := range e.Extra {
				if strings.Contains(ch, "context.Context.Done") || strings.Contains(ch, ".Done@") {
					return true
				}
			}
		}
		_ = j
	}
	return false
}

// countingLoop: `for i := a; i < n; i += k` with k a positive constant on every
// back edge and n fixed before the loop (a constant, a value computed outside
// the loop, or the length of such a value): it ends after finitely many rounds.
func countingLoop(hdr *ssa.BasicBlock, body map[*ssa.BasicBlock]bool) bool {
	if len(hdr.Instrs) == 0 {
		return false
	}
	iff, ok := hdr.Instrs[len(hdr.Instrs)-1].(*ssa.If)
	if !ok {
		return false
	}
	cmp, ok := iff.Cond.(*ssa.BinOp)
	if !ok || cmp.Op != token.LSS && cmp.Op != token.LEQ {
		return false
	}
	phi, ok := cmp.X.(*ssa.Phi)
	if !ok || phi.Block() != hdr {
		return false
	}
	// the true edge stays in the loop, the false edge leaves it
	if !body[hdr.Succs[0]] || body[hdr.Succs[1]] {
		return false
	}
	for i, e := range phi.Edges {
		if !body[hdr.Preds[i]] {
			continue
		}
		add, ok := e.(*ssa.BinOp)
		if !ok || add.Op != token.ADD || add.X != ssa.Value(phi) {
			return false
		}
		k, ok := add.Y.(*ssa.Const)
		if !ok || k.Value == nil || k.Int64() <= 0 {
			return false
		}
	}
	var outside func(v ssa.Value, d int) bool
	outside = func(v ssa.Value, d int) bool {
		switch x := v.(type) {
		case *ssa.Const, *ssa.Parameter, *ssa.FreeVar:
			return true
		case *ssa.Call:
			if b, ok := x.Call.Value.(*ssa.Builtin); ok && b.Name() == "len" && d < 2 {
				return outside(x.Call.Args[0], d+1)
			}
		}
		if in, ok := v.(ssa.Instruction); ok && in.Block() != nil && !body[in.Block()] {
			return true
		}
		// a local variable kept in memory (captured by a closure) that nothing
		// assigns inside the loop
		if ld, ok := v.(*ssa.UnOp); ok && ld.Op == token.MUL && d < 2 {
			if al, ok := ld.X.(*ssa.Alloc); ok {
				return !assignedIn(al, body)
			}
		}
		return false
	}
	return outside(cmp.Y, 0)
}

// assignedIn: may the local variable al be assigned while control is inside
// body? Stores in the loop, stores by any closure capturing it, and any escape
// of its address count.
func assignedIn(al *ssa.Alloc, body map[*ssa.BasicBlock]bool) bool {
	if al.Referrers() == nil {
		return true
	}
	for _, r := range *al.Referrers() {
		switch x := r.(type) {
		case *ssa.Store:
			if x.Addr != ssa.Value(al) || body[x.Block()] {
				return true
			}
		case *ssa.UnOp:
			if x.Op != token.MUL {
				return true
			}
		case *ssa.MakeClosure:
			cf, _ := x.Fn.(*ssa.Function)
			if cf == nil {
				return true
			}
			// a closure made before the loop and only handed to calls made
			// before the loop has run by the time the loop starts (callbacks
			// are invoked by their callee, not kept for later)
			if !body[x.Block()] && x.Referrers() != nil {
				early := true
				var uses func(v ssa.Value, d int)
				uses = func(v ssa.Value, d int) {
					if v.Referrers() == nil || d > 2 {
						early = false
						return
					}
					for _, cr := range *v.Referrers() {
						switch y := cr.(type) {
						case *ssa.Call:
							if body[y.Block()] {
								early = false
							}
						case *ssa.ChangeType:
							uses(y, d+1)
						case *ssa.DebugRef:
						default:
							early = false
						}
					}
				}
				uses(x, 0)
				if early {
					continue
				}
			}
			for i, bnd := range x.Bindings {
				if bnd != ssa.Value(al) {
					continue
				}
				fv := cf.FreeVars[i]
				if fv.Referrers() == nil {
					continue
				}
				for _, fr := range *fv.Referrers() {
					if ld, ok := fr.(*ssa.UnOp); ok && ld.Op == token.MUL {
						continue
					}
					return true
				}
			}
		case *ssa.DebugRef:
		default:
			return true
		}
	}
	return false
}

func ruleCancellableLoops(c *Check, rule string) {
	nLoops, bad := 0, 0
	for _, name := range goroutineBodies {
		fn := c.P.Func(name)
		if fn == nil || fn.Blocks == nil {
			c.Undecided(rule, name, "goroutine body not found", "")
			continue
		}
		c.UseFunc(name)
		wk := &Walker{P: c.P, loops: map[*ssa.Function]*loopInfo{}}
		for hdr, body := range wk.loopsOf(fn).headers {
			body := body
			// statically bounded loops: range loops and cursor/scan loops over data
			bounded := false
			for _, in := range hdr.Instrs {
				if phi, ok := in.(*ssa.Phi); ok && phi.Comment == "rangeindex" {
					bounded = true
				}
				if _, ok := in.(*ssa.Next); ok {
					bounded = true
				}
				if isCallTo(in, "lmdbenv/limitscanner.(*LimitScanner).Scan") {
					bounded = true
				}
			}
			if bounded || countingLoop(hdr, body) {
				continue
			}
			nLoops++
			keep := `SleepContext|IsCanceled|Done|isnil`
			ka, ke := keepRe(keep)
			w := Walk(c.P, fn, WalkConfig{Entry: hdr, Memo: true, KeepAtom: ka, MaxPaths: 60000,
				StopBlock: func(b *ssa.BasicBlock) bool { return !body[b] }, // stay inside this loop
				KeepEvent: func(e *Event) bool {
					return ke(e) || e.Kind == "select" || e.Kind == "call" && ctxArg(e)
				}})
			if w.Err != nil {
				c.Undecided(rule, fmt.Sprintf("%s/loop@%d", name, hdr.Index), w.Err.Error(), c.P.Pos(fn.Pos()))
				continue
			}
			c.Evaluations += len(w.Paths)
			nb, nbad := 0, 0
			var ex *Path
			// calls taking the context whose error edge always leaves the loop
			ctxExit := map[ssa.Instruction]bool{}
			stays := map[ssa.Instruction]bool{}
			for i := range w.Paths {
				p := &w.Paths[i]
				if p.End != fmt.Sprintf("backedge:%d", hdr.Index) {
					continue
				}
				for j := range p.Events {
					e := &p.Events[j]
					if e.Kind != "call" || !ctxArg(e) {
						continue
					}
					k := errIndex(e.Instr)
					if k == -1 {
						continue
					}
					errv := e.Res
					if k >= 0 {
						errv = fmt.Sprintf("%s#%d", e.Res, k)
					}
					if okk, f := boolCond(p, "isnil("+errv+")", -1); f && okk {
						ctxExit[e.Instr] = true
					} else {
						stays[e.Instr] = true
					}
				}
			}
			for i := range w.Paths {
				p := &w.Paths[i]
				if p.End != fmt.Sprintf("backedge:%d", hdr.Index) {
					continue
				}
				nb++
				viaCtx := false
				for j := range p.Events {
					e := &p.Events[j]
					if e.Kind == "call" && ctxExit[e.Instr] && !stays[e.Instr] {
						viaCtx = true
					}
				}
				if !isCancelPoint(p) && !viaCtx {
					nbad++
					ex = p
				}
			}
			if nbad > 0 {
				bad++
				pos := c.P.Pos(fn.Pos())
				if len(hdr.Instrs) > 0 {
					pos = c.P.InstrPos(hdr.Instrs[len(hdr.Instrs)-1])
				}
				c.Bad(rule, fmt.Sprintf("%s/loop", name), fmt.Sprintf("a loop of this goroutine body can go round (%d of %d cycle paths) without passing a cancellation point (context-aware sleep whose error is tested, IsCanceled test, or select on ctx.Done()): cancelling does not make it return", nbad, nb), pos, describe(c, ex))
			}
		}
	}
	if bad == 0 {
		c.Ok(rule, "cancellable-loops", fmt.Sprintf("%d unbounded loops in %d goroutine bodies: every cycle passes a cancellation point", nLoops, len(goroutineBodies)), "")
	}
	c.Floor(rule, nLoops, 7, "unbounded loops in goroutine bodies")
}

// hasRepoCaller: is fn called (statically) from another repository function?
func hasRepoCaller(p *Program, fn *ssa.Function) bool {
	for _, g := range p.RepoFuncs() {
		if g == fn {
			continue
		}
		for _, b := range g.Blocks {
			for _, in := range b.Instrs {
				if ci, ok := in.(ssa.CallInstruction); ok && sameFunc(ci.Common().StaticCallee(), fn) {
					return true
				}
			}
		}
	}
	return false
}

// sameFunc: the same function, also across instantiations of a generic one.
func sameFunc(a, b *ssa.Function) bool {
	if a == nil || b == nil {
		return false
	}
	if a == b {
		return true
	}
	oa, ob := a, b
	if o := a.Origin(); o != nil {
		oa = o
	}
	if o := b.Origin(); o != nil {
		ob = o
	}
	return oa == ob
}

// onlyCalledFrom: every static call of fn is in the function named caller.
func onlyCalledFrom(p *Program, fn *ssa.Function, caller string) bool {
	n := 0
	for _, g := range p.RepoFuncs() {
		for _, b := range g.Blocks {
			for _, in := range b.Instrs {
				if ci, ok := in.(ssa.CallInstruction); ok && ci.Common().StaticCallee() == fn {
					if QualName(g) != caller {
						return false
					}
					n++
				}
			}
		}
	}
	return n > 0
}

// C17-R10 SUBSCRIPTION-CLOSED: a function that subscribes to a topic and keeps
// the subscription to itself closes it on every path out (directly or by
// defer). A subscription left registered makes the next Publish block forever
// on its unbuffered channel while holding the topic's mutex.
func ruleSubscriptionClosed(c *Check, rule string) {
	nFn, nPaths, bad := 0, 0, 0
	for _, fn := range c.P.RepoFuncs() {
		if !sfInScope(fn) || fn.Blocks == nil {
			continue
		}
		has := false
		for _, b := range fn.Blocks {
			for _, in := range b.Instrs {
				if ci, ok := in.(ssa.CallInstruction); ok {
					if f := ci.Common().StaticCallee(); f != nil && strings.HasSuffix(QualName(f), ").Subscribe") && strings.HasPrefix(QualName(f), "utils/topics.") {
						has = true
					}
				}
			}
		}
		if !has {
			continue
		}
		name := QualName(fn)
		if strings.HasPrefix(name, "utils/topics.(*Topic[T]).Subscribe") {
			continue
		}
		nFn++
		c.UseFunc(name)
		w := Walk(c.P, fn, WalkConfig{Memo: true,
			KeepEvent: func(e *Event) bool {
				return e.Kind == "ret" || e.Kind == "defer" || e.Kind == "call" && (strings.HasSuffix(e.Callee, ").Subscribe") || strings.HasSuffix(e.Callee, ").Close"))
			},
			KeepAtom: func(a Atom) bool { return false }})
		if w.Err != nil {
			c.Undecided(rule, name, "path walk failed: "+w.Err.Error(), c.P.Pos(fn.Pos()))
			continue
		}
		seen := map[string]bool{}
		for i := range w.Paths {
			p := &w.Paths[i]
			if p.End != "return" && p.End != "panic" {
				continue
			}
			for _, s := range callsOf(p, "utils/topics.(*Topic[T]).Subscribe") {
				escapes := false
				for _, r := range p.Rets {
					if strings.Contains(r, s.Res) {
						escapes = true
					}
				}
				for _, e := range p.Events {
					if e.Kind == "store" && strings.Contains(e.Val, s.Res) && !strings.HasPrefix(e.Addr, "&alloc:") {
						escapes = true
					}
				}
				if escapes {
					continue
				}
				nPaths++
				closed := false
				for _, cl := range callsOf(p, "utils/topics.(*Subscription[T]).Close") {
					if len(cl.Args) > 0 && cl.Args[0] == s.Res {
						closed = true
					}
				}
				key := c.pathPos(p)
				if !closed && !seen[key] {
					seen[key] = true
					bad++
					c.Bad(rule, name+"/subscription-closed", "a path leaves the function with its subscription still registered (no Close, direct or deferred): the next Publish blocks forever on the abandoned unbuffered channel while holding the topic's mutex, and with it every other user of the topic", key, describe(c, p))
				}
			}
		}
	}
	if bad == 0 {
		c.Ok(rule, "subscription-closed", fmt.Sprintf("%d function(s) subscribe and keep the subscription: it is closed on all %d paths out", nFn, nPaths), "")
	}
	c.Floor(rule, nPaths, 1, "paths out of subscribing functions")
}

// WAIT-AFTER-CANCEL (C17-R6): a function that starts goroutines on a context it
// derives, and defers both the cancellation of that context and a wait for the
// goroutines, must cancel first: deferred calls run last-in-first-out, so the
// wait has to be deferred BEFORE the cancel. In the other order the wait runs
// while the context is still live and the goroutines (whose loops end only on
// cancellation, R6) never return: the function hangs whenever it ends by
// itself rather than through the caller's cancellation.
func ruleWaitAfterCancel(c *Check, rule string) {
	n, bad := 0, 0
	for _, fn := range c.P.RepoFuncs() {
		var cancels, waits []*ssa.Defer
		for _, b := range fn.Blocks {
			for _, in := range b.Instrs {
				d, ok := in.(*ssa.Defer)
				if !ok {
					continue
				}
				if callee := d.Call.StaticCallee(); callee != nil {
					s := callee.String()
					if s == "(*sync.WaitGroup).Wait" || strings.HasSuffix(s, "errgroup.Group).Wait") {
						waits = append(waits, d)
					}
					continue
				}
				if nt, ok := d.Call.Value.Type().(*types.Named); ok && nt.Obj().Pkg() != nil && nt.Obj().Pkg().Path() == "context" && nt.Obj().Name() == "CancelFunc" {
					cancels = append(cancels, d)
				}
			}
		}
		for _, w := range waits {
			for _, cn := range cancels {
				n++
				// cancel deferred before the wait ⇒ the wait runs first
				before := false
				if cn.Block() == w.Block() {
					for _, in := range cn.Block().Instrs {
						if in == ssa.Instruction(cn) {
							before = true
							break
						}
						if in == ssa.Instruction(w) {
							break
						}
					}
				} else {
					before = cn.Block().Dominates(w.Block())
				}
				if before {
					bad++
					c.Bad(rule, QualName(fn)+"/wait-after-cancel", "the wait for the started goroutines is deferred after the cancellation of their context, so it runs before it: when the function ends by itself (run-once mode, a fatal error in the loop) the goroutines are never told to stop and the function never returns", c.P.InstrPos(w), nil)
				}
			}
		}
	}
	if bad == 0 {
		c.Ok(rule, "wait-after-cancel", fmt.Sprintf("%d (deferred wait, deferred cancel) pairs: none waits before cancelling", n), "")
	}
}
