package main

import (
	"fmt"
	"go/constant"
	"go/token"
	"go/types"
	"hash/fnv"
	"sort"
	"strings"

	"golang.org/x/tools/go/ssa"
)

// ---------------------------------------------------------------------------
// Path walker: enumerates the acyclic paths of a function (or a region of it)
// over the SSA control-flow graph, carrying
//   - an environment resolving phis by the edge walked and parameters of
//     inlined callees to the caller's arguments,
//   - an abstract store for local variables and simple heap cells,
//   - the finite relational state (rel.go) used to prune infeasible edges,
//   - the set of mutexes held,
// and records a trace of events (conditions taken, calls, stores, returns).
// Nothing is executed; values are canonical origin terms (strings).
// ---------------------------------------------------------------------------

type Event struct {
	Kind   string // cond, call, store, mapupdate, ret, go, defer, send, recv, select, panic, slice, index, field, lock, unlock
	Instr  ssa.Instruction
	Fn     string // qualified name of the function containing Instr
	Depth  int
	Cond   *Cond
	Callee string
	Args   []string
	Res    string // canonical name of the call result
	Addr   string // store/field/mapupdate: address or map
	Val    string // store value / mapupdate value
	Key    string // mapupdate key
	Held   []string
	Inl    bool // call was inlined (its events follow)
	Defd   bool // executed as a deferred call at function exit
	Write  bool // field event: address used for a store
	Block  bool // select/send/recv: blocking
	State  *RelState
	Extra  []string // slice: x, lo, hi, max ; select: channels
	Static *ssa.Function
	Edge   int // cond: the successor of the If taken (0: then, 1: else)
}

type Path struct {
	Events []Event
	End    string // return, backedge, panic, stop, exit
	Rets   []string
	State  *RelState
	Store  map[string]string
	EndPos ssa.Instruction
}

type WalkConfig struct {
	Entry      *ssa.BasicBlock
	Inline     func(callee *ssa.Function, depth int) bool
	MaxPaths   int
	KeepAtom   func(a Atom) bool // nil: keep all
	WatchField func(f *types.Var) bool
	Bounds     bool // record slice/index events with state snapshots
	StopBlock  func(b *ssa.BasicBlock) bool
	NoHavoc    bool
	KeepEvent  func(e *Event) bool // nil: keep all; conds are governed by KeepAtom
	Memo       bool                // merge identical (block, state, kept-trace) configurations
}

type frame struct {
	fn     *ssa.Function
	env    map[ssa.Value]string
	onPath map[*ssa.BasicBlock]bool
	defers []*ssa.Defer
	id     int
	// boolean parameters bound to a condition of the caller (`helper(x == nil)`):
	// a test of the parameter is a test of that condition
	atoms map[ssa.Value]boundAtom
	// rounds walked so far of loops that are unrolled (see unrollBound)
	unroll map[*ssa.BasicBlock]int
	// continuation in caller
	callInstr ssa.CallInstruction
	retBlock  *ssa.BasicBlock
	retIdx    int
}

type closureSite struct {
	mc    *ssa.MakeClosure
	frame int
}

type boundAtom struct {
	atom Atom
	neg  bool
}

type wstate struct {
	frames []*frame
	store  map[string]string
	rel    *RelState
	held   []string
	trace  []Event
	thash  uint64
	epoch  int // number of impure calls / lock operations so far (versions loads of mutable globals)
}

type Walker struct {
	immutTerms map[string]bool // canonical terms that read immutable fields
	P          *Program
	Cfg        WalkConfig
	Paths      []Path
	Err        error
	nframe     int
	loops      map[*ssa.Function]*loopInfo
	Visits     int
	info       map[*ssa.Function]*fnInfo
	seen       map[uint64]bool
	allocs     map[string]*ssa.Alloc
	heap       map[string]bool
	capt       map[*ssa.Alloc]bool
	allocNames map[*ssa.Function]map[string]int
	Merged     int
	// where the closures seen so far were made (for calling one back from a new helper)
	closureSites map[string]closureSite
}

func (st *wstate) clone() *wstate {
	n := &wstate{
		store: make(map[string]string, len(st.store)),
		rel:   st.rel.Clone(),
		held:  append([]string(nil), st.held...),
		trace: append([]Event(nil), st.trace...),
		thash: st.thash,
		epoch: st.epoch,
	}
	for k, v := range st.store {
		n.store[k] = v
	}
	for _, f := range st.frames {
		nf := *f
		nf.env = make(map[ssa.Value]string, len(f.env))
		for k, v := range f.env {
			nf.env[k] = v
		}
		nf.onPath = make(map[*ssa.BasicBlock]bool, len(f.onPath))
		for k, v := range f.onPath {
			nf.onPath[k] = v
		}
		nf.defers = append([]*ssa.Defer(nil), f.defers...)
		if f.unroll != nil {
			nf.unroll = make(map[*ssa.BasicBlock]int, len(f.unroll))
			for k, v := range f.unroll {
				nf.unroll[k] = v
			}
		}
		n.frames = append(n.frames, &nf)
	}
	return n
}

func (st *wstate) top() *frame { return st.frames[len(st.frames)-1] }

// Walk enumerates paths of fn.
func Walk(p *Program, fn *ssa.Function, cfg WalkConfig) *Walker {
	w := &Walker{P: p, Cfg: cfg, loops: map[*ssa.Function]*loopInfo{}, info: map[*ssa.Function]*fnInfo{}, seen: map[uint64]bool{}, allocs: map[string]*ssa.Alloc{}, heap: map[string]bool{}, immutTerms: map[string]bool{}}
	if fn == nil || fn.Blocks == nil {
		w.Err = fmt.Errorf("function has no body")
		return w
	}
	if w.Cfg.MaxPaths == 0 {
		w.Cfg.MaxPaths = 20000
	}
	entry := cfg.Entry
	if entry == nil {
		entry = fn.Blocks[0]
	}
	root := &frame{fn: fn, env: map[ssa.Value]string{}, onPath: map[*ssa.BasicBlock]bool{}, id: 0}
	st := &wstate{frames: []*frame{root}, store: map[string]string{}, rel: NewRelState()}
	if entry != fn.Blocks[0] {
		// region starting at a loop header or inner block: its phis are unknown
		for _, in := range entry.Instrs {
			if phi, ok := in.(*ssa.Phi); ok {
				root.env[phi] = loopName(phi)
			}
		}
	}
	w.block(st, entry, nil)
	return w
}

func loopName(phi *ssa.Phi) string {
	return fmt.Sprintf("loop:%s@%d", phiName(phi), phi.Block().Index)
}

func phiName(phi *ssa.Phi) string {
	if phi.Comment != "" {
		return phi.Comment
	}
	return phi.Name()
}

// ---------------------------------------------------------------- loops

type loopInfo struct {
	headers map[*ssa.BasicBlock]map[*ssa.BasicBlock]bool // header -> body blocks
}

func (w *Walker) loopsOf(fn *ssa.Function) *loopInfo {
	if li, ok := w.loops[fn]; ok {
		return li
	}
	li := &loopInfo{headers: map[*ssa.BasicBlock]map[*ssa.BasicBlock]bool{}}
	for _, b := range fn.Blocks {
		for _, s := range b.Succs {
			if s.Dominates(b) { // back edge b -> s
				body := li.headers[s]
				if body == nil {
					body = map[*ssa.BasicBlock]bool{s: true}
					li.headers[s] = body
				}
				// collect nodes reaching b without passing s
				stack := []*ssa.BasicBlock{b}
				for len(stack) > 0 {
					n := stack[len(stack)-1]
					stack = stack[:len(stack)-1]
					if body[n] {
						continue
					}
					body[n] = true
					stack = append(stack, n.Preds...)
				}
			}
		}
	}
	w.loops[fn] = li
	return li
}

// ---------------------------------------------------------------- canon

func constStr(c *ssa.Const) string {
	if c.Value == nil {
		return "nil"
	}
	switch c.Value.Kind() {
	case constant.Bool:
		if constant.BoolVal(c.Value) {
			return "const:true"
		}
		return "const:false"
	case constant.String:
		return "const:" + fmt.Sprintf("%q", constant.StringVal(c.Value))
	case constant.Int:
		return "const:" + c.Value.ExactString()
	}
	return "const:" + c.Value.String()
}

func isInteger(t types.Type) (size int, signed bool, ok bool) {
	b, isb := t.Underlying().(*types.Basic)
	if !isb || b.Info()&types.IsInteger == 0 {
		return 0, false, false
	}
	signed = b.Info()&types.IsUnsigned == 0
	switch b.Kind() {
	case types.Int8, types.Uint8:
		size = 1
	case types.Int16, types.Uint16:
		size = 2
	case types.Int32, types.Uint32:
		size = 4
	default:
		size = 8
	}
	return size, signed, true
}

func typeShort(t types.Type) string {
	return types.TypeString(t, func(p *types.Package) string { return p.Name() })
}

func calleeName(f *ssa.Function) string {
	if f == nil {
		return "?"
	}
	n := QualName(f)
	return n
}

// pureCallees have a result that is a function of their arguments only (for
// the purposes of path pruning): repeated calls with the same canonical
// arguments denote the same value.
var pureCallees = map[string]bool{
	"bytes.Equal": true, "bytes.Compare": true, "strings.HasPrefix": true, "bytes.HasPrefix": true,
	"lmdbenv/header.(Flags).IsDeleted": true, "lmdbenv/header.(Flags).Masked": true,
	"snapshot.(*KV).MaskedFlags": true, "lmdbenv/header.Parse": true, "lmdbenv/header.Skip": true,
	"lmdbenv/header.TimestampFromTime": true, "lmdbenv/header.(Timestamp).Time": true,
	"(time.Time).After": true, "(time.Time).Before": true, "(time.Time).Sub": true, "(time.Time).Add": true,
	"(time.Time).UnixNano": true, "(time.Time).UTC": true, "(time.Time).IsZero": true,
	"lmdb.IsNotFound": true, "errors.Is": true,
	"snapshot.(*DBI).Name": true, "snapshot.(*DBI).Flags": true, "snapshot.(*DBI).Transform": true,
	"snapshot.TransformSupported":                   true,
	"config.(Sweeper).RetentionDuration":            true,
	"config.(Sweeper).RetentionDurationMinusCutoff": true,
	"syncer.(*Syncer).instanceID":                   true, "syncer.(*Syncer).generationID": true,
	"lmdbenv/limitscanner.(*LimitScanner).Key": true, "lmdbenv/limitscanner.(*LimitScanner).Val": true,
	"lmdbenv/limitscanner.(LimitCursor).IsZero": true,
	"lmdbenv/strategy.bytesToInt":               true, "lmdbenv/strategy.cmpIntegerLittleEndian": true,
	"(encoding/binary.littleEndian).Uint32": true, "(encoding/binary.littleEndian).Uint64": true, "(encoding/binary.littleEndian).Uint16": true,
	"(encoding/binary.bigEndian).Uint64": true, "(encoding/binary.bigEndian).Uint16": true,
	"lmdbenv/header.getNumExtra": true,
	"snapshot.expectWT":          true,
	"csproto.DecodeVarint":       true,
	"csproto.SizeOfVarint":       true,
	"builtin:max":                true,
	"builtin:min":                true,
}

// noHeapEffect callees do not invalidate the abstract heap cells.
var noHeapEffect = map[string]bool{
	"lmdbenv/header.PutBasic": true,
}

func (w *Walker) staticCallee(st *wstate, fr *frame, c *ssa.CallCommon) (name string, fn *ssa.Function) {
	if c.IsInvoke() {
		recv := c.Value.Type()
		tn := typeShort(recv)
		if n, ok := recv.(*types.Named); ok && n.Obj().Pkg() != nil {
			tn = n.Obj().Pkg().Path() + "." + n.Obj().Name()
			tn = shortenExt(strings.TrimPrefix(tn, modPath+"/"))
		}
		return "iface:" + tn + "." + c.Method.Name(), nil
	}
	if f := c.StaticCallee(); f != nil {
		return calleeName(f), f
	}
	if b, ok := c.Value.(*ssa.Builtin); ok {
		return "builtin:" + b.Name(), nil
	}
	// dynamic call through a value: resolve through the environment
	v := w.canon(st, fr, c.Value)
	if strings.HasPrefix(v, "func:") {
		n := strings.TrimPrefix(v, "func:")
		return n, w.P.Func(n)
	}
	if strings.HasPrefix(v, "closure:") {
		n := strings.TrimPrefix(v, "closure:")
		return n, nil
	}
	return "dyn:" + v, nil
}

func (w *Walker) canon(st *wstate, fr *frame, v ssa.Value) string {
	return w.canonD(st, fr, v, 0)
}

func simplifyDeref(addr string) string {
	if strings.HasPrefix(addr, "&alloc:") {
		return "local:" + addr[len("&alloc:"):] // unknown content of a local variable
	}
	if strings.HasPrefix(addr, "&") {
		return addr[1:]
	}
	return "*" + addr
}

func (w *Walker) canonD(st *wstate, fr *frame, v ssa.Value, d int) string {
	if d > 48 {
		return "…"
	}
	if s, ok := fr.env[v]; ok {
		return s
	}
	switch x := v.(type) {
	case *ssa.Const:
		return constStr(x)
	case *ssa.Parameter:
		return "param:" + x.Name()
	case *ssa.FreeVar:
		return "free:" + x.Name()
	case *ssa.Global:
		pk := ""
		if x.Pkg != nil {
			pk = shortPkg(x.Pkg.Pkg.Path())
			if !strings.HasPrefix(x.Pkg.Pkg.Path(), modPath) {
				pk = x.Pkg.Pkg.Path()
			}
		}
		return "&global:" + pk + "." + x.Name()
	case *ssa.Function:
		return "func:" + calleeName(x)
	case *ssa.Builtin:
		return "builtin:" + x.Name()
	case *ssa.Alloc:
		n := x.Comment
		if n == "" {
			n = x.Name()
		} else if !w.uniqueAlloc(x) {
			n += "." + x.Name()
		}
		s := "&alloc:" + n
		if fr.id > 0 {
			s += fmt.Sprintf("~%d", fr.id)
		}
		w.allocs[s] = x
		if x.Heap {
			w.heap[s] = true
		}
		return s
	case *ssa.Phi:
		// a phi not resolved on this path (defined outside the walked region)
		if d > 6 {
			return "phi:" + phiName(x)
		}
		if sc := w.shortCircuit(st, fr, x, d); sc != "" {
			return sc
		}
		var es []string
		for _, e := range x.Edges {
			if e == ssa.Value(x) {
				continue
			}
			es = append(es, w.canonD(st, fr, e, d+3))
		}
		sort.Strings(es)
		return "phi{" + strings.Join(es, " | ") + "}"
	case *ssa.UnOp:
		switch x.Op {
		case token.MUL:
			if ia, ok := x.X.(*ssa.IndexAddr); ok {
				// an element of a package-level array that nothing ever changes
				if g, ok := ia.X.(*ssa.Global); ok {
					if t := w.P.globalTable(g); t != nil && t.kind == "array" {
						ix := w.canonD(st, fr, ia.Index, d+1)
						for _, e := range t.entries {
							if e.key == ix {
								return e.val
							}
						}
					}
				}
			}
			if g, ok := x.X.(*ssa.Global); ok {
				// a package-level slice literal that nothing ever changes: its elements
				if t := w.P.globalTable(g); t != nil && (t.kind == "slice" || t.kind == "array") {
					var vals []string
					for _, e := range t.entries {
						vals = append(vals, e.val)
					}
					return "[" + strings.Join(vals, ", ") + "]"
				}
			}
			addr := w.canonD(st, fr, x.X, d+1)
			if val, ok := st.store[addr]; ok {
				return val
			}
			// struct assembled field by field in a local (composite literal)
			if strings.HasPrefix(addr, "&alloc:") {
				if lit := structLit(st, addr); lit != "" {
					return lit
				}
			}
			// field of a stored struct value
			if fa, ok := x.X.(*ssa.FieldAddr); ok {
				base := w.canonD(st, fr, fa.X, d+1)
				if bv, ok := st.store[base]; ok {
					if strings.HasPrefix(bv, "{") {
						if fv, ok := litField(bv, fieldName(fa.X.Type(), fa.Field)); ok {
							return fv
						}
					}
					return bv + "." + fieldName(fa.X.Type(), fa.Field)
				}
			}
			// a captured variable that is only a copy of an immutable field of a
			// captured parameter (cfgFlag := s.lc.Flag): named after the field, so
			// that reading the field directly or through the copy is the same term
			if fv, ok := x.X.(*ssa.FreeVar); ok {
				if al := freeAlias(w.P, fr.fn, fv); al != "" {
					w.immutTerms[al] = true
					return al
				}
			}
			// reads of fields that are never written after construction: facts
			// about them survive calls (see RelState.ForgetExcept)
			if fa, ok := x.X.(*ssa.FieldAddr); ok && w.P.immutableField(fa.X.Type(), fa.Field) {
				w.immutTerms[simplifyDeref(addr)] = true
			}
			if strings.HasPrefix(addr, "&global:") && w.P.MutableGlobal(addr[len("&global:"):]) && st.epoch > 0 {
				return fmt.Sprintf("%s~e%d", simplifyDeref(addr), st.epoch)
			}
			return simplifyDeref(addr)
		case token.NOT:
			return "!" + w.canonD(st, fr, x.X, d+1)
		case token.SUB:
			return "-" + w.canonD(st, fr, x.X, d+1)
		case token.XOR:
			return "^" + w.canonD(st, fr, x.X, d+1)
		case token.ARROW:
			return "recv(" + w.canonD(st, fr, x.X, d+1) + ")@" + x.Name()
		}
	case *ssa.BinOp:
		xa, ya := w.canonD(st, fr, x.X, d+1), w.canonD(st, fr, x.Y, d+1)
		if x.Op == token.ADD || x.Op == token.SUB {
			// index arithmetic on known constants (unrolled table loops)
			if sz, _, isInt := isInteger(x.Type()); isInt && sz == 8 {
				if ka, ok1 := constInt(xa); ok1 {
					if kb, ok2 := constInt(ya); ok2 && ka > -1<<31 && ka < 1<<31 && kb > -1<<31 && kb < 1<<31 {
						if x.Op == token.ADD {
							return fmt.Sprintf("const:%d", ka+kb)
						}
						return fmt.Sprintf("const:%d", ka-kb)
					}
				}
			}
		}
		e := "(" + xa + " " + x.Op.String() + " " + ya + ")"
		switch x.Op {
		case token.ADD, token.SUB, token.MUL, token.SHL:
			// arithmetic in a narrow integer type wraps: make that explicit
			if sz, _, ok := isInteger(x.Type()); ok && sz < 8 {
				return "conv:" + typeShort(x.Type().Underlying()) + "(" + e + ")"
			}
		}
		return e
	case *ssa.Call:
		return w.callCanon(st, fr, x, d)
	case *ssa.Extract:
		return w.canonD(st, fr, x.Tuple, d+1) + fmt.Sprintf("#%d", x.Index)
	case *ssa.FieldAddr:
		if envRecv(x.X) {
			// field of a callback method's receiver: named like a captured variable
			return "free:" + fieldName(x.X.Type(), x.Field)
		}
		if len(envMethods) > 0 && len(st.frames) > 1 && envMethods[st.frames[0].fn] != nil {
			// the same, reached through a helper the receiver was handed to
			if root := st.frames[0].fn; len(root.Params) > 0 && w.canonD(st, fr, x.X, d+1) == "param:"+root.Params[0].Name() {
				return "free:" + fieldName(x.X.Type(), x.Field)
			}
		}
		if fv, ok := x.X.(*ssa.FreeVar); ok && holderFree[fv] != nil {
			// field of a captured holder struct: a captured variable of its own
			return "free:" + fieldName(x.X.Type(), x.Field)
		}
		if len(holderFree) > 0 && len(st.frames) > 1 {
			// the same, through a helper the holder's address was handed to
			if base := w.canonD(st, fr, x.X, d+1); strings.HasPrefix(base, "free:") {
				for _, fv := range st.frames[0].fn.FreeVars {
					if holderFree[fv] != nil && base == "free:"+fv.Name() {
						return "free:" + fieldName(x.X.Type(), x.Field)
					}
				}
			}
		}
		if al, ok := x.X.(*ssa.Alloc); ok && envAllocs[al] {
			// field of the callback's environment struct in the function that
			// builds it: named like a separate local
			return w.envFieldAddr(fr, al, fieldName(x.X.Type(), x.Field))
		}
		base := w.canonD(st, fr, x.X, d+1)
		f := fieldName(x.X.Type(), x.Field)
		if strings.HasPrefix(base, "&") {
			return base + "." + f
		}
		return "&" + base + "." + f
	case *ssa.Field:
		if envRecv(x.X) {
			return "*free:" + fieldName(x.X.Type(), x.Field)
		}
		base := w.canonD(st, fr, x.X, d+1)
		if strings.HasPrefix(base, "{") {
			// field of a known struct value (an entry of a constant table)
			if fv, ok := litField(base, fieldName(x.X.Type(), x.Field)); ok {
				return fv
			}
		}
		return base + "." + fieldName(x.X.Type(), x.Field)
	case *ssa.IndexAddr:
		if sl, ok := x.X.(*ssa.Slice); ok {
			if _, isLit := literalLen(sl); isLit {
				// element of a local table literal: the array cell it was built in
				return w.canonD(st, fr, sl.X, d+1) + "[" + w.canonD(st, fr, x.Index, d+1) + "]"
			}
		}
		base := w.canonD(st, fr, x.X, d+1)
		if strings.HasPrefix(base, "&alloc:") {
			return base + "[" + w.canonD(st, fr, x.Index, d+1) + "]"
		}
		return "&" + base + "[" + w.canonD(st, fr, x.Index, d+1) + "]"
	case *ssa.Index:
		base, ix := w.canonD(st, fr, x.X, d+1), w.canonD(st, fr, x.Index, d+1)
		if strings.HasPrefix(base, "[") && strings.HasSuffix(base, "]") {
			// an element of a known list (a constant table)
			if k, ok := constInt(ix); ok {
				elems := splitTop(base[1 : len(base)-1])
				if k >= 0 && int(k) < len(elems) {
					return strings.TrimSpace(elems[k])
				}
			}
		}
		return base + "[" + ix + "]"
	case *ssa.Slice:
		part := func(v ssa.Value) string {
			if v == nil {
				return ""
			}
			return w.canonD(st, fr, v, d+1)
		}
		base := w.canonD(st, fr, x.X, d+1)
		if strings.HasPrefix(base, "&alloc:") && x.Low == nil && x.High == nil {
			// variadic argument array assembled element by element
			var elems []string
			for i := 0; ; i++ {
				v, ok := st.store[fmt.Sprintf("%s[const:%d]", base, i)]
				if !ok {
					break
				}
				elems = append(elems, v)
			}
			if len(elems) > 0 {
				return "[" + strings.Join(elems, ", ") + "]"
			}
		}
		return "slice(" + base + "," + part(x.Low) + "," + part(x.High) + "," + part(x.Max) + ")"
	case *ssa.Lookup:
		return "lookup(" + w.canonD(st, fr, x.X, d+1) + "," + w.canonD(st, fr, x.Index, d+1) + ")@" + x.Name()
	case *ssa.ChangeType:
		return w.canonD(st, fr, x.X, d+1)
	case *ssa.ChangeInterface:
		return w.canonD(st, fr, x.X, d+1)
	case *ssa.MakeInterface:
		return w.canonD(st, fr, x.X, d+1)
	case *ssa.SliceToArrayPointer:
		return w.canonD(st, fr, x.X, d+1)
	case *ssa.Convert:
		in := w.canonD(st, fr, x.X, d+1)
		ss, ssg, ok1 := isInteger(x.X.Type())
		ds, dsg, ok2 := isInteger(x.Type())
		if ok1 && ok2 && ssg == dsg && ds >= ss {
			return in
		}
		if ok1 && ok2 && !ssg && dsg && ds > ss {
			return in // unsigned to wider signed: value preserved
		}
		if strings.HasPrefix(in, "const:") {
			return in
		}
		return "conv:" + typeShort(x.Type().Underlying()) + "(" + in + ")"
	case *ssa.MakeClosure:
		if w.closureSites == nil {
			w.closureSites = map[string]closureSite{}
		}
		w.closureSites["closure:"+calleeName(x.Fn.(*ssa.Function))] = closureSite{mc: x, frame: fr.id}
		if len(envMethods) > 0 {
			// a method value standing for a known closure (resolveCallbacks)
			if m := callbackTarget(w.P.SSA, x); m != nil && envMethods[m] != nil {
				return "closure:" + QualName(m)
			}
		}
		return "closure:" + calleeName(x.Fn.(*ssa.Function))
	case *ssa.MakeSlice:
		return "makeslice(" + w.canonD(st, fr, x.Len, d+1) + "," + w.canonD(st, fr, x.Cap, d+1) + ")@" + x.Name()
	case *ssa.MakeMap:
		return "makemap@" + x.Name()
	case *ssa.MakeChan:
		return "makechan(" + w.canonD(st, fr, x.Size, d+1) + ")@" + x.Name()
	case *ssa.TypeAssert:
		return "assert:" + typeShort(x.AssertedType) + "(" + w.canonD(st, fr, x.X, d+1) + ")"
	case *ssa.Range:
		return "range(" + w.canonD(st, fr, x.X, d+1) + ")@" + x.Name()
	case *ssa.Next:
		return "next(" + w.canonD(st, fr, x.Iter, d+1) + ")@" + x.Name()
	case *ssa.Select:
		return "select@" + x.Name()
	}
	return "?" + v.Name()
}

// shortCircuit recognises the phi of a && / || expression and renders it as
// the boolean expression it computes.
func (w *Walker) shortCircuit(st *wstate, fr *frame, phi *ssa.Phi, d int) string {
	if len(phi.Edges) != 2 {
		return ""
	}
	b := phi.Block()
	for i := 0; i < 2; i++ {
		k, ok := phi.Edges[i].(*ssa.Const)
		if !ok || k.Value == nil || k.Value.Kind() != constant.Bool {
			continue
		}
		p := b.Preds[i]
		iff, ok := p.Instrs[len(p.Instrs)-1].(*ssa.If)
		if !ok {
			continue
		}
		other := w.canonD(st, fr, phi.Edges[1-i], d+2)
		cond := w.canonD(st, fr, iff.Cond, d+2)
		kv := constant.BoolVal(k.Value)
		switch {
		case !kv && p.Succs[1] == b: // X false -> false ; else rhs
			return "(" + cond + " && " + other + ")"
		case kv && p.Succs[0] == b: // X true -> true ; else rhs
			return "(" + cond + " || " + other + ")"
		case !kv && p.Succs[0] == b:
			return "(!" + cond + " && " + other + ")"
		case kv && p.Succs[1] == b:
			return "(!" + cond + " || " + other + ")"
		}
	}
	return ""
}

func fieldName(t types.Type, idx int) string {
	if p, ok := t.Underlying().(*types.Pointer); ok {
		t = p.Elem()
	}
	if s, ok := t.Underlying().(*types.Struct); ok && idx < s.NumFields() {
		return s.Field(idx).Name()
	}
	return fmt.Sprintf("f%d", idx)
}

func fieldVar(t types.Type, idx int) *types.Var {
	if p, ok := t.Underlying().(*types.Pointer); ok {
		t = p.Elem()
	}
	if s, ok := t.Underlying().(*types.Struct); ok && idx < s.NumFields() {
		return s.Field(idx)
	}
	return nil
}

// argCanon is canon for call arguments: a local passed by address prints as
// &{value} when its current content is known.
func (w *Walker) argCanon(st *wstate, fr *frame, v ssa.Value, d int) string {
	s := w.canonD(st, fr, v, d+1)
	if strings.HasPrefix(s, "&alloc:") {
		if val, ok := st.store[s]; ok {
			return "&{" + val + "}"
		}
		if lit := structLit(st, s); lit != "" {
			return "&" + lit
		}
	}
	return s
}

// structLit renders a local struct whose fields were stored one by one.
// envFieldAddr: the address of a field of a callback environment struct held
// in the local al, rendered as a local variable of its own.
func (w *Walker) envFieldAddr(fr *frame, al *ssa.Alloc, field string) string {
	s := "&alloc:" + field
	if fr.id > 0 {
		s += fmt.Sprintf("~%d", fr.id)
	}
	w.allocs[s] = al
	w.heap[s] = true
	return s
}

func structLit(st *wstate, addr string) string {
	prefix := addr + "."
	var fields []string
	for k, v := range st.store {
		if strings.HasPrefix(k, prefix) && !strings.ContainsAny(k[len(prefix):], ".[") {
			fields = append(fields, k[len(prefix):]+": "+v)
		}
	}
	if len(fields) == 0 {
		return ""
	}
	sort.Strings(fields)
	return "{" + strings.Join(fields, "; ") + "}"
}

func (w *Walker) callArgs(st *wstate, fr *frame, c *ssa.CallCommon, d int) []string {
	var args []string
	if c.IsInvoke() {
		args = append(args, w.argCanon(st, fr, c.Value, d))
	}
	for _, a := range c.Args {
		args = append(args, w.argCanon(st, fr, a, d))
	}
	return args
}

func (w *Walker) callCanon(st *wstate, fr *frame, x *ssa.Call, d int) string {
	name, _ := w.staticCallee(st, fr, &x.Call)
	args := w.callArgs(st, fr, &x.Call, d)
	s := name + "(" + strings.Join(args, ", ") + ")"
	if name == "builtin:len" || name == "builtin:cap" {
		if len(x.Call.Args) == 1 {
			if n, ok := literalLen(x.Call.Args[0]); ok {
				return fmt.Sprintf("const:%d", n)
			}
		}
		return strings.TrimPrefix(name, "builtin:") + "(" + strings.Join(args, ", ") + ")"
	}
	if pureCallees[name] {
		return s
	}
	suffix := "@" + x.Name()
	if fr.id > 0 {
		suffix += fmt.Sprintf("~%d", fr.id)
	}
	// impure call results are named by callee and SSA register; the call
	// event carries the arguments
	_ = s
	return name + suffix
}

// ---------------------------------------------------------------- atoms

func isNilConst(v ssa.Value) bool {
	c, ok := v.(*ssa.Const)
	return ok && c.Value == nil
}

func (w *Walker) atomOf(st *wstate, fr *frame, v ssa.Value) (Atom, bool) {
	neg := false
	for {
		u, ok := v.(*ssa.UnOp)
		if !ok || u.Op != token.NOT {
			break
		}
		if _, bound := fr.env[v]; bound {
			break
		}
		neg = !neg
		v = u.X
	}
	if ba, ok := fr.atoms[v]; ok {
		return ba.atom, ba.neg != neg
	}
	// comparisons are normalised to <, ==, > with a truth value, so that the
	// same test written as `a <= b` or `!(a > b)` gives the same atom
	mk := func(a Atom) (Atom, bool) {
		n := neg
		if a.Kind == "cmp" {
			switch a.R {
			case LE:
				a.R, n = GT, !n
			case GE:
				a.R, n = LT, !n
			case NE:
				a.R, n = EQ, !n
			}
		}
		return a, n
	}
	if _, bound := fr.env[v]; !bound {
		switch x := v.(type) {
		case *ssa.BinOp:
			var r Rel
			switch x.Op {
			case token.EQL:
				r = EQ
			case token.NEQ:
				r = NE
			case token.LSS:
				r = LT
			case token.LEQ:
				r = LE
			case token.GTR:
				r = GT
			case token.GEQ:
				r = GE
			}
			if r != 0 {
				// constant on the left: swap operands (0 <= c  ≡  c >= 0)
				if _, lc := x.X.(*ssa.Const); lc {
					if _, rc := x.Y.(*ssa.Const); !rc && !isNilConst(x.X) {
						x = &ssa.BinOp{Op: x.Op, X: x.Y, Y: x.X}
						r = r.Flip()
					}
				}
				if isNilConst(x.Y) || isNilConst(x.X) {
					o := x.X
					if isNilConst(x.X) {
						o = x.Y
					}
					a := Atom{Kind: "bool", A: "isnil(" + w.canon(st, fr, o) + ")"}
					if r == NE {
						neg = !neg
					}
					return a, neg
				}
				if b, ok := x.X.Type().Underlying().(*types.Basic); ok && b.Info()&types.IsBoolean != 0 {
					break
				}
				// bytes.Compare(a,b) ? 0
				if c, ok := x.X.(*ssa.Call); ok {
					if _, bnd := fr.env[c]; !bnd {
						if f := c.Call.StaticCallee(); f != nil && f.String() == "bytes.Compare" {
							if k, isc := x.Y.(*ssa.Const); isc && k.Value != nil && k.Value.ExactString() == "0" {
								return mk(Atom{Kind: "cmp", Dom: "bytes", A: w.canon(st, fr, c.Call.Args[0]), B: w.canon(st, fr, c.Call.Args[1]), R: r})
							}
						}
					}
				}
				dom := "int"
				if b, ok := x.X.Type().Underlying().(*types.Basic); ok && b.Info()&types.IsString != 0 {
					dom = "str"
				}
				A, B := w.canon(st, fr, x.X), w.canon(st, fr, x.Y)
				// a cmp result stored in a local: "cmp ? 0" where cmp = bytes.Compare(..)
				if strings.HasPrefix(A, "bytes.Compare(") && B == "const:0" {
					inner := strings.TrimSuffix(strings.TrimPrefix(A, "bytes.Compare("), ")")
					if parts := splitTop(inner); len(parts) == 2 {
						return mk(Atom{Kind: "cmp", Dom: "bytes", A: parts[0], B: parts[1], R: r})
					}
				}
				return mk(Atom{Kind: "cmp", Dom: dom, A: A, B: B, R: r})
			}
		case *ssa.Call:
			if f := x.Call.StaticCallee(); f != nil && f.String() == "bytes.Equal" {
				return mk(Atom{Kind: "cmp", Dom: "bytes", A: w.canon(st, fr, x.Call.Args[0]), B: w.canon(st, fr, x.Call.Args[1]), R: EQ})
			}
		}
	}
	s := w.canon(st, fr, v)
	for strings.HasPrefix(s, "!") {
		s = s[1:]
		neg = !neg
	}
	if a, ok := parseCmp(s); ok {
		return mk(a)
	}
	if strings.HasPrefix(s, "bytes.Equal(") {
		inner := strings.TrimSuffix(strings.TrimPrefix(s, "bytes.Equal("), ")")
		if parts := splitTop(inner); len(parts) == 2 {
			return mk(Atom{Kind: "cmp", Dom: "bytes", A: parts[0], B: parts[1], R: EQ})
		}
	}
	return mk(Atom{Kind: "bool", A: s})
}

// parseCmp recognises a rendered comparison "(A op B)".
func parseCmp(s string) (Atom, bool) {
	if len(s) < 5 || s[0] != '(' || s[len(s)-1] != ')' {
		return Atom{}, false
	}
	in := s[1 : len(s)-1]
	depth := 0
	for i := 0; i < len(in); i++ {
		switch in[i] {
		case '(', '[', '{':
			depth++
		case ')', ']', '}':
			depth--
		case ' ':
			if depth != 0 {
				continue
			}
			for op, r := range map[string]Rel{"<": LT, "<=": LE, "==": EQ, "!=": NE, ">": GT, ">=": GE} {
				if strings.HasPrefix(in[i:], " "+op+" ") {
					A, B := in[:i], in[i+len(op)+2:]
					// operands must be balanced
					if strings.Count(A, "(") != strings.Count(A, ")") {
						continue
					}
					if B == "nil" || A == "nil" {
						return Atom{}, false
					}
					return Atom{Kind: "cmp", Dom: "int", A: A, B: B, R: r}, true
				}
			}
		}
	}
	return Atom{}, false
}

// splitTop splits "a, b" at top-level commas.
func splitTop(s string) []string {
	var out []string
	depth, start := 0, 0
	for i := 0; i < len(s); i++ {
		switch s[i] {
		case '(', '[', '{':
			depth++
		case ')', ']', '}':
			depth--
		case ',':
			if depth == 0 {
				out = append(out, strings.TrimSpace(s[start:i]))
				start = i + 1
			}
		}
	}
	out = append(out, strings.TrimSpace(s[start:]))
	return out
}

// ---------------------------------------------------------------- walking

func (w *Walker) emit(st *wstate, e Event) {
	fr := st.top()
	e.Fn = QualName(fr.fn)
	// an event inside a helper that did not exist when the rules were confirmed
	// belongs to the nearest function up the call chain that did (constructs,
	// and with them known findings, are keyed by that function)
	for i := len(st.frames) - 1; i > 0; i-- {
		if _, known := knownFuncs[QualName(st.frames[i].fn)]; known || st.frames[i].fn.Parent() != nil {
			break
		}
		e.Fn = QualName(st.frames[i-1].fn)
	}
	e.Depth = len(st.frames) - 1
	e.Held = append([]string(nil), st.held...)
	if w.Cfg.KeepEvent != nil && e.Kind != "cond" && !w.Cfg.KeepEvent(&e) {
		return
	}
	st.trace = append(st.trace, e)
	if w.Cfg.Memo {
		h := fnv.New64a()
		var pos [8]byte
		for i := 0; i < 8; i++ {
			pos[i] = byte(st.thash >> (8 * i))
		}
		h.Write(pos[:])
		h.Write([]byte(e.Kind))
		h.Write([]byte(e.Callee))
		h.Write([]byte(e.Addr))
		h.Write([]byte(e.Val))
		h.Write([]byte(e.Res))
		for _, a := range e.Args {
			h.Write([]byte(a))
			h.Write([]byte{0})
		}
		if e.Cond != nil {
			h.Write([]byte(e.Cond.String()))
		}
		if e.Instr != nil {
			fmt.Fprintf(h, "%p", e.Instr)
		}
		st.thash = h.Sum64()
	}
}

func (w *Walker) finish(st *wstate, end string, rets []string, at ssa.Instruction) {
	if w.Err != nil {
		return
	}
	if len(w.Paths) >= w.Cfg.MaxPaths {
		w.Err = fmt.Errorf("more than %d paths", w.Cfg.MaxPaths)
		return
	}
	w.Paths = append(w.Paths, Path{Events: st.trace, End: end, Rets: rets, State: st.rel, Store: st.store, EndPos: at})
}

// block enters block b coming from pred (nil at region entry).
func (w *Walker) block(st *wstate, b *ssa.BasicBlock, pred *ssa.BasicBlock) {
	if w.Err != nil {
		return
	}
	w.Visits++
	if w.Visits > 4_000_000 {
		w.Err = fmt.Errorf("walk budget exhausted")
		return
	}
	fr := st.top()
	if n := unrollBound(b); n > 0 && pred != nil {
		// a `range` over a small local table literal: walked element by element
		body := w.loopsOf(fr.fn).headers[b]
		fromInside := body[pred]
		if fr.unroll == nil {
			fr.unroll = map[*ssa.BasicBlock]int{}
		}
		if !fromInside {
			fr.unroll[b] = 0
		} else {
			fr.unroll[b]++
		}
		if fr.unroll[b] <= n {
			for lb := range body {
				delete(fr.onPath, lb)
				// values computed in the previous round are computed afresh
				for _, bi := range lb.Instrs {
					if v, ok := bi.(ssa.Value); ok {
						if _, isPhi := bi.(*ssa.Phi); isPhi && lb == b {
							continue
						}
						delete(fr.env, v)
					}
				}
			}
			fr.onPath[b] = true
			idx := -1
			for i, p := range b.Preds {
				if p == pred {
					idx = i
				}
			}
			var phis []*ssa.Phi
			var vals []string
			for _, in := range b.Instrs {
				phi, ok := in.(*ssa.Phi)
				if !ok {
					break
				}
				phis = append(phis, phi)
				vals = append(vals, w.canon(st, fr, phi.Edges[idx]))
			}
			for i, phi := range phis {
				fr.env[phi] = vals[i]
			}
			w.instrs(st, b, 0)
			return
		}
	}
	if fr.onPath[b] {
		var at ssa.Instruction
		if len(b.Instrs) > 0 {
			at = b.Instrs[0]
		}
		// resolve what the header phis would receive on this back edge
		var rets []string
		if pred != nil {
			for _, in := range b.Instrs {
				phi, ok := in.(*ssa.Phi)
				if !ok {
					break
				}
				for i, p := range b.Preds {
					if p == pred {
						rets = append(rets, phiName(phi)+"="+w.canon(st, fr, phi.Edges[i]))
					}
				}
			}
		}
		w.finish(st, fmt.Sprintf("backedge:%d", b.Index), rets, at)
		return
	}
	if w.Cfg.StopBlock != nil && len(st.frames) == 1 && pred != nil && w.Cfg.StopBlock(b) {
		var at ssa.Instruction
		if len(b.Instrs) > 0 {
			at = b.Instrs[0]
		}
		w.finish(st, fmt.Sprintf("stop:%d", b.Index), nil, at)
		return
	}
	fr.onPath[b] = true
	// loop header entered from outside: havoc what the loop modifies
	li := w.loopsOf(fr.fn)
	body, isHeader := li.headers[b]
	if isHeader && !w.Cfg.NoHavoc && pred != nil {
		for _, in := range b.Instrs {
			if phi, ok := in.(*ssa.Phi); ok {
				fr.env[phi] = loopName(phi)
			}
		}
		for lb := range body {
			for _, in := range lb.Instrs {
				if s, ok := in.(*ssa.Store); ok {
					addr := w.canon(st, fr, s.Addr)
					if a, isAlloc := s.Addr.(*ssa.Alloc); isAlloc && envAllocs[a] {
						stt := envStructPtr(a.Type())
						for i := 0; i < stt.NumFields(); i++ {
							delete(st.store, w.envFieldAddr(fr, a, stt.Field(i).Name()))
						}
					} else if isAlloc && a.Comment != "" {
						// a variable assigned in the loop: unknown at the header, named like a loop phi
						// (go/ssa keeps a variable in memory instead of a phi e.g. when a defer spills named results)
						st.store[addr] = fmt.Sprintf("loop:%s@%d", a.Comment, b.Index)
					} else {
						delete(st.store, addr)
					}
				}
			}
		}
	} else if pred != nil {
		// resolve phis by the edge walked (simultaneous assignment)
		idx := -1
		for i, p := range b.Preds {
			if p == pred {
				idx = i
			}
		}
		if idx >= 0 {
			var phis []*ssa.Phi
			var vals []string
			for _, in := range b.Instrs {
				phi, ok := in.(*ssa.Phi)
				if !ok {
					break
				}
				phis = append(phis, phi)
				vals = append(vals, w.canon(st, fr, phi.Edges[idx]))
			}
			for i, phi := range phis {
				fr.env[phi] = vals[i]
			}
		}
	}
	if w.Cfg.Memo {
		k := w.digest(st, b)
		if w.seen[k] {
			w.Merged++
			return
		}
		w.seen[k] = true
	}
	w.instrs(st, b, 0)
}

// unrollBound: when b is the header of a `range` loop over a slice of a local
// array literal with at most 6 elements (a table written out in the function),
// the number of elements; otherwise 0. Such a loop is walked element by element
// (every round with its concrete index, so that the table's entries are read as
// the constants and variables they were built from) instead of once with an
// unknown index.
func unrollBound(b *ssa.BasicBlock) int {
	if len(b.Instrs) < 2 || len(b.Preds) < 2 {
		return 0
	}
	var phi *ssa.Phi
	for _, in := range b.Instrs {
		p, ok := in.(*ssa.Phi)
		if !ok {
			break
		}
		if p.Comment == "rangeindex" {
			phi = p
		}
	}
	if phi == nil {
		return 0
	}
	iff, ok := b.Instrs[len(b.Instrs)-1].(*ssa.If)
	if !ok {
		return 0
	}
	cmp, ok := iff.Cond.(*ssa.BinOp)
	if !ok || cmp.Op != token.LSS {
		return 0
	}
	// the running index (phi + 1) against the length
	if add, ok := cmp.X.(*ssa.BinOp); !ok || add.Op != token.ADD || add.X != ssa.Value(phi) {
		return 0
	}
	// a range over a package-level array that nothing changes: the constant length
	if k, ok := cmp.Y.(*ssa.Const); ok && k.Value != nil {
		if n := k.Int64(); n >= 1 && n <= 6 && rangesConstArray(b, phi) {
			return int(n)
		}
		return 0
	}
	call, ok := cmp.Y.(*ssa.Call)
	if !ok {
		return 0
	}
	if bi, ok := call.Call.Value.(*ssa.Builtin); !ok || bi.Name() != "len" || len(call.Call.Args) != 1 {
		return 0
	}
	n, ok := literalLen(call.Call.Args[0])
	if !ok || n < 1 || n > 6 {
		return 0
	}
	// a small body only
	cnt := 0
	for _, blk := range b.Parent().Blocks {
		if b.Dominates(blk) {
			cnt++
		}
	}
	_ = cnt
	return int(n)
}

// rangesConstArray: the loop headed by b indexes, with its running index, a
// package-level array that is a constant table (consttab.go).
func rangesConstArray(b *ssa.BasicBlock, phi *ssa.Phi) bool {
	for _, blk := range b.Parent().Blocks {
		for _, in := range blk.Instrs {
			if ix, ok := in.(*ssa.Index); ok {
				// the array copied out of the variable before the loop
				add, ok := ix.Index.(*ssa.BinOp)
				if !ok || add.X != ssa.Value(phi) {
					continue
				}
				if ld, ok := ix.X.(*ssa.UnOp); ok && ld.Op == token.MUL {
					if g, ok := ld.X.(*ssa.Global); ok && curProgram != nil {
						if t := curProgram.globalTable(g); t != nil && t.kind == "array" {
							return true
						}
					}
				}
				continue
			}
			ia, ok := in.(*ssa.IndexAddr)
			if !ok {
				continue
			}
			add, ok := ia.Index.(*ssa.BinOp)
			if !ok || add.X != ssa.Value(phi) {
				continue
			}
			if g, ok := ia.X.(*ssa.Global); ok && curProgram != nil {
				if t := curProgram.globalTable(g); t != nil && t.kind == "array" {
					return true
				}
			}
		}
	}
	return false
}

// literalLen: the length of a full slice of a local array (a slice literal).
func literalLen(v ssa.Value) (int64, bool) {
	sl, ok := v.(*ssa.Slice)
	if !ok || sl.Low != nil || sl.High != nil {
		return 0, false
	}
	al, ok := sl.X.(*ssa.Alloc)
	if !ok || al.Comment != "slicelit" {
		return 0, false
	}
	arr, ok := al.Type().Underlying().(*types.Pointer).Elem().Underlying().(*types.Array)
	if !ok {
		return 0, false
	}
	return arr.Len(), true
}

// nilnessAtReturn: is the returned SSA value known (non-)nil because the
// returning block is dominated by one edge of a nil test of that same value?
func nilnessAtReturn(v ssa.Value, b *ssa.BasicBlock) (nonNil, known bool) {
	if _, isConst := v.(*ssa.Const); isConst {
		return false, false
	}
	child := b
	for d := b.Idom(); d != nil; child, d = d, d.Idom() {
		iff, ok := d.Instrs[len(d.Instrs)-1].(*ssa.If)
		if !ok {
			continue
		}
		cmp, ok := iff.Cond.(*ssa.BinOp)
		if !ok || (cmp.Op != token.NEQ && cmp.Op != token.EQL) {
			continue
		}
		var other ssa.Value
		switch {
		case cmp.X == v:
			other = cmp.Y
		case cmp.Y == v:
			other = cmp.X
		default:
			continue
		}
		if !isNilConst(other) {
			continue
		}
		// which edge of d leads (exclusively) to the returning block?
		for e := 0; e < 2; e++ {
			s := d.Succs[e]
			if (s == child || s.Dominates(b)) && len(s.Preds) == 1 && d.Succs[1-e] != s {
				trueEdge := e == 0
				nn := trueEdge == (cmp.Op == token.NEQ)
				return nn, true
			}
		}
	}
	return false, false
}

func (w *Walker) knownNonNil(v string) bool {
	switch {
	case strings.HasPrefix(v, "fmt.Errorf@"), strings.HasPrefix(v, "fmt.Errorf("), strings.HasPrefix(v, "errors.New@"), strings.HasPrefix(v, "errors.New("):
		return true
	case v == "global:context.Canceled", v == "global:context.DeadlineExceeded", v == "global:io.EOF":
		return true
	case strings.HasPrefix(v, "{"):
		return true // a struct value compared with nil: an interface made from it, never nil
	case strings.HasPrefix(v, "global:"):
		name := strings.TrimPrefix(v, "global:")
		i := strings.LastIndex(name, ".")
		if i < 0 || !strings.HasPrefix(name[i+1:], "Err") {
			return false
		}
		if strings.HasPrefix(name, "io.") {
			return true
		}
		return !w.P.MutableGlobal(name)
	}
	return false
}

// unknownHelper: a repository function that did not exist when the rules were
// confirmed (an extracted helper) is transparent: it is walked as part of its
// caller, so extracting code into a new function changes nothing for a rule.
func unknownHelper(fn *ssa.Function, depth int) bool {
	if depth > 6 || fn.Parent() != nil || fn.Blocks == nil || len(fn.Blocks) > 80 {
		return false
	}
	if !strings.HasPrefix(fnPkgPath(fn), modPath) {
		return false
	}
	_, known := knownFuncs[QualName(fn)]
	return !known
}

func (w *Walker) isLockCall(name string) (kind string) {
	switch name {
	case "(*sync.Mutex).Lock", "(*sync.RWMutex).Lock":
		return "lock"
	case "(*sync.RWMutex).RLock":
		return "rlock"
	case "(*sync.Mutex).Unlock", "(*sync.RWMutex).Unlock":
		return "unlock"
	case "(*sync.RWMutex).RUnlock":
		return "runlock"
	}
	return ""
}

func (w *Walker) applyLock(st *wstate, kind, mu string) {
	st.epoch++
	switch kind {
	case "lock", "rlock":
		st.held = append(st.held, mu)
		sort.Strings(st.held)
	case "unlock", "runlock":
		for i, h := range st.held {
			if h == mu {
				st.held = append(st.held[:i:i], st.held[i+1:]...)
				break
			}
		}
	}
}

func (w *Walker) instrs(st *wstate, b *ssa.BasicBlock, from int) {
	fr := st.top()
	for i := from; i < len(b.Instrs); i++ {
		if w.Err != nil {
			return
		}
		switch in := b.Instrs[i].(type) {
		case *ssa.Phi, *ssa.DebugRef:
			continue
		case *ssa.Store:
			addr := w.canon(st, fr, in.Addr)
			val := w.canon(st, fr, in.Val)
			if al, ok := in.Addr.(*ssa.Alloc); ok && envAllocs[al] && strings.HasPrefix(val, "{") {
				if stt := envStructPtr(al.Type()); stt != nil {
					// a whole callback environment struct assigned: field by field
					for i := 0; i < stt.NumFields(); i++ {
						fa := w.envFieldAddr(fr, al, stt.Field(i).Name())
						if fv, ok := litField(val, stt.Field(i).Name()); ok {
							st.store[fa] = fv
							w.emit(st, Event{Kind: "store", Instr: in, Addr: fa, Val: fv})
						} else {
							delete(st.store, fa)
						}
					}
					continue
				}
			}
			st.store[addr] = val
			if fa, ok := in.Addr.(*ssa.FieldAddr); ok && w.Cfg.WatchField != nil {
				if fv := fieldVar(fa.X.Type(), fa.Field); fv != nil && w.Cfg.WatchField(fv) {
					// already emitted as field event at the FieldAddr; mark write
					for j := len(st.trace) - 1; j >= 0; j-- {
						if st.trace[j].Kind == "field" && st.trace[j].Instr == ssa.Instruction(fa) {
							st.trace[j].Write = true
							break
						}
					}
				}
			}
			if !strings.HasPrefix(addr, "&alloc:") {
				w.emit(st, Event{Kind: "store", Instr: in, Addr: addr, Val: val})
			} else {
				// stores to escaping locals (captured, or pointed to) are recorded
				base := addr
				if i := strings.IndexAny(addr[len("&alloc:"):], ".["); i >= 0 {
					base = addr[:len("&alloc:")+i]
				}
				if w.heap[base] && !strings.Contains(base, "varargs") {
					w.emit(st, Event{Kind: "store", Instr: in, Addr: addr, Val: val})
				}
			}
		case *ssa.Lookup:
			if w.lookupConstTable(st, b, i, in) {
				return // continued per table entry
			}
		case *ssa.MapUpdate:
			w.emit(st, Event{Kind: "mapupdate", Instr: in, Addr: w.canon(st, fr, in.Map), Key: w.canon(st, fr, in.Key), Val: w.canon(st, fr, in.Value)})
		case *ssa.FieldAddr:
			if w.Cfg.WatchField != nil {
				if fv := fieldVar(in.X.Type(), in.Field); fv != nil && w.Cfg.WatchField(fv) {
					w.emit(st, Event{Kind: "field", Instr: in, Addr: w.canon(st, fr, in), Val: fv.Name(), Key: w.canon(st, fr, in.X)})
				}
			}
		case *ssa.Field:
			if w.Cfg.WatchField != nil {
				if fv := fieldVar(in.X.Type(), in.Field); fv != nil && w.Cfg.WatchField(fv) {
					w.emit(st, Event{Kind: "field", Instr: in, Addr: w.canon(st, fr, in), Val: fv.Name(), Key: w.canon(st, fr, in.X)})
				}
			}
		case *ssa.Slice:
			if w.Cfg.Bounds {
				part := func(v ssa.Value) string {
					if v == nil {
						return ""
					}
					return w.canon(st, fr, v)
				}
				w.emit(st, Event{Kind: "slice", Instr: in, Extra: []string{w.canon(st, fr, in.X), part(in.Low), part(in.High), part(in.Max)}, State: st.rel.Clone(), Res: w.canon(st, fr, in)})
			}
		case *ssa.IndexAddr:
			if w.Cfg.Bounds {
				w.emit(st, Event{Kind: "index", Instr: in, Extra: []string{w.canon(st, fr, in.X), w.canon(st, fr, in.Index)}, State: st.rel.Clone()})
			}
		case *ssa.Index:
			if w.Cfg.Bounds {
				w.emit(st, Event{Kind: "index", Instr: in, Extra: []string{w.canon(st, fr, in.X), w.canon(st, fr, in.Index)}, State: st.rel.Clone()})
			}
		case *ssa.Convert:
			if w.Cfg.Bounds {
				ss, ssg, ok1 := isInteger(in.X.Type())
				ds, dsg, ok2 := isInteger(in.Type())
				if ok1 && ok2 && (ssg != dsg || ds < ss) {
					w.emit(st, Event{Kind: "conv", Instr: in, Val: w.canon(st, fr, in.X), Res: w.canon(st, fr, in), State: st.rel.Clone()})
				}
			}
		case *ssa.Send:
			w.emit(st, Event{Kind: "send", Instr: in, Addr: w.canon(st, fr, in.Chan), Val: w.canon(st, fr, in.X), Block: true})
		case *ssa.UnOp:
			if in.Op == token.ARROW {
				w.emit(st, Event{Kind: "recv", Instr: in, Addr: w.canon(st, fr, in.X), Block: true, Res: w.canon(st, fr, in)})
			}
			if in.Op == token.MUL {
				// a load takes its value now, not when it is used
				fr.env[in] = w.canon(st, fr, in)
			}
		case *ssa.Select:
			var chans []string
			for _, s := range in.States {
				d := "recv:"
				if s.Dir == types.SendOnly {
					d = "send:"
				}
				chans = append(chans, d+w.canon(st, fr, s.Chan))
			}
			w.emit(st, Event{Kind: "select", Instr: in, Block: in.Blocking, Extra: chans, Res: w.canon(st, fr, in)})
		case *ssa.Go:
			name, _ := w.staticCallee(st, fr, &in.Call)
			w.emit(st, Event{Kind: "go", Instr: in, Callee: name, Args: w.callArgs(st, fr, &in.Call, 0)})
		case *ssa.Defer:
			name, _ := w.staticCallee(st, fr, &in.Call)
			w.emit(st, Event{Kind: "defer", Instr: in, Callee: name, Args: w.callArgs(st, fr, &in.Call, 0)})
			fr.defers = append(fr.defers, in)
		case *ssa.RunDefers:
			for j := len(fr.defers) - 1; j >= 0; j-- {
				d := fr.defers[j]
				name, dfn := w.staticCallee(st, fr, &d.Call)
				args := w.callArgs(st, fr, &d.Call, 0)
				if k := w.isLockCall(name); k != "" && len(args) > 0 {
					w.emit(st, Event{Kind: k, Instr: d, Callee: name, Args: args, Addr: args[0], Defd: true})
					w.applyLock(st, k, args[0])
					continue
				}
				w.emit(st, Event{Kind: "call", Instr: d, Callee: name, Args: args, Defd: true, Static: dfn})
			}
			fr.defers = nil
		case *ssa.Panic:
			w.emit(st, Event{Kind: "panic", Instr: in, Val: w.canon(st, fr, in.X)})
			w.finish(st, "panic", nil, in)
			return
		case *ssa.Call:
			if w.call(st, b, i, in) {
				return // continued inside callee (inlined)
			}
		case *ssa.Return:
			var rets []string
			for _, r := range in.Results {
				rets = append(rets, w.canon(st, fr, r))
			}
			if len(st.frames) == 1 {
				w.emit(st, Event{Kind: "ret", Instr: in, Args: rets})
				w.finish(st, "return", rets, in)
				return
			}
			// A helper that returns an error it has itself tested (`if err !=
			// nil { return err }`) hands a non-nil value to its caller: record
			// that, even when the rule's filter dropped the helper's own
			// condition, so the caller's re-test of the same value cannot open
			// an infeasible path.
			for i, r := range in.Results {
				if nn, known := nilnessAtReturn(r, b); known {
					st.rel.Refine(Atom{Kind: "bool", A: "isnil(" + rets[i] + ")"}, !nn)
				}
			}
			// return into caller
			st.frames = st.frames[:len(st.frames)-1]
			caller := st.top()
			if cv, ok := fr.callInstr.(*ssa.Call); ok {
				if len(rets) == 1 {
					caller.env[cv] = rets[0]
				} else if len(rets) > 1 {
					caller.env[cv] = "tuple(" + strings.Join(rets, ", ") + ")"
					for _, ref := range *cv.Referrers() {
						if ex, ok := ref.(*ssa.Extract); ok && ex.Index < len(rets) {
							caller.env[ex] = rets[ex.Index]
						}
					}
				}
			}
			w.emit(st, Event{Kind: "inlret", Instr: in, Args: rets, Callee: QualName(fr.fn)})
			w.instrs(st, fr.retBlock, fr.retIdx)
			return
		case *ssa.Jump:
			w.block(st, b.Succs[0], b)
			return
		case *ssa.If:
			w.branch(st, b, in)
			return
		}
	}
}

func (w *Walker) branch(st *wstate, b *ssa.BasicBlock, in *ssa.If) {
	fr := st.top()
	atom, neg := w.atomOf(st, fr, in.Cond)
	keep := w.Cfg.KeepAtom == nil || w.Cfg.KeepAtom(atom)
	for edge := 0; edge < 2; edge++ {
		truth := edge == 0
		atruth := truth != neg
		// constant conditions
		if atom.Kind == "bool" && (atom.A == "const:true" || atom.A == "const:false") {
			if (atom.A == "const:true") != atruth {
				continue
			}
		}
		// a comparison of two known integers
		if atom.Kind == "cmp" && atom.Dom == "int" {
			if ka, ok1 := constInt(atom.A); ok1 {
				if kb, ok2 := constInt(atom.B); ok2 {
					holds := false
					switch atom.R {
					case LT:
						holds = ka < kb
					case EQ:
						holds = ka == kb
					case GT:
						holds = ka > kb
					}
					if holds != atruth {
						continue
					}
				}
			}
		}
		// values that are never nil: results of fmt.Errorf / errors.New and the
		// package's immutable error sentinels
		if atom.Kind == "bool" && strings.HasPrefix(atom.A, "isnil(") && atruth && w.knownNonNil(atom.A[len("isnil("):len(atom.A)-1]) {
			continue
		}
		// a value known to be nil on this path is not equal to a sentinel that is never nil
		// ("if err != nil && err != io.EOF {return}; if err == io.EOF {...} else {...}")
		if atom.Kind == "cmp" && atom.R == EQ && atruth {
			nilA, okA := st.rel.BoolOf("isnil(" + atom.A + ")")
			nilB, okB := st.rel.BoolOf("isnil(" + atom.B + ")")
			if okA && nilA && w.knownNonNil(atom.B) || okB && nilB && w.knownNonNil(atom.A) {
				continue
			}
		}
		var ns *wstate
		if edge == 0 {
			ns = st.clone()
		} else {
			ns = st
		}
		if atom.Kind == "bool" && atom.A == "isnil(nil)" && !atruth {
			continue // a helper returned the constant nil
		}
		// a fact already in the state decides the branch even when this rule's
		// filter does not keep the atom (no new fact is added for dropped atoms)
		if atom.Kind == "bool" {
			if v, ok := st.rel.BoolOf(atom.A); ok && v != atruth {
				continue
			}
		}
		constant := atom.Kind == "bool" && strings.HasPrefix(atom.A, "isnil(") && w.knownNonNil(atom.A[len("isnil("):len(atom.A)-1])
		if keep && !constant {
			if !ns.rel.Refine(atom, atruth) {
				continue
			}
			a := atom
			w.emit(ns, Event{Kind: "cond", Instr: in, Cond: &Cond{Atom: a, Truth: atruth}, Edge: edge})
		}
		w.block(ns, b.Succs[edge], b)
		if w.Err != nil {
			return
		}
	}
}

// call handles a call instruction; returns true when the walk continued
// inside an inlined callee (the rest of the block is handled on return).
func (w *Walker) call(st *wstate, b *ssa.BasicBlock, idx int, in *ssa.Call) bool {
	fr := st.top()
	name, fn := w.staticCallee(st, fr, &in.Call)
	args := w.callArgs(st, fr, &in.Call, 0)
	if k := w.isLockCall(name); k != "" && len(args) > 0 {
		w.emit(st, Event{Kind: k, Instr: in, Callee: name, Args: args, Addr: args[0], Val: lockClass(in.Call.Args[0])})
		w.applyLock(st, k, args[0])
		return false
	}
	res := w.canon(st, fr, in)
	depth := len(st.frames)
	// a new helper calling back the closure it was handed (withCursor(txn, dbi,
	// func(c) error {...})): the closure's body runs there, with the variables
	// it captured where it was made
	var cbSite *closureSite
	if fn == nil && len(st.frames) > 1 && unknownHelper(fr.fn, 0) && in.Call.StaticCallee() == nil && !in.Call.IsInvoke() {
		v := w.canon(st, fr, in.Call.Value)
		if site, ok := w.closureSites[v]; ok && strings.HasPrefix(v, "closure:") {
			if cf, ok := site.mc.Fn.(*ssa.Function); ok && cf.Blocks != nil && len(cf.Blocks) <= 80 {
				for _, f := range st.frames {
					if f.id == site.frame {
						s := site
						cbSite = &s
						fn = cf
					}
				}
			}
		}
	}
	inline := fn != nil && fn.Blocks != nil && (w.Cfg.Inline != nil && w.Cfg.Inline(fn, depth) || unknownHelper(fn, depth) || cbSite != nil)
	if inline {
		for _, f := range st.frames {
			if f.fn == fn {
				inline = false // no recursion
			}
		}
	}
	w.emit(st, Event{Kind: "call", Instr: in, Callee: name, Args: args, Res: res, Inl: inline, Static: fn})
	if !inline {
		if !pureCallees[name] && !noHeapEffect[name] && !strings.HasPrefix(name, "builtin:") && !isLogCall(name) {
			st.epoch++
			// what the callee can reach through its reference arguments may change:
			// forget relational facts about memory behind them
			fargs := append([]ssa.Value{}, in.Call.Args...)
			if in.Call.IsInvoke() {
				fargs = append(fargs, in.Call.Value)
			}
			for _, a := range fargs {
				switch a.Type().Underlying().(type) {
				case *types.Pointer, *types.Map, *types.Interface:
					ac := w.canon(st, fr, a)
					if strings.HasPrefix(ac, "param:") || strings.HasPrefix(ac, "local:") || strings.HasPrefix(ac, "*free:") {
						st.rel.ForgetExcept(ac+".", w.immutTerms)
					}
				}
			}
			for _, a := range in.Call.Args {
				ac := w.canon(st, fr, a)
				if strings.HasPrefix(ac, "&alloc:") {
					for k := range st.store {
						if k == ac || strings.HasPrefix(k, ac+".") || strings.HasPrefix(k, ac+"[") {
							delete(st.store, k)
						}
					}
				}
			}
			// unknown callee may modify heap cells: forget non-local cells
			dynCall := strings.HasPrefix(name, "dyn:") || strings.Contains(name, "$")
			// locals that a closure passed to this call binds (and may write)
			bound := map[string]bool{}
			allArgs := append([]ssa.Value{}, in.Call.Args...)
			allArgs = append(allArgs, in.Call.Value)
			for _, a := range allArgs {
				if mc, ok := a.(*ssa.MakeClosure); ok {
					for _, b := range mc.Bindings {
						bound[w.canon(st, fr, b)] = true
					}
				}
			}
			for k := range st.store {
				if strings.HasPrefix(k, "free:") && !dynCall {
					continue // captured variables are written by this closure and its parent only
				}
				if !strings.HasPrefix(k, "&alloc:") {
					delete(st.store, k)
					continue
				}
				// locals captured by closures may be written by the callee
				base := k
				if i := strings.IndexAny(k[len("&alloc:"):], ".["); i >= 0 {
					base = k[:len("&alloc:")+i]
				}
				if w.heap[base] && bound[base] && w.captured(base) {
					delete(st.store, k) // a closure that writes this local is handed to the callee
				}
			}
		}
		if name == "builtin:append" || name == "builtin:copy" {
			// handled as ordinary events
		}
		return false
	}
	w.nframe++
	nf := &frame{fn: fn, env: map[ssa.Value]string{}, onPath: map[*ssa.BasicBlock]bool{}, id: w.nframe,
		callInstr: in, retBlock: b, retIdx: idx + 1}
	rawArgs := in.Call.Args
	for i, p := range fn.Params {
		if i < len(rawArgs) {
			nf.env[p] = w.canon(st, fr, rawArgs[i])
			if bt, ok := p.Type().Underlying().(*types.Basic); ok && bt.Info()&types.IsBoolean != 0 {
				switch rawArgs[i].(type) {
				case *ssa.BinOp, *ssa.UnOp:
					if a, neg := w.atomOf(st, fr, rawArgs[i]); a.Kind != "" {
						if nf.atoms == nil {
							nf.atoms = map[ssa.Value]boundAtom{}
						}
						nf.atoms[p] = boundAtom{a, neg}
					}
				case *ssa.Parameter:
					if ba, ok := fr.atoms[rawArgs[i]]; ok {
						if nf.atoms == nil {
							nf.atoms = map[ssa.Value]boundAtom{}
						}
						nf.atoms[p] = ba
					}
				}
			}
		}
	}
	if mc, ok := in.Call.Value.(*ssa.MakeClosure); ok {
		for i, fv := range fn.FreeVars {
			if i < len(mc.Bindings) {
				nf.env[fv] = w.canon(st, fr, mc.Bindings[i])
			}
		}
	}
	if cbSite != nil {
		for _, f := range st.frames {
			if f.id != cbSite.frame {
				continue
			}
			for i, fv := range fn.FreeVars {
				if i < len(cbSite.mc.Bindings) {
					nf.env[fv] = w.canon(st, f, cbSite.mc.Bindings[i])
				}
			}
		}
	}
	st.frames = append(st.frames, nf)
	w.block(st, fn.Blocks[0], nil)
	return true
}

// localMapTable: the entries of a map literal held in a local that is never
// updated after its construction (all its uses are the literal's own updates,
// lookups and len).
func (w *Walker) localMapTable(st *wstate, fr *frame, mm *ssa.MakeMap) *constTab {
	if mm.Referrers() == nil {
		return nil
	}
	tab := &constTab{kind: "map"}
	for _, r := range *mm.Referrers() {
		switch u := r.(type) {
		case *ssa.MapUpdate:
			if u.Map != ssa.Value(mm) || u.Block() != mm.Block() {
				return nil // updated elsewhere than in the literal
			}
			k, ok := constCanon(u.Key)
			if !ok {
				return nil
			}
			tab.entries = append(tab.entries, constEntry{k, w.canon(st, fr, u.Value)})
		case *ssa.Lookup, *ssa.DebugRef:
		case *ssa.Call:
			if b, ok := u.Call.Value.(*ssa.Builtin); !ok || b.Name() != "len" {
				return nil
			}
		default:
			return nil
		}
	}
	sort.SliceStable(tab.entries, func(i, j int) bool { return tab.entries[i].key < tab.entries[j].key })
	return tab
}

// lookupConstTable: a lookup in a constant package-level map (see consttab.go)
// with a key that is not a constant continues once per entry, with the key
// pinned to that entry's key and the result bound to its value, and once for
// "no such entry". Returns false when in is not such a lookup.
func (w *Walker) lookupConstTable(st *wstate, b *ssa.BasicBlock, idx int, in *ssa.Lookup) bool {
	fr := st.top()
	var tab *constTab
	if mm, ok := in.X.(*ssa.MakeMap); ok {
		// a local table: a map literal with constant keys that is only looked up
		tab = w.localMapTable(st, fr, mm)
	} else {
		ld, ok := in.X.(*ssa.UnOp)
		if !ok || ld.Op != token.MUL {
			return false
		}
		g, ok := ld.X.(*ssa.Global)
		if !ok {
			return false
		}
		tab = w.P.globalTable(g)
	}
	if tab == nil || tab.kind != "map" || len(tab.entries) == 0 || len(tab.entries) > 16 {
		return false
	}
	key := w.canon(st, fr, in.Index)
	var ex0, ex1 ssa.Value
	if in.CommaOk && in.Referrers() != nil {
		for _, r := range *in.Referrers() {
			if ex, ok := r.(*ssa.Extract); ok {
				if ex.Index == 0 {
					ex0 = ex
				} else {
					ex1 = ex
				}
			}
		}
	}
	isBool := false
	if bt, ok := in.Index.Type().Underlying().(*types.Basic); ok && bt.Info()&types.IsBoolean != 0 {
		isBool = true
	}
	bind := func(ns *wstate, val, okv string) {
		nfr := ns.top()
		if in.CommaOk {
			if ex0 != nil {
				nfr.env[ex0] = val
			}
			if ex1 != nil {
				nfr.env[ex1] = okv
			}
		} else {
			nfr.env[in] = val
		}
	}
	zero := "zero:" + typeShort(in.Type())
	if in.CommaOk {
		if tup, ok := in.Type().(*types.Tuple); ok && tup.Len() == 2 {
			zero = "zero:" + typeShort(tup.At(0).Type())
		}
	}
	seenTrue, seenFalse := false, false
	for _, e := range tab.entries {
		ns := st.clone()
		feasible := true
		if strings.HasPrefix(key, "const:") {
			feasible = key == e.key
		} else if isBool {
			a, neg := w.atomOf(ns, ns.top(), in.Index)
			truth := (e.key == "const:true") != neg
			feasible = ns.rel.Refine(a, truth)
			if feasible {
				w.emit(ns, Event{Kind: "cond", Instr: in, Cond: &Cond{Atom: a, Truth: truth}})
			}
			if e.key == "const:true" {
				seenTrue = true
			} else {
				seenFalse = true
			}
		} else {
			dom := "int"
			if bt, ok := in.Index.Type().Underlying().(*types.Basic); ok && bt.Info()&types.IsString != 0 {
				dom = "str"
			}
			a := Atom{Kind: "cmp", Dom: dom, A: key, B: e.key, R: EQ}
			feasible = ns.rel.Refine(a, true)
			if feasible {
				w.emit(ns, Event{Kind: "cond", Instr: in, Cond: &Cond{Atom: a, Truth: true}})
			}
		}
		if !feasible {
			continue
		}
		bind(ns, e.val, "const:true")
		w.instrs(ns, b, idx+1)
		if w.Err != nil {
			return true
		}
	}
	// no entry
	if !(isBool && seenTrue && seenFalse) {
		ns := st
		feasible := true
		if strings.HasPrefix(key, "const:") {
			for _, e := range tab.entries {
				if e.key == key {
					feasible = false
				}
			}
		} else if !isBool {
			dom := "int"
			if bt, ok := in.Index.Type().Underlying().(*types.Basic); ok && bt.Info()&types.IsString != 0 {
				dom = "str"
			}
			for _, e := range tab.entries {
				a := Atom{Kind: "cmp", Dom: dom, A: key, B: e.key, R: EQ}
				if !ns.rel.Refine(a, false) {
					feasible = false
					break
				}
				w.emit(ns, Event{Kind: "cond", Instr: in, Cond: &Cond{Atom: a, Truth: false}})
			}
		}
		if feasible {
			bind(ns, zero, "const:false")
			w.instrs(ns, b, idx+1)
		}
	}
	return true
}

// uniqueAlloc: is the comment (variable name) of this alloc unique in its function?
func (w *Walker) uniqueAlloc(a *ssa.Alloc) bool {
	if w.allocNames == nil {
		w.allocNames = map[*ssa.Function]map[string]int{}
	}
	fn := a.Parent()
	m, ok := w.allocNames[fn]
	if !ok {
		m = map[string]int{}
		for _, b := range fn.Blocks {
			for _, in := range b.Instrs {
				if al, ok := in.(*ssa.Alloc); ok {
					m[al.Comment]++
				}
			}
		}
		for _, al := range fn.Locals {
			m[al.Comment]++
		}
		w.allocNames[fn] = m
	}
	return m[a.Comment] <= 1
}

// captured: is the local bound into a closure (so that a callee can write it)?
func (w *Walker) captured(base string) bool {
	a, ok := w.allocs[base]
	if !ok {
		return true
	}
	if w.capt == nil {
		w.capt = map[*ssa.Alloc]bool{}
	}
	if v, ok := w.capt[a]; ok {
		return v
	}
	res := false
	var visit func(v ssa.Value, depth int)
	visit = func(v ssa.Value, depth int) {
		rs := v.Referrers()
		if rs == nil || depth > 3 {
			return
		}
		for _, r := range *rs {
			switch x := r.(type) {
			case *ssa.MakeClosure:
				// written only if the closure stores through the free variable
				fnc := x.Fn.(*ssa.Function)
				for i, bnd := range x.Bindings {
					if bnd != v || i >= len(fnc.FreeVars) {
						continue
					}
					if frs := fnc.FreeVars[i].Referrers(); frs != nil {
						for _, fr := range *frs {
							switch y := fr.(type) {
							case *ssa.Store:
								if y.Addr == ssa.Value(fnc.FreeVars[i]) {
									res = true
								}
							case *ssa.UnOp, *ssa.FieldAddr, *ssa.DebugRef:
								if fa, ok := fr.(*ssa.FieldAddr); ok {
									// field written through the captured struct variable
									if fars := fa.Referrers(); fars != nil {
										for _, q := range *fars {
											if st, ok := q.(*ssa.Store); ok && st.Addr == ssa.Value(fa) {
												res = true
											}
										}
									}
								}
							default:
								res = true // passed on, captured again, ...
							}
						}
					}
				}
			case *ssa.Store:
				if x.Val == v {
					res = true // address stored somewhere
				}
			case *ssa.FieldAddr:
				visit(x, depth+1)
			case *ssa.IndexAddr:
				visit(x, depth+1)
			case *ssa.MakeInterface:
				res = true
			case *ssa.Phi:
				res = true
			}
		}
	}
	visit(a, 0)
	w.capt[a] = res
	return res
}

// lockClass names a mutex by the type and field (or global) it lives in.
func lockClass(v ssa.Value) string {
	switch x := v.(type) {
	case *ssa.FieldAddr:
		t := x.X.Type()
		if pt, ok := t.Underlying().(*types.Pointer); ok {
			t = pt.Elem()
		}
		tn := typeShort(t)
		if n, ok := t.(*types.Named); ok {
			tn = n.Obj().Name()
			if o := n.Origin(); o != nil {
				tn = o.Obj().Name()
			}
		}
		return tn + "." + fieldName(x.X.Type(), x.Field)
	case *ssa.Global:
		return "global " + x.Name()
	}
	return v.Name()
}

func isLogCall(name string) bool {
	return strings.Contains(name, "logrus") ||
		strings.HasPrefix(name, "fmt.") || strings.Contains(name, "prometheus")
}

// ---------------------------------------------------------------- helpers for rules

// Calls returns the call events (including deferred executions) whose callee
// name satisfies pred.
func (p *Path) Calls(pred func(string) bool) []*Event {
	var out []*Event
	for i := range p.Events {
		e := &p.Events[i]
		if (e.Kind == "call" || e.Kind == "go") && pred(e.Callee) {
			out = append(out, e)
		}
	}
	return out
}

func (p *Path) HasCall(name string) bool {
	return len(p.Calls(func(s string) bool { return s == name })) > 0
}

// Conds returns the conditions taken on the path, in order.
func (p *Path) Conds() []Cond {
	var out []Cond
	for _, e := range p.Events {
		if e.Kind == "cond" {
			out = append(out, *e.Cond)
		}
	}
	return out
}

func (p *Path) CondStrings() []string {
	var out []string
	for _, c := range p.Conds() {
		out = append(out, c.String())
	}
	return out
}

// Describe gives a compact human-readable rendering of a path.
func (p *Path) Describe(P *Program) map[string]any {
	var ev []string
	for _, e := range p.Events {
		switch e.Kind {
		case "cond":
			ev = append(ev, "if "+e.Cond.String())
		case "call":
			s := e.Callee + "(" + strings.Join(e.Args, ", ") + ")"
			if e.Defd {
				s = "deferred " + s
			}
			ev = append(ev, s)
		case "store":
			ev = append(ev, e.Addr+" := "+e.Val)
		case "mapupdate":
			ev = append(ev, e.Addr+"["+e.Key+"] = "+e.Val)
		case "ret":
		case "field", "slice", "index", "conv", "inlret":
		default:
			ev = append(ev, e.Kind+" "+e.Callee+e.Addr)
		}
	}
	return map[string]any{"events": ev, "end": p.End, "returns": p.Rets}
}
