package main

import (
	"fmt"
	"go/types"
	"strings"

	"golang.org/x/tools/go/ssa"
)

// Rules on the dump side: readDBI, SendOnce$1 (C01-R3, C04-R1, C06).

const dbiAppend = "snapshot.(*DBI).Append"

// ruleReadDBILoop: the cursor loop of readDBI copies every entry.
func ruleReadDBILoop(c *Check, rule string, forMarkers bool) {
	fn, paths := c.walkFn(rule, fnReadDBI, WalkConfig{})
	if paths == nil {
		return
	}
	pos := c.P.Pos(fn.Pos())
	raw := param(fn, 4)
	nIter, nApp, nErrExit, nDone, bad := 0, 0, 0, 0, 0
	flagNext := ""
	loopFn := hostOf(fn, "(*github.com/PowerDNS/lmdb-go/lmdb.Cursor).Get") // the loop may live in an extracted helper
	for i := range paths {
		p := &paths[i]
		gets := callsOf(p, "(*lmdb.Cursor).Get")
		if len(gets) == 0 {
			continue
		}
		g := gets[0]
		if len(gets) > 1 {
			c.Undecided(rule, fnReadDBI+"/cursor-loop", "more than one cursor Get on a single iteration path", evPos(c, g))
			return
		}
		errAtom := "isnil(" + g.Res + "#2)"
		okGet, found := boolCond(p, errAtom, -1)
		if !found {
			continue
		}
		if !okGet {
			nf, f := boolCond(p, "lmdb.IsNotFound("+g.Res+"#2)", -1)
			if f && nf {
				// end of data: the function must return the collected DBI without error
				nDone++
				if !(p.End == "return" && retIsNilErr(p) && strings.HasPrefix(p.Rets[0], "snapshot.NewDBISize@")) {
					bad++
					c.Bad(rule, fnReadDBI+"/end-of-data", "after the cursor reports end of data the function does not return the collected DBI", c.pathPos(p), describe(c, p))
				}
			} else {
				nErrExit++
				if !(p.End == "return" && !retIsNilErr(p)) {
					bad++
					c.Bad(rule, fnReadDBI+"/cursor-error", "a cursor error other than not-found does not abort the dump with an error", c.pathPos(p), describe(c, p))
				}
			}
			continue
		}
		// successful Get
		nIter++
		apps := callsOf(p, dbiAppend)
		switch {
		case strings.HasPrefix(p.End, "backedge:"):
			// the cursor operation of the next Get: the loop-carried uint
			isUint := func(t types.Type) bool { b, ok := t.Underlying().(*types.Basic); return ok && b.Kind() == types.Uint }
			fl := backedgeVal(p, loopPhiOfType(loopFn, isUint))
			if fl == "" {
				// the cursor operation kept in a variable in memory (its address is
				// handed to a helper): what it holds when the iteration ends
				if nm := allocOfType(fn, isUint); nm != "" {
					fl = p.Store["&alloc:"+nm]
				}
			}
			if fl != "" {
				flagNext = fl
			}
			if len(apps) == 1 {
				nApp++
				lit := apps[0].Args[1]
				isRaw, rf := boolCond(p, raw, -1)
				key, _ := litField(lit, "Key")
				val, _ := litField(lit, "Value")
				ts, _ := litField(lit, "TimestampNano")
				fl, _ := litField(lit, "Flags")
				parse := "lmdbenv/header.Parse(" + g.Res + "#1)"
				wantVal, wantTS, wantFl := parse+"#1", parse+"#0.Timestamp", "lmdbenv/header.(Flags).Masked("+parse+"#0.Flags)"
				if rf && isRaw {
					wantVal, wantTS, wantFl = g.Res+"#1", "const:0", "lmdbenv/header.(Flags).Masked(const:0)"
				}
				names := litFieldNames(lit)
				if key != g.Res+"#0" || val != wantVal || ts != wantTS || fl != wantFl || len(names) != 4 || apps[0].Args[0] == "" {
					bad++
					c.Bad(rule, fnReadDBI+"/entry-content", fmt.Sprintf("the appended snapshot entry is %s; expected Key=cursor key, Value=%s, TimestampNano=%s, Flags=%s and no other field", lit, wantVal, wantTS, wantFl), evPos(c, apps[0]), nil)
				}
				if !strings.HasPrefix(apps[0].Args[0], "snapshot.NewDBISize@") {
					bad++
					c.Bad(rule, fnReadDBI+"/entry-target", "the entry is appended to "+apps[0].Args[0]+", not to the DBI message being returned", evPos(c, apps[0]), nil)
				}
			} else {
				// skipping an entry is only allowed through the optional filter hook
				hookSet, hf := boolCond(p, "isnil("+param(fn, 0)+".hooks.FilterReadDBI)", -1)
				inc, incf := condTruth(p, "dyn:"+param(fn, 0)+".hooks.FilterReadDBI@", -1)
				if !(hf && !hookSet && incf && !inc) {
					bad++
					c.Bad(rule, fnReadDBI+"/entry-skipped", "an entry read by the cursor is not appended to the snapshot on a path that is not the explicit filter hook returning false: live entries or deletion markers would be missing from the dump", c.pathPos(p), describe(c, p))
				}
			}
		case p.End == "return":
			if retIsNilErr(p) {
				bad++
				c.Bad(rule, fnReadDBI+"/early-success", "the dump returns successfully in the middle of the cursor loop", c.pathPos(p), describe(c, p))
			}
		}
	}
	if bad == 0 {
		what := "every successfully read entry is appended with Key=cursor key, Value/TimestampNano/Flags split out of the header (Flags masked; raw mode: value as is), and nothing else (no transaction id); an entry is skipped only when the optional FilterReadDBI hook returns false; not-found ends the loop, any other cursor error aborts"
		c.Ok(rule, fnReadDBI+"/cursor-loop", fmt.Sprintf("%d iteration paths, %d appending: %s", nIter, nApp, what), pos)
	}
	c.Floor(rule, nApp, 2, "appending iteration paths of readDBI")
	c.Floor(rule, nDone, 1, "end-of-data exits of readDBI")
	// cursor positions: First, then Next
	first, _ := c.constValue2("github.com/PowerDNS/lmdb-go/lmdb", "First")
	next, _ := c.constValue2("github.com/PowerDNS/lmdb-go/lmdb", "Next")
	isUintT := func(t types.Type) bool { b, ok := t.Underlying().(*types.Basic); return ok && b.Kind() == types.Uint }
	init := phiInitOf(loopFn, loopPhiOfType(loopFn, isUintT))
	if init == "" {
		// a variable in memory: the constant stored into it before the loop
		if nm := allocOfType(fn, isUintT); nm != "" {
			for _, b := range fn.Blocks {
				for _, in := range b.Instrs {
					if st, ok := in.(*ssa.Store); ok {
						if a, ok := st.Addr.(*ssa.Alloc); ok && a.Comment == nm && !blockInLoop(b) {
							if k, ok := st.Val.(*ssa.Const); ok {
								init = constStr(k)
							}
						}
					}
				}
			}
		}
	}
	c.Expect(init == "const:"+first && flagNext == "const:"+next && first != "" && next != "", rule, fnReadDBI+"/cursor-order",
		"the cursor starts at lmdb.First and every continuing iteration uses lmdb.Next",
		fmt.Sprintf("cursor flag starts as %s (lmdb.First=%s) and continues with %s (lmdb.Next=%s)", init, first, flagNext, next), pos)
	_ = forMarkers
}

// ruleSendDump: SendOnce$1 dumps every non-private DBI (C01-R3a, C06-R2),
// after the shadow capture in shadow mode (C01-R5), inside the txn, with the
// snapshot time taken in the transaction (C06-R4).
func ruleSendDump(c *Check, rule, ruleTime, ruleOrder string) {
	fn, paths := c.walkFn(rule, fnSendTxn, WalkConfig{})
	if paths == nil {
		return
	}
	pos := c.P.Pos(fn.Pos())
	txn := param(fn, 0)
	nIter, nRead, nSkip, bad := 0, 0, 0, 0
	badOrder, nOrder := 0, 0
	// captured variables by role
	parent := c.P.Func(fnSendOnce)
	stcF := freeCanon(c.P, fn, freeInitSuffix(parent, fn, ".SchemaTracksChanges"))
	if stcF == "" {
		stcF = "*free:"
	}
	msgF := "*free:" + freeOfType(fn, func(t types.Type) bool { return namedIs(t, "snapshot.Snapshot") })
	tsName := ""
	if parent != nil {
		tsName = localFeedingField(parent, "NameInfo", "Timestamp")
	}
	if stcF == "*free:" || msgF == "*free:" || tsName == "" {
		c.Undecided(rule, fnSendTxn+"/captured", "cannot identify the captured mode flag, snapshot message and snapshot time of the transaction body", pos)
		return
	}
	for i := range paths {
		p := &paths[i]
		names := callsOf(p, "lmdbenv.ReadDBINames")
		if len(names) == 1 {
			// shadow capture precedes the listing / dump in shadow mode
			st, f := boolCond(p, stcF, eventIndex(p, names[0]))
			m2s := callsOf(p, fnMainToSh)
			nOrder++
			switch {
			case f && !st:
				if !(len(m2s) == 1 && eventIndex(p, m2s[0]) < eventIndex(p, names[0]) && m2s[0].Args[2] == txn) {
					badOrder++
					c.Bad(ruleOrder, fnSendTxn+"/capture-before-dump", "shadow mode: the dump starts without mainToShadow having run first in the same transaction (local changes would be missing from the snapshot)", evPos(c, names[0]), describe(c, p))
				}
			case f && st:
				if len(m2s) != 0 {
					badOrder++
					c.Bad(ruleOrder, fnSendTxn+"/capture-before-dump", "native mode runs the shadow capture", evPos(c, m2s[0]), nil)
				}
			}
		}
		// shadow mode: the capture is unconditional (also when nothing will be uploaded)
		if st, f := boolCond(p, stcF, -1); !(f && st) && p.End == "return" && retIsNilErr(p) && len(callsOf(p, fnMainToSh)) == 0 {
			badOrder++
			c.Bad(ruleOrder, fnSendTxn+"/capture-unconditional", "shadow mode: the transaction body returns successfully without having run mainToShadow (e.g. on the receive-only exit): the transaction id is then reported as synced although local changes were not captured", c.pathPos(p), describe(c, p))
		}
		if len(names) == 0 && len(callsOf(p, fnReadDBI)) > 0 {
			bad++
			c.Bad(rule, fnSendTxn+"/listing-fresh", "a DBI is processed on a path whose DBI names do not come from lmdbenv.ReadDBINames on this transaction in this call (e.g. a listing cached from earlier): DBIs created meanwhile in the same transaction are passed over", c.pathPos(p), describe(c, p))
			continue
		}
		if !strings.HasPrefix(p.End, "backedge:") || len(names) != 1 {
			continue
		}
		nIter++
		elem := ""
		for _, cd := range p.Conds() {
			if cd.Atom.Kind == "bool" && strings.HasPrefix(cd.Atom.A, "strings.HasPrefix("+names[0].Res+"#0[") {
				elem = strings.TrimSuffix(strings.TrimPrefix(cd.Atom.A, "strings.HasPrefix("), ", const:\"_sync\")")
				if cd.Truth {
					nSkip++
					if len(callsOf(p, fnReadDBI)) != 0 {
						bad++
						c.Bad(rule, fnSendTxn+"/private-skipped", "a DBI with the private prefix is dumped", c.pathPos(p), nil)
					}
				}
			}
		}
		if elem == "" {
			// the private names were filtered out before the loop
			if e2, ok := filteredAppElem(c, p); ok {
				elem = e2
				nSkip++ // the filter is the skip
			}
		}
		if elem == "" {
			bad++
			c.Bad(rule, fnSendTxn+"/prefix-test", "an iteration over the DBI names does not test the private prefix \"_sync\"", c.pathPos(p), describe(c, p))
			continue
		}
		if sk, _ := boolCond(p, "strings.HasPrefix("+elem+", const:\"_sync\")", -1); sk {
			continue
		}
		rd := callsOf(p, fnReadDBI)
		if len(rd) != 1 {
			bad++
			c.Bad(rule, fnSendTxn+"/dbi-dumped", "an application DBI name does not reach readDBI on a continuing iteration", c.pathPos(p), describe(c, p))
			continue
		}
		nRead++
		st, _ := boolCond(p, stcF, eventIndex(p, rd[0]))
		wantRead := elem
		if !st {
			wantRead = "(const:\"_sync_shadow_\" + " + elem + ")"
		}
		a := rd[0].Args
		if len(a) != 5 || a[1] != txn || a[2] != wantRead || a[3] != elem || a[4] != "const:false" {
			bad++
			c.Bad(rule, fnSendTxn+"/readDBI-args", fmt.Sprintf("readDBI is called with %v; expected (txn, %s, %s, false)", a[1:], wantRead, elem), evPos(c, rd[0]), nil)
		}
		// appended to msg.Databases
		app := false
		for _, e := range p.Events {
			if e.Kind == "store" && e.Addr == "&"+msgF+".Databases" {
				for _, ap := range callsOf(p, "builtin:append") {
					if ap.Res == e.Val && ap.Args[0] == msgF+".Databases" && ap.Args[1] == "["+rd[0].Res+"#0]" {
						app = true
					}
				}
			}
		}
		if !app {
			bad++
			c.Bad(rule, fnSendTxn+"/dbi-appended", "the DBI message returned by readDBI is not appended to the snapshot's Databases", evPos(c, rd[0]), describe(c, p))
		}
	}
	if bad == 0 {
		c.Ok(rule, fnSendTxn+"/dump-complete", fmt.Sprintf("%d continuing iterations over ReadDBINames(txn): %d skip a \"_sync\"-prefixed name, %d call readDBI(txn, name or shadow name, name, false) and append the result to msg.Databases; a readDBI error aborts", nIter, nSkip, nRead), pos)
	}
	c.Floor(rule, nRead, 2, "dumping iterations in SendOnce body")
	c.Floor(rule, nSkip, 1, "private-prefix skips in SendOnce body")
	if badOrder == 0 {
		c.Ok(ruleOrder, fnSendTxn+"/capture-before-dump", fmt.Sprintf("%d paths reaching the DBI listing: mainToShadow(ctx, txn, ts) ran before it exactly in shadow mode", nOrder), pos)
	}
	// prefix constant
	pfx, _ := c.constValue("syncer", "SyncDBIPrefix")
	sh, _ := c.constValue("syncer", "SyncDBIShadowPrefix")
	c.Expect(pfx == "_sync" && strings.HasPrefix(sh, pfx) && sh != pfx, rule, "syncer.SyncDBIPrefix", "the shadow prefix starts with the private prefix, so shadow DBIs are private too", fmt.Sprintf("SyncDBIPrefix=%q SyncDBIShadowPrefix=%q", pfx, sh), "")

	// C06-R4: snapshot time
	nT, badT := 0, 0
	var nowRes string
	for i := range paths {
		p := &paths[i]
		var stores []Event
		for _, e := range p.Events {
			if e.Kind == "store" && e.Addr == "free:"+tsName {
				stores = append(stores, e)
			}
		}
		if len(stores) == 0 {
			continue
		}
		nT++
		if len(stores) != 1 || !strings.HasPrefix(stores[0].Val, "time.Now@") {
			badT++
			c.Bad(ruleTime, fnSendTxn+"/snapshot-time", "the snapshot time is not a single time.Now() taken inside the transaction", c.P.InstrPos(stores[0].Instr), nil)
			continue
		}
		nowRes = stores[0].Val
		metaOK := false
		for _, e := range p.Events {
			if e.Kind == "store" && e.Addr == "&"+msgF+".Meta.TimestampNano" && e.Val == "lmdbenv/header.TimestampFromTime("+nowRes+")" {
				metaOK = true
			}
		}
		if !metaOK {
			badT++
			c.Bad(ruleTime, fnSendTxn+"/meta-time", "Meta.TimestampNano is not derived from the snapshot time taken in the transaction", c.P.InstrPos(stores[0].Instr), nil)
		}
		for _, m := range callsOf(p, fnMainToSh) {
			if m.Args[3] != "lmdbenv/header.TimestampFromTime("+nowRes+")" {
				badT++
				c.Bad(ruleTime, fnSendTxn+"/capture-time", "the shadow capture is stamped with "+m.Args[3]+", not with the snapshot time taken in the transaction", evPos(c, m), nil)
			}
		}
	}
	if badT == 0 && nT > 0 {
		c.Ok(ruleTime, fnSendTxn+"/snapshot-time", fmt.Sprintf("on all %d paths the snapshot time is one time.Now() inside the transaction body; Meta.TimestampNano and the capture timestamp derive from it", nT), pos)
	}
	c.Floor(ruleTime, nT, 1, "paths storing the snapshot time")
}

// ruleSendNaming: name and meta agree and use the time taken in the txn (C06-R4/R5).
func ruleSendNaming(c *Check, rule string) {
	var niName, msgAlloc, tsName string
	if f := c.P.Func(fnSendOnce); f != nil {
		niName = allocOfType(f, func(t types.Type) bool { return namedIs(t, "snapshot.NameInfo") })
		msgAlloc = allocOfType(f, func(t types.Type) bool { return namedIs(t, "snapshot.Snapshot") })
		tsName = localFeedingField(f, "NameInfo", "Timestamp")
	}
	if niName == "" || msgAlloc == "" || tsName == "" {
		c.Undecided(rule, fnSendOnce+"/locals", "cannot identify the NameInfo, the snapshot message and the snapshot time among SendOnce's locals", "")
		return
	}
	fn, paths := c.walkFn(rule, fnSendOnce, WalkConfig{Memo: true,
		KeepEvent: func(e *Event) bool {
			if e.Kind == "ret" {
				return true
			}
			if e.Kind == "store" {
				return strings.Contains(e.Addr, ".Meta.") || e.Addr == "&alloc:"+niName || strings.Contains(e.Addr, "alloc:"+msgAlloc+".")
			}
			return e.Kind == "call" && (strings.Contains(e.Callee, "BuildName") || strings.Contains(e.Callee, "Interface.Store") || strings.Contains(e.Callee, "DumpData"))
		},
		KeepAtom: func(a Atom) bool { return false }})
	if paths == nil {
		return
	}
	pos := c.P.Pos(fn.Pos())
	n, bad := 0, 0
	for i := range paths {
		p := &paths[i]
		st := callsOf(p, "iface:simpleblob.Interface.Store")
		if len(st) == 0 {
			continue
		}
		n++
		meta := map[string]string{}
		var ni string
		for _, e := range p.Events {
			if e.Kind == "store" && strings.Contains(e.Addr, ".Meta.") {
				meta[e.Addr[strings.LastIndex(e.Addr, ".")+1:]] = e.Val
			}
			if e.Kind == "store" && e.Addr == "&alloc:"+niName {
				ni = e.Val
			}
			if e.Kind == "store" && strings.HasSuffix(e.Addr, ".FormatVersion") {
				meta["FormatVersion"] = e.Val
			}
			if e.Kind == "store" && strings.HasSuffix(e.Addr, ".CompatVersion") {
				meta["CompatVersion"] = e.Val
			}
		}
		sn, _ := litField(ni, "SyncerName")
		inst, _ := litField(ni, "InstanceID")
		ts, _ := litField(ni, "Timestamp")
		kind, _ := litField(ni, "Kind")
		ext, _ := litField(ni, "Extension")
		bn := callsOf(p, "snapshot.(NameInfo).BuildName")
		dd := callsOf(p, "snapshot.DumpData")
		ok := sn == meta["DatabaseName"] && sn != "" && strings.HasSuffix(sn, ".name") &&
			inst == meta["InstanceID"] && strings.HasPrefix(inst, "syncer.(*Syncer).instanceID(") &&
			ts == "local:"+tsName && kind == "const:\"snapshot\"" && ext == "const:\"pb.gz\"" &&
			len(bn) == 1 && len(dd) == 1 && st[0].Args[2] == bn[0].Res && st[0].Args[3] == dd[0].Res+"#0"
		if !ok {
			bad++
			c.Bad(rule, fnSendOnce+"/name-meta-agree", fmt.Sprintf("name info %s vs meta %v: database and instance in the file name and in the metadata must have the same origin, the name's time must be the time taken in the transaction, and the stored blob must be DumpData(msg) under BuildName()", ni, meta), evPos(c, st[0]), nil)
		}
		// LmdbTxnID
		if v := meta["LmdbTxnID"]; v == "" {
			bad++
			c.Bad(rule, fnSendOnce+"/meta-txnid", "Meta.LmdbTxnID is not set", evPos(c, st[0]), nil)
		}
	}
	if bad == 0 {
		c.Ok(rule, fnSendOnce+"/name-meta-agree", fmt.Sprintf("on all %d storing paths the file name (BuildName of {SyncerName: s.name, InstanceID: s.instanceID(), Timestamp: ts, Kind snapshot}) and the metadata carry the same database and instance origins, the name's time is the variable written inside the transaction, and the blob stored is DumpData(msg)", n), pos)
	}
	c.Floor(rule, n, 1, "storing paths of SendOnce")
	// ts captured variable: written only by the transaction body
	cl := c.P.Func(fnSendTxn)
	if cl != nil {
		b := closureBinding(fn, cl, tsName)
		c.Expect(b == "alloc:"+tsName, rule, fnSendOnce+"/ts-binding", "the transaction body's ts is the variable the file name uses", "closure variable ts is bound to "+b, pos)
	}
}

// ruleReadDBIFlags: flags of the original DBI, dupsort => transform (C06-R6, C20-R5).
func ruleReadDBIFlags(c *Check, rule, ruleTransform string) {
	origName := param(c.P.Func(fnReadDBI), 3)
	fn, paths := c.walkFn(rule, fnReadDBI, WalkConfig{Memo: true,
		KeepEvent: func(e *Event) bool {
			if e.Kind == "ret" {
				return true
			}
			return e.Kind == "call" && (strings.Contains(e.Callee, "SetFlags") || strings.Contains(e.Callee, "SetTransform") || strings.Contains(e.Callee, "SetName") || strings.Contains(e.Callee, "OpenDBI") || strings.Contains(e.Callee, "Txn).Flags") || strings.Contains(e.Callee, "OpenCursor"))
		},
		KeepAtom: func(a Atom) bool {
			s := a.String()
			return strings.Contains(s, origName) || strings.Contains(s, "Flags@") || strings.Contains(s, "DupSortHack") || strings.Contains(s, "OpenDBI@") || strings.Contains(s, "OpenCursor@")
		}})
	if paths == nil {
		return
	}
	pos := c.P.Pos(fn.Pos())
	name, orig := param(fn, 2), param(fn, 3)
	n, bad, nDS, badT := 0, 0, 0, 0
	dupsort, _ := c.constValue2("github.com/PowerDNS/lmdb-go/lmdb", "DupSort")
	for i := range paths {
		p := &paths[i]
		oc := callsOf(p, "(*lmdb.Txn).OpenCursor")
		if len(oc) == 0 && !retIsNilErr(p) {
			// before the cursor: dupsort without the hack must be an error
			continue
		}
		// every path that reaches the cursor and every path that hands a message back
		// without an error (a short-cut for an empty DBI, say) records name, flags, transform
		n++
		sf := callsOf(p, "snapshot.(*DBI).SetFlags")
		sn := callsOf(p, "snapshot.(*DBI).SetName")
		if len(sf) != 1 || len(sn) != 1 || sn[0].Args[1] != orig {
			bad++
			c.Bad(rule, fnReadDBI+"/name-flags-set", "the DBI message does not get exactly one SetName(original name) and one SetFlags", c.pathPos(p), describe(c, p))
			continue
		}
		// which DBI do the flags come from?
		var flagsOf string
		for _, f := range callsOf(p, "(*lmdb.Txn).Flags") {
			if f.Res+"#0" == sf[0].Args[1] {
				for _, od := range callsOf(p, "(*lmdb.Txn).OpenDBI") {
					if od.Res+"#0" == f.Args[1] {
						flagsOf = od.Args[1]
					}
				}
			}
		}
		diff := p.State.RelOf("str", name, orig)
		want := name
		if diff&EQ == 0 {
			want = orig
		}
		if flagsOf != want && flagsOf != orig {
			bad++
			c.Bad(rule, fnReadDBI+"/flags-of-original", fmt.Sprintf("the snapshot records the flags of DBI %q; it must record those of the original (application) DBI %s", flagsOf, orig), evPos(c, sf[0]), describe(c, p))
		}
		// dupsort => transform set (and hack enabled)
		var ds, dsKnown bool
		for _, cd := range p.Conds() {
			if cd.Atom.Kind == "cmp" && strings.Contains(cd.Atom.A, "(*lmdb.Txn).Flags@") && strings.Contains(cd.Atom.A, "& const:"+dupsort+")") {
				ds, dsKnown = p.State.RelOf("int", cd.Atom.A, "const:0")&GT != 0 && p.State.RelOf("int", cd.Atom.A, "const:0")&(LT|EQ) == 0, true
			}
		}
		tr := callsOf(p, "snapshot.(*DBI).SetTransform")
		if dsKnown && ds {
			nDS++
			hack, hf := condTruth(p, "DupSortHack", -1)
			if !(len(tr) == 1 && tr[0].Args[1] == "const:\"dupsort_hack_v1\"" && hf && hack) {
				badT++
				c.Bad(ruleTransform, fnReadDBI+"/dupsort-transform", "a DBI with MDB_DUPSORT is dumped without recording the dupsort_hack_v1 transform (or with the hack disabled): receivers could not refuse or decode it", c.pathPos(p), describe(c, p))
			}
		} else if dsKnown && len(tr) != 0 {
			badT++
			c.Bad(ruleTransform, fnReadDBI+"/plain-no-transform", "a non-dupsort DBI is dumped with a transform", evPos(c, tr[0]), nil)
		} else if !dsKnown {
			badT++
			c.Bad(ruleTransform, fnReadDBI+"/dupsort-tested", "the dump does not test the MDB_DUPSORT flag of the original DBI", c.pathPos(p), describe(c, p))
		}
	}
	if bad == 0 {
		c.Ok(rule, fnReadDBI+"/flags-of-original", fmt.Sprintf("on all %d paths reaching the cursor the message is named after the original DBI and records txn.Flags of the original DBI (also when a shadow DBI is read)", n), pos)
	}
	if badT == 0 {
		c.Ok(ruleTransform, fnReadDBI+"/dupsort-transform", fmt.Sprintf("%d dupsort paths reach the cursor only with DupSortHack enabled and SetTransform(dupsort_hack_v1); plain DBIs carry no transform", nDS), pos)
	}
	c.Floor(rule, n, 2, "paths of readDBI reaching the cursor")
	c.Floor(ruleTransform, nDS, 1, "dupsort paths of readDBI")
}

// HOOKS-ONLY-FROM-EMBEDDER (C06-R9, C04-R10): the hook functions (hooks.Hooks)
// can filter what readDBI reads, veto updates and inject snapshots. They belong
// to the embedding program: lightningstream itself never installs one. A
// hook installed by the repository's own code ("do not ship expired markers",
// "skip unchanged entries") silently changes what every snapshot contains and
// which deletions travel. Every store into a field of hooks.Hooks anywhere in
// the repository's non-test code is a violation (the zero value excepted); the
// Syncer's hooks field is written by the constructor only.
func ruleHooksFromEmbedder(c *Check, rule string) {
	var hooksT *types.Named
	for _, fn := range c.P.RepoFuncs() {
		if fn.Pkg != nil && strings.HasSuffix(fn.Pkg.Pkg.Path(), "/syncer/hooks") {
			if o, ok := fn.Pkg.Pkg.Scope().Lookup("Hooks").(*types.TypeName); ok {
				hooksT, _ = o.Type().(*types.Named)
			}
		}
	}
	if hooksT == nil {
		c.Undecided(rule, "syncer/hooks.Hooks", "the hooks type was not found", "")
		return
	}
	stT, ok := hooksT.Underlying().(*types.Struct)
	if !ok {
		c.Undecided(rule, "syncer/hooks.Hooks", "hooks.Hooks is not a struct", "")
		return
	}
	nFields, nReads, bad := stT.NumFields(), 0, 0
	for i := 0; i < stT.NumFields(); i++ {
		f := stT.Field(i).Name()
		for fnName, ins := range fieldWriters(c.P, "Hooks", f) {
			for _, in := range ins {
				if st, ok := in.(*ssa.Store); ok {
					if k, isC := st.Val.(*ssa.Const); isC && k.Value == nil {
						continue // reset to nil
					}
				}
				bad++
				c.Bad(rule, fnName+"/hook-installed:"+f, "the repository's own code installs the hook "+f+": hooks belong to the embedding program; a built-in "+f+" changes what every snapshot contains or which updates are applied without the operator having configured anything", c.P.InstrPos(in), nil)
			}
		}
	}
	// reads, for the evidence: where the hooks take effect
	for _, fn := range c.P.RepoFuncs() {
		for _, b := range fn.Blocks {
			for _, in := range b.Instrs {
				if fa, ok := in.(*ssa.FieldAddr); ok {
					t := fa.X.Type()
					if pt, ok := t.Underlying().(*types.Pointer); ok {
						t = pt.Elem()
					}
					if n, ok := t.(*types.Named); ok && n.Obj() == hooksT.Obj() {
						nReads++
					}
				}
			}
		}
	}
	// Syncer.hooks: assigned by the constructor only
	for fnName, ins := range fieldWriters(c.P, "Syncer", "hooks") {
		if fnName == "syncer.New" {
			continue
		}
		for _, in := range ins {
			bad++
			c.Bad(rule, fnName+"/hooks-replaced", "the Syncer's hooks are replaced outside the constructor", c.P.InstrPos(in), nil)
		}
	}
	if bad == 0 {
		c.Ok(rule, "syncer/hooks.Hooks/only-from-embedder", fmt.Sprintf("%d hook fields, %d uses in the repository: no non-test code stores a function into any of them; Syncer.hooks is set by syncer.New only", nFields, nReads), "")
	}
	c.Floor(rule, nFields, 8, "fields of hooks.Hooks")
	c.Floor(rule, nReads, 8, "uses of hook fields")
}
