package main

import (
	"fmt"
	"go/constant"
	"go/token"
	"go/types"
	"sort"
	"strings"

	"golang.org/x/tools/go/ssa"
)

// Linear bounds on SSA integer values (WRITE-FITS, C07-R7).
//
// A LinForm is c + Σ k_t·t over non-negative symbolic terms t (lengths of
// strings/slices, element sums over a ranged slice). Upper bounds take the
// pointwise maximum at joins, lower bounds the pointwise minimum; a counting
// loop over a slice S contributes its per-iteration increment summed over the
// elements of S. Everything else is ⊤ (unknown) and fails the obligation.

type LinForm struct {
	C   int64
	T   map[string]int64
	Top bool
	Why string
}

func lfConst(c int64) LinForm  { return LinForm{C: c, T: map[string]int64{}} }
func lfTerm(t string) LinForm  { return LinForm{T: map[string]int64{t: 1}} }
func lfTop(why string) LinForm { return LinForm{Top: true, Why: why} }

func (a LinForm) clone() LinForm {
	n := LinForm{C: a.C, T: map[string]int64{}, Top: a.Top, Why: a.Why}
	for k, v := range a.T {
		n.T[k] = v
	}
	return n
}

func (a LinForm) add(b LinForm) LinForm {
	if a.Top {
		return a
	}
	if b.Top {
		return b
	}
	n := a.clone()
	n.C += b.C
	for k, v := range b.T {
		n.T[k] += v
		if n.T[k] == 0 {
			delete(n.T, k)
		}
	}
	return n
}

func (a LinForm) scale(k int64) LinForm {
	if a.Top {
		return a
	}
	n := lfConst(a.C * k)
	for t, v := range a.T {
		if v*k != 0 {
			n.T[t] = v * k
		}
	}
	return n
}

// join: pointwise max (upper) or min (lower). Terms are non-negative.
func (a LinForm) join(b LinForm, upper bool) LinForm {
	if a.Top {
		return a
	}
	if b.Top {
		return b
	}
	pick := func(x, y int64) int64 {
		if upper == (x > y) {
			return x
		}
		return y
	}
	n := lfConst(pick(a.C, b.C))
	keys := map[string]bool{}
	for k := range a.T {
		keys[k] = true
	}
	for k := range b.T {
		keys[k] = true
	}
	for k := range keys {
		if v := pick(a.T[k], b.T[k]); v != 0 {
			n.T[k] = v
		}
	}
	return n
}

// leq: a ≤ b for all non-negative values of the terms.
func (a LinForm) leq(b LinForm) bool {
	if a.Top || b.Top {
		return false
	}
	if a.C > b.C {
		return false
	}
	for k, v := range a.T {
		if v > b.T[k] {
			return false
		}
	}
	for k, v := range b.T {
		if v < 0 && a.T[k] > v {
			return false
		}
	}
	return true
}

func (a LinForm) String() string {
	if a.Top {
		return "⊤(" + a.Why + ")"
	}
	var ks []string
	for k := range a.T {
		ks = append(ks, k)
	}
	sort.Strings(ks)
	s := fmt.Sprintf("%d", a.C)
	for _, k := range ks {
		if a.T[k] == 1 {
			s += " + " + k
		} else {
			s += fmt.Sprintf(" + %d·%s", a.T[k], k)
		}
	}
	return s
}

type loopShape struct {
	header *ssa.BasicBlock
	index  ssa.Value // the value compared with the bound (k+1 for range loops, i for classic ones)
	n      LinForm   // trip count
	coll   string    // canonical name of the collection whose length bounds the loop ("" if none)
}

type bounder struct {
	fn     *ssa.Function
	upper  bool
	open   map[*ssa.Phi]bool
	memo   map[ssa.Value]LinForm
	loops  map[*ssa.BasicBlock]*loopShape
	assume map[string]int64 // term -> assumed upper bound (documented)
	used   map[string]bool  // assumptions used
	// guarded copies: copy(buf[off:], src) under the test len(src) <= len(buf)-off;
	// off + (its result) is bounded by the length of buf
	guarded map[*ssa.Call]LinForm
	depth   int // interprocedural depth (helpers evaluated for their callers)
}

func newBounder(fn *ssa.Function, upper bool, assume map[string]int64) *bounder {
	return &bounder{fn: fn, upper: upper, open: map[*ssa.Phi]bool{}, memo: map[ssa.Value]LinForm{}, loops: map[*ssa.BasicBlock]*loopShape{}, assume: assume, used: map[string]bool{}, guarded: map[*ssa.Call]LinForm{}}
}

// pathOf names the memory a string/slice value was loaded from, so that the
// same field read twice gives the same term.
func (b *bounder) pathOf(v ssa.Value, d int) string {
	if d > 8 {
		return v.Name()
	}
	switch x := v.(type) {
	case *ssa.Parameter:
		return x.Name()
	case *ssa.FreeVar:
		return "free:" + x.Name()
	case *ssa.Global:
		return "global:" + x.Name()
	case *ssa.Const:
		if x.Value != nil && x.Value.Kind() == constant.String {
			return fmt.Sprintf("const%q", constant.StringVal(x.Value))
		}
		return "const:" + x.Name()
	case *ssa.UnOp:
		if x.Op == token.MUL {
			return b.pathOf(x.X, d+1)
		}
	case *ssa.FieldAddr:
		return b.pathOf(x.X, d+1) + "." + fieldName(x.X.Type(), x.Field)
	case *ssa.Field:
		return b.pathOf(x.X, d+1) + "." + fieldName(x.X.Type(), x.Field)
	case *ssa.IndexAddr:
		if ls := b.loopOfIndex(x.Index); ls != nil {
			return "elem(" + b.pathOf(x.X, d+1) + ")"
		}
		if c, ok := x.Index.(*ssa.Const); ok {
			return b.pathOf(x.X, d+1) + "[" + c.Value.String() + "]"
		}
		return b.pathOf(x.X, d+1) + "[" + x.Index.Name() + "]"
	case *ssa.Slice:
		if x.Low == nil && x.High == nil {
			return b.pathOf(x.X, d+1)
		}
	case *ssa.Alloc:
		// a local holding one copied value (range variable, struct copy)
		var stored ssa.Value
		nst := 0
		if rs := x.Referrers(); rs != nil {
			for _, r := range *rs {
				if st, ok := r.(*ssa.Store); ok && st.Addr == x {
					nst++
					stored = st.Val
				}
			}
		}
		if nst == 1 {
			return b.pathOf(stored, d+1)
		}
		return x.Name() + ":" + x.Comment
	case *ssa.Convert:
		return b.pathOf(x.X, d+1)
	case *ssa.ChangeType:
		return b.pathOf(x.X, d+1)
	}
	return v.Name()
}

// loopOfIndex: is idx the running index of a recognised counting loop?
func (b *bounder) loopOfIndex(idx ssa.Value) *loopShape {
	for _, blk := range b.fn.Blocks {
		if ls := b.shapeOf(blk); ls != nil && ls.index == idx {
			return ls
		}
	}
	return nil
}

func isLoopHeader(blk *ssa.BasicBlock) bool {
	for _, p := range blk.Preds {
		if blk.Dominates(p) {
			return true
		}
	}
	return false
}

// shapeOf recognises `for k := -1; k+1 < n; k++` (range over slice/array/int)
// and `for i := c; i < n; i++` at a loop header.
func (b *bounder) shapeOf(h *ssa.BasicBlock) *loopShape {
	if ls, ok := b.loops[h]; ok {
		return ls
	}
	b.loops[h] = nil
	if !isLoopHeader(h) || len(h.Instrs) == 0 {
		return nil
	}
	iff, ok := h.Instrs[len(h.Instrs)-1].(*ssa.If)
	if !ok {
		return nil
	}
	cmp, ok := iff.Cond.(*ssa.BinOp)
	if !ok || cmp.Op != token.LSS {
		return nil
	}
	// the index: a header phi (classic) or header phi + 1 (range)
	var phi *ssa.Phi
	idx := cmp.X
	start := int64(0)
	if p, ok := idx.(*ssa.Phi); ok && p.Block() == h {
		phi = p
	} else if add, ok := idx.(*ssa.BinOp); ok && add.Op == token.ADD {
		if p, ok := add.X.(*ssa.Phi); ok && p.Block() == h {
			if c, ok := add.Y.(*ssa.Const); ok && c.Int64() == 1 {
				phi = p
				start = 1
			}
		}
	}
	if phi == nil {
		return nil
	}
	// entry edges constant, back edges = index stepping by one
	for i, e := range phi.Edges {
		back := h.Dominates(h.Preds[i])
		if !back {
			c, ok := e.(*ssa.Const)
			if !ok {
				return nil
			}
			start += c.Int64()
			continue
		}
		if start >= 0 && e == idx && idx != ssa.Value(phi) {
			continue // range form: next k is k+1
		}
		add, ok := e.(*ssa.BinOp)
		if !ok || add.Op != token.ADD || add.X != ssa.Value(phi) {
			return nil
		}
		if c, ok := add.Y.(*ssa.Const); !ok || c.Int64() != 1 {
			return nil
		}
	}
	if start != 0 {
		return nil // only loops that start at the first element
	}
	ls := &loopShape{header: h, index: idx}
	// the bound
	if call, ok := cmp.Y.(*ssa.Call); ok {
		if bi, ok := call.Common().Value.(*ssa.Builtin); ok && bi.Name() == "len" {
			coll := call.Common().Args[0]
			ls.coll = b.pathOf(coll, 0)
			if n, ok := arrayLen(coll); ok {
				ls.n = lfConst(n)
			} else {
				ls.n = lfTerm("len(" + ls.coll + ")")
			}
			b.loops[h] = ls
			return ls
		}
	}
	if c, ok := cmp.Y.(*ssa.Const); ok {
		ls.n = lfConst(c.Int64())
		b.loops[h] = ls
		return ls
	}
	return nil
}

func arrayLen(v ssa.Value) (int64, bool) {
	t := v.Type().Underlying()
	if s, ok := v.(*ssa.Slice); ok && s.Low == nil && s.High == nil {
		t = s.X.Type().Underlying()
	}
	if p, ok := t.(*types.Pointer); ok {
		t = p.Elem().Underlying()
	}
	if a, ok := t.(*types.Array); ok {
		return a.Len(), true
	}
	return 0, false
}

// fieldLenAssume: assumed upper bounds of the lengths of fields (documented in
// the evidence): DBI names are LMDB keys of the main database (at most 511
// bytes); the transform is one of the constants of snapshot/transforms.go.
var fieldLenAssume = map[string]int64{
	"snapshot.DBI.name":      511,
	"snapshot.DBI.transform": 50,
}

// fieldKey: "<pkg>.<Type>.<field>" when v is (a load of) a field of a named
// struct type of the repository.
func fieldKey(v ssa.Value) string {
	if ld, ok := v.(*ssa.UnOp); ok && ld.Op == token.MUL {
		v = ld.X
	}
	var t types.Type
	var idx int
	switch x := v.(type) {
	case *ssa.FieldAddr:
		t, idx = x.X.Type(), x.Field
	case *ssa.Field:
		t, idx = x.X.Type(), x.Field
	default:
		return ""
	}
	if pt, ok := t.Underlying().(*types.Pointer); ok {
		t = pt.Elem()
	}
	n, ok := t.(*types.Named)
	if !ok || n.Obj().Pkg() == nil {
		return ""
	}
	stt, ok := n.Underlying().(*types.Struct)
	if !ok || idx >= stt.NumFields() {
		return ""
	}
	return shortPkg(n.Obj().Pkg().Path()) + "." + n.Obj().Name() + "." + stt.Field(idx).Name()
}

func (b *bounder) lenTerm(x ssa.Value) LinForm {
	if c, ok := x.(*ssa.Const); ok && c.Value != nil && c.Value.Kind() == constant.String {
		return lfConst(int64(len(constant.StringVal(c.Value))))
	}
	if n, ok := arrayLen(x); ok {
		return lfConst(n)
	}
	p := b.pathOf(x, 0)
	if b.upper {
		if lim, ok := b.assume[p]; ok {
			b.used[p] = true
			return lfConst(lim)
		}
		// documented bounds on the length of a struct field, whatever the
		// variable holding the struct is called and wherever it is read
		if k := fieldKey(x); k != "" {
			if lim, ok := fieldLenAssume[k]; ok {
				b.used[k] = true
				return lfConst(lim)
			}
		}
	}
	return lfTerm("len(" + p + ")")
}

// Eval bounds v (closed form: no open loop variables unless requested).
func (b *bounder) Eval(v ssa.Value) LinForm {
	if f, ok := b.memo[v]; ok && len(b.open) == 0 {
		return f
	}
	f := b.eval(v)
	if len(b.open) == 0 {
		b.memo[v] = f
	}
	return f
}

func (b *bounder) eval(v ssa.Value) LinForm {
	switch x := v.(type) {
	case *ssa.Const:
		if x.Value == nil || x.Value.Kind() != constant.Int {
			return lfTop("non-integer constant")
		}
		return lfConst(x.Int64())
	case *ssa.Convert:
		return b.Eval(x.X)
	case *ssa.ChangeType:
		return b.Eval(x.X)
	case *ssa.BinOp:
		switch x.Op {
		case token.ADD:
			for _, pair := range [][2]ssa.Value{{x.X, x.Y}, {x.Y, x.X}} {
				if call, ok := pair[1].(*ssa.Call); ok {
					if lim, isG := b.guarded[call]; isG {
						if sl, ok := call.Common().Args[0].(*ssa.Slice); ok && sl.Low == pair[0] {
							return lim // off + copy(buf[off:], _) ≤ len(buf)
						}
					}
				}
			}
			return b.Eval(x.X).add(b.Eval(x.Y))
		case token.MUL:
			if c, ok := x.Y.(*ssa.Const); ok && c.Value != nil && c.Int64() >= 0 {
				return b.Eval(x.X).scale(c.Int64())
			}
			if c, ok := x.X.(*ssa.Const); ok && c.Value != nil && c.Int64() >= 0 {
				return b.Eval(x.Y).scale(c.Int64())
			}
		case token.SUB:
			if c, ok := x.Y.(*ssa.Const); ok && c.Value != nil {
				return b.Eval(x.X).add(lfConst(-c.Int64()))
			}
		}
		return lfTop("operator " + x.Op.String())
	case *ssa.Call:
		cc := x.Common()
		if bi, ok := cc.Value.(*ssa.Builtin); ok {
			switch bi.Name() {
			case "len":
				return b.lenTerm(cc.Args[0])
			case "copy":
				// the intended length: all of the source
				return b.lenTerm(cc.Args[1])
			case "min":
				if b.upper {
					return b.Eval(cc.Args[0])
				}
			}
			return lfTop("builtin " + bi.Name())
		}
		callee := cc.StaticCallee()
		if callee == nil {
			return lfTop("dynamic call")
		}
		switch calleeName(callee) {
		case "csproto.EncodeTag":
			if b.upper {
				if c, ok := cc.Args[1].(*ssa.Const); ok && c.Value != nil {
					return lfConst(int64(varintSize(uint64(c.Int64())<<3 | 7)))
				}
				return lfConst(5)
			}
			return lfConst(1)
		case "csproto.EncodeVarint":
			if b.upper {
				return lfConst(10)
			}
			return lfConst(1)
		case "csproto.SizeOfVarint":
			if b.upper {
				return lfConst(10)
			}
			return lfConst(1)
		case "csproto.SizeOfTagKey":
			if b.upper {
				return lfConst(5)
			}
			return lfConst(1)
		}
		if callee.Blocks != nil && strings.HasPrefix(fnPkgPath(callee), modPath) && b.depth < 3 {
			return b.evalCallee(x, callee, 0)
		}
		return lfTop("call " + calleeName(callee))
	case *ssa.Parameter:
		if bt, ok := x.Type().Underlying().(*types.Basic); ok && bt.Info()&types.IsInteger != 0 {
			return lfTerm("π:" + x.Name())
		}
	case *ssa.Extract:
		if call, ok := x.Tuple.(*ssa.Call); ok {
			if callee := call.Common().StaticCallee(); callee != nil && callee.Blocks != nil && strings.HasPrefix(fnPkgPath(callee), modPath) && b.depth < 3 {
				return b.evalCallee(call, callee, x.Index)
			}
		}
	case *ssa.Phi:
		if b.open[x] {
			return lfTerm("φ:" + x.Name())
		}
		if isLoopHeader(x.Block()) {
			return b.loopPhi(x)
		}
		var out LinForm
		for i, e := range x.Edges {
			f := b.Eval(e)
			if i == 0 {
				out = f
			} else {
				out = out.join(f, b.upper)
			}
		}
		return out
	case *ssa.UnOp:
		if x.Op == token.MUL {
			// a load from a local written once
			if a, ok := x.X.(*ssa.Alloc); ok {
				var stored ssa.Value
				n := 0
				if rs := a.Referrers(); rs != nil {
					for _, r := range *rs {
						if st, ok := r.(*ssa.Store); ok && st.Addr == a {
							n++
							stored = st.Val
						}
					}
				}
				if n == 1 {
					return b.Eval(stored)
				}
			}
		}
	}
	return lfTop(fmt.Sprintf("%s (%T)", v.Name(), v))
}

// loopPhi: value of a loop-carried variable anywhere in or after the loop is
// at most max(entry values, reset values) + Σ over all iterations of the
// per-iteration increment (increments are non-negative).
func (b *bounder) loopPhi(phi *ssa.Phi) LinForm {
	h := phi.Block()
	base, delta, haveBase, haveDelta := LinForm{}, lfConst(0), false, false
	sym := "φ:" + phi.Name()
	for i, e := range phi.Edges {
		back := h.Dominates(h.Preds[i])
		if !back {
			f := b.Eval(e)
			if !haveBase {
				base, haveBase = f, true
			} else {
				base = base.join(f, b.upper)
			}
			continue
		}
		b.open[phi] = true
		f := b.Eval(e)
		delete(b.open, phi)
		if f.Top {
			return f
		}
		switch f.T[sym] {
		case 1:
			d := f.clone()
			delete(d.T, sym)
			if !haveDelta {
				delta, haveDelta = d, true
			} else {
				delta = delta.join(d, b.upper)
			}
		case 0:
			// reset inside the loop
			if !haveBase {
				base, haveBase = f, true
			} else {
				base = base.join(f, b.upper)
			}
		default:
			return lfTop("loop variable " + phi.Comment + " is scaled")
		}
	}
	if !haveBase {
		return lfTop("loop variable without entry value")
	}
	if !haveDelta || (delta.C == 0 && len(delta.T) == 0) {
		return base
	}
	if delta.C < 0 {
		return lfTop("decreasing loop variable")
	}
	for _, k := range delta.T {
		if k < 0 {
			return lfTop("decreasing loop variable")
		}
	}
	tot := b.total(h, delta)
	return base.add(tot)
}

// perIteration returns the (open) per-iteration increment bound of a loop
// variable, for comparing partial sums inside an iteration with it.
func (b *bounder) perIteration(phi *ssa.Phi) LinForm {
	h := phi.Block()
	sym := "φ:" + phi.Name()
	delta, have := lfConst(0), false
	for i, e := range phi.Edges {
		if !h.Dominates(h.Preds[i]) {
			continue
		}
		b.open[phi] = true
		f := b.Eval(e)
		delete(b.open, phi)
		if f.Top || f.T[sym] != 1 {
			continue
		}
		d := f.clone()
		delete(d.T, sym)
		if !have {
			delta, have = d, true
		} else {
			delta = delta.join(d, b.upper)
		}
	}
	return delta
}

// total sums a per-iteration increment over all iterations of the loop at h.
func (b *bounder) total(h *ssa.BasicBlock, delta LinForm) LinForm {
	ls := b.shapeOf(h)
	if ls == nil {
		return lfTop("loop at block " + fmt.Sprint(h.Index) + " is not a recognised counting loop")
	}
	out := lfConst(0)
	// constant part: c per iteration
	if delta.C != 0 {
		if len(ls.n.T) == 0 {
			out.C += delta.C * ls.n.C
		} else {
			out = out.add(ls.n.scale(delta.C))
		}
	}
	for t, k := range delta.T {
		el := "elem(" + ls.coll + ")"
		switch {
		case ls.coll != "" && strings.Contains(t, el):
			out = out.add(lfTerm("Σ" + strings.Replace(t, el, ls.coll+"[*]", 1)).scale(k))
		case len(ls.n.T) == 0:
			out = out.add(lfTerm(t).scale(k * ls.n.C))
		default:
			return lfTop("loop-invariant term " + t + " added in a loop of symbolic length")
		}
	}
	return out
}

// loopBody: the natural loop of header h.
func loopBody(h *ssa.BasicBlock) map[*ssa.BasicBlock]bool {
	body := map[*ssa.BasicBlock]bool{h: true}
	var stack []*ssa.BasicBlock
	for _, p := range h.Preds {
		if h.Dominates(p) && !body[p] {
			body[p] = true
			stack = append(stack, p)
		}
	}
	for len(stack) > 0 {
		x := stack[len(stack)-1]
		stack = stack[:len(stack)-1]
		for _, p := range x.Preds {
			if !body[p] {
				body[p] = true
				stack = append(stack, p)
			}
		}
	}
	return body
}

// EvalAt bounds u + extra at a use in block use. Inside the loop of a
// loop-carried variable v, a value v + partial is within the loop total when
// this iteration's partial sum is within the per-iteration increment
// (v = entry + Σ earlier iterations).
func (b *bounder) EvalAt(u ssa.Value, extra LinForm, use *ssa.BasicBlock) LinForm {
	var phis []*ssa.Phi
	for _, blk := range b.fn.Blocks {
		if !isLoopHeader(blk) {
			continue
		}
		for _, in := range blk.Instrs {
			p, ok := in.(*ssa.Phi)
			if !ok {
				break
			}
			phis = append(phis, p)
		}
	}
	for _, p := range phis {
		b.open[p] = true
	}
	f := b.Eval(u)
	for _, p := range phis {
		delete(b.open, p)
	}
	if f.Top {
		return f
	}
	f = f.add(extra)
	partial := lfConst(f.C)
	var syms []*ssa.Phi
	for t, k := range f.T {
		if !strings.HasPrefix(t, "φ:") {
			partial = partial.add(lfTerm(t).scale(k))
			continue
		}
		if k != 1 {
			return lfTop("scaled loop variable")
		}
		for _, p := range phis {
			if "φ:"+p.Name() == t {
				syms = append(syms, p)
			}
		}
	}
	switch len(syms) {
	case 0:
		return b.sumElems(partial)
	case 1:
		p := syms[0]
		closed := b.Eval(p)
		if closed.Top {
			return closed
		}
		if loopBody(p.Block())[use] && partial.leq(b.perIteration(p)) {
			return closed
		}
		return closed.add(b.sumElems(partial))
	}
	return lfTop("several loop variables in one offset")
}

func hasOpen(f LinForm) bool {
	for t := range f.T {
		if strings.HasPrefix(t, "φ:") {
			return true
		}
	}
	return false
}

// sumElems: len(elem(S).f) ≤ Σlen(S[*].f).
func (b *bounder) sumElems(f LinForm) LinForm {
	if f.Top {
		return f
	}
	out := lfConst(f.C)
	for t, k := range f.T {
		if i := strings.Index(t, "elem("); i >= 0 {
			j := strings.Index(t[i:], ")")
			coll := t[i+5 : i+j]
			t = "Σ" + t[:i] + coll + "[*]" + t[i+j+1:]
		}
		out = out.add(lfTerm(t).scale(k))
	}
	return out
}

// evalCallee bounds result idx of a call to a repository function by bounding
// the callee's returned values and expressing them in the caller's terms.
func (b *bounder) evalCallee(call *ssa.Call, callee *ssa.Function, idx int) LinForm {
	cb := newBounder(callee, b.upper, nil)
	cb.depth = b.depth + 1
	var out LinForm
	n := 0
	for _, blk := range callee.Blocks {
		ret, ok := blk.Instrs[len(blk.Instrs)-1].(*ssa.Return)
		if !ok || idx >= len(ret.Results) {
			continue
		}
		f := cb.Eval(ret.Results[idx])
		if n == 0 {
			out = f
		} else {
			out = out.join(f, b.upper)
		}
		n++
	}
	if n == 0 {
		return lfTop("callee " + calleeName(callee) + " does not return")
	}
	return b.subst(out, callee, call.Common().Args)
}

// subst rewrites a bound over the callee's parameters into the caller's terms.
func (b *bounder) subst(f LinForm, callee *ssa.Function, args []ssa.Value) LinForm {
	if f.Top {
		return f
	}
	out := lfConst(f.C)
	for t, k := range f.T {
		done := false
		for i, p := range callee.Params {
			if i >= len(args) {
				break
			}
			pn := p.Name()
			switch {
			case t == "π:"+pn:
				out = out.add(b.Eval(args[i]).scale(k))
				done = true
			case t == "len("+pn+")":
				out = out.add(b.lenTerm(args[i]).scale(k))
				done = true
			case strings.HasPrefix(t, "len("+pn+"."):
				out = out.add(lfTerm("len(" + b.pathOf(args[i], 0) + t[len("len("+pn):]).scale(k))
				done = true
			}
			if done {
				break
			}
		}
		if !done {
			out = out.add(lfTerm(t).scale(k))
		}
	}
	return out
}
