package main

import (
	"fmt"
	"regexp/syntax"
	"strings"
)

// Rules on snapshot names (C15).

// layoutTokens tokenises a Go time layout into fields; ok=false when it
// contains an element that is not fixed-width, zero-padded and numeric.
func layoutTokens(l string) (fields []string, ok bool) {
	std := []struct{ tok, name string }{
		{"2006", "year"}, {"01", "month"}, {"02", "day"}, {"15", "hour"}, {"04", "minute"}, {"05", "second"},
	}
	i := 0
	for i < len(l) {
		matched := false
		for _, s := range std {
			if strings.HasPrefix(l[i:], s.tok) {
				fields = append(fields, s.name)
				i += len(s.tok)
				matched = true
				break
			}
		}
		if matched {
			continue
		}
		if (l[i] == '.' || l[i] == ',') && i+1 < len(l) && l[i+1] == '0' {
			j := i + 1
			for j < len(l) && l[j] == '0' {
				j++
			}
			fields = append(fields, fmt.Sprintf("frac%d", j-i-1))
			i = j
			continue
		}
		switch l[i] {
		case '-', '_', 'T':
			i++
			continue
		}
		// anything else (month names, am/pm, zones, "2", "1", "9" fractions, ...) is not fixed-width numeric
		return fields, false
	}
	return fields, true
}

func ruleNameLayout(c *Check, rule string) {
	tf, ok := c.constValue("snapshot", "timeFormat")
	di, _ := c.constValue("snapshot", "dotIndex")
	if !ok {
		c.Undecided(rule, "snapshot.timeFormat", "constant not found", "")
		return
	}
	fields, fixed := layoutTokens(tf)
	want := []string{"year", "month", "day", "hour", "minute", "second", "frac9"}
	c.Expect(fixed && strings.Join(fields, ",") == strings.Join(want, ","), rule, "snapshot.timeFormat",
		fmt.Sprintf("the name's time layout %q consists of fixed-width zero-padded numeric fields, most significant first, down to nanoseconds: byte order of names equals time order", tf),
		fmt.Sprintf("the name's time layout %q tokenises to %v (fixed-width: %v); it must be year, month, day, hour, minute, second, 9-digit fraction in that order, all fixed-width numeric", tf, fields, fixed), "")
	c.Expect(fmt.Sprint(strings.IndexByte(tf, '.')) == di && strings.Count(tf, ".") == 1, rule, "snapshot.dotIndex", "dotIndex is the position of the single '.' of the layout", fmt.Sprintf("dotIndex=%s but the '.' of %q is at %d", di, tf, strings.IndexByte(tf, '.')), "")
	// NameTimestamp: UTC, that layout, '.' -> '-'
	name := "snapshot.NameTimestamp"
	fn, paths := c.walkFn(rule, name, WalkConfig{})
	if paths == nil {
		return
	}
	okp := len(paths) == 1
	if okp {
		p := &paths[0]
		f := callsOf(p, "(time.Time).Format")
		r := callsOf(p, "strings.Replace")
		okp = len(f) == 1 && len(r) == 1 && f[0].Args[0] == "(time.Time).UTC("+param(fn, 0)+")" && f[0].Args[1] == fmt.Sprintf("const:%q", tf) &&
			r[0].Args[0] == f[0].Res && r[0].Args[1] == "const:\".\"" && r[0].Args[2] == "const:\"-\"" && r[0].Args[3] == "const:1" && p.Rets[0] == r[0].Res
	}
	c.Expect(okp, rule, name, "the timestamp string is ts.UTC().Format(timeFormat) with the '.' replaced by '-' once", "NameTimestamp is not Replace(ts.UTC().Format(timeFormat), \".\", \"-\", 1): without the UTC conversion names of one instance do not sort by time across zone/DST changes and do not round-trip", c.P.Pos(fn.Pos()))
}

func ruleBuildParse(c *Check, rule string) {
	// BuildName: order and separators
	bn := "snapshot.(NameInfo).BuildName"
	bf, bps := c.walkFn(rule, bn, WalkConfig{})
	if bps == nil {
		return
	}
	ni := param(bf, 0)
	okb, nb := true, 0
	for i := range bps {
		p := &bps[i]
		if p.End != "return" {
			// extras loop: "__" + item
			ws := callsOf(p, "(*strings.Builder).WriteString")
			if len(ws) >= 2 {
				a, b := ws[len(ws)-2], ws[len(ws)-1]
				if a.Args[1] != "const:\"__\"" || !strings.HasPrefix(b.Args[1], "snapshot.(NameExtraItem).String@") {
					okb = false
				}
			}
			continue
		}
		nb++
		var seq []string
		for _, w := range callsOf(p, "(*strings.Builder).WriteString") {
			seq = append(seq, w.Args[1])
		}
		ts := ni + ".TimestampString"
		if e, _ := condTruth(p, ni+".TimestampString", -1); e {
			for _, nt := range callsOf(p, "snapshot.NameTimestamp") {
				if nt.Args[0] == ni+".Timestamp" {
					ts = nt.Res
				}
			}
		}
		want := []string{ni + ".SyncerName", "const:\"__\"", ni + ".InstanceID", "const:\"__\"", ts, "const:\"__\"", ni + ".GenerationID", "const:\".\"", ni + ".Extension"}
		if strings.Join(seq, "|") != strings.Join(want, "|") {
			okb = false
			c.Bad(rule, bn+"/order", fmt.Sprintf("the name is built from %v; expected database __ instance __ timestamp __ generation [__ extras] . extension", seq), c.pathPos(p), nil)
		}
	}
	if okb && nb > 0 {
		c.Ok(rule, bn+"/order", "BuildName writes SyncerName, InstanceID, timestamp (TimestampString or NameTimestamp(Timestamp)), GenerationID separated by \"__\", extras each preceded by \"__\", then \".\" and the extension", c.P.Pos(bf.Pos()))
	}
	// the extra item is written as it is: String() is the identity on the item's bytes
	sn := "snapshot.(NameExtraItem).String"
	if sf, sps := c.walkFn(rule, sn, WalkConfig{}); sps != nil {
		rcv := param(sf, 0)
		oks := len(sps) > 0
		for i := range sps {
			p := &sps[i]
			if p.End != "return" || len(p.Rets) != 1 || !(p.Rets[0] == rcv || p.Rets[0] == "conv:string("+rcv+")") {
				oks = false
				c.Bad(rule, sn+"/identity", fmt.Sprintf("the extra item is written to the name as %v, not as the item itself: what ParseName reads back differs from what BuildName was given (a byte converted as a rune, a trimmed or re-assembled value)", p.Rets), c.pathPos(p), nil)
			}
		}
		if oks {
			c.Ok(rule, sn+"/identity", "NameExtraItem.String returns the item unchanged on every path: extras round-trip byte for byte", c.P.Pos(sf.Pos()))
		}
	}
	// ParseName
	pn := "snapshot.ParseName"
	pf, pps := c.walkFn(rule, pn, WalkConfig{})
	if pps == nil {
		return
	}
	name := param(pf, 0)
	tf, _ := c.constValue("snapshot", "timeFormat")
	di, _ := c.constValue("snapshot", "dotIndex")
	nOK, bad := 0, 0
	for i := range pps {
		p := &pps[i]
		if p.End != "return" || !retIsNilErr(p) {
			continue
		}
		nOK++
		cut := callsOf(p, "strings.Cut")
		sp := callsOf(p, "strings.Split")
		tp := callsOf(p, "time.Parse")
		if len(cut) != 1 || cut[0].Args[0] != name || cut[0].Args[1] != "const:\".\"" {
			bad++
			c.Bad(rule, pn+"/extension-at-first-dot", "the extension is not what follows the first '.' of the name (strings.Cut(name, \".\")): names with further dotted parts before a registered extension would be taken for snapshots", c.pathPos(p), describe(c, p))
			continue
		}
		found, f0 := boolCond(p, cut[0].Res+"#2", -1)
		known, f1 := condTruth(p, "lookup(global:snapshot.registeredExtensions,"+cut[0].Res+"#1)", -1)
		if !(f0 && found && f1 && known) {
			bad++
			c.Bad(rule, pn+"/extension-registered", "a name is accepted without a dot or without its whole extension being a registered one", c.pathPos(p), describe(c, p))
		}
		if len(sp) != 1 || sp[0].Args[0] != cut[0].Res+"#0" || sp[0].Args[1] != "const:\"__\"" || p.State.RelOf("int", "len("+sp[0].Res+")", "const:4")&LT != 0 {
			bad++
			c.Bad(rule, pn+"/fields-split", "the base name is not split on \"__\" into at least four fields", c.pathPos(p), describe(c, p))
			continue
		}
		S := sp[0].Res
		for f, idx := range map[string]int{"SyncerName": 0, "InstanceID": 1, "TimestampString": 2, "GenerationID": 3} {
			got, _ := litField(p.Rets[0], f)
			if got != fmt.Sprintf("%s[const:%d]", S, idx) {
				bad++
				c.Bad(rule, pn+"/field:"+f, fmt.Sprintf("%s is taken from %q, expected field %d of the split base name (the order BuildName writes)", f, got, idx), c.pathPos(p), nil)
			}
		}
		tss := S + "[const:2]"
		lenOK := p.State.RelOf("int", "len("+tss+")", fmt.Sprintf("const:%d", len(tf))) == EQ
		dashOK := p.State.RelOf("int", tss+"[const:"+di+"]", "const:45") == EQ
		wantArg := "((slice(" + tss + ",,const:" + di + ",) + const:\".\") + slice(" + tss + ",const:" + fmt.Sprint(mustAtoi(di)+1) + ",,))"
		if !(lenOK && dashOK && len(tp) == 1 && tp[0].Args[0] == fmt.Sprintf("const:%q", tf) && tp[0].Args[1] == wantArg) {
			bad++
			c.Bad(rule, pn+"/timestamp", "the timestamp field is not checked for the layout's length and the '-' at dotIndex and then parsed with timeFormat after restoring the '.'", c.pathPos(p), describe(c, p))
		} else if tr, f := boolCond(p, "isnil("+tp[0].Res+"#1)", -1); !f || !tr {
			bad++
			c.Bad(rule, pn+"/timestamp-error", "a timestamp parse error does not reject the name", c.pathPos(p), nil)
		} else {
			// time.Parse is lenient (it accepts a sign in the fraction): only a
			// field that re-encodes to itself sorts like the time it carries
			parsed := tp[0].Res + "#0"
			canonical := false
			for j := range p.Events {
				e := &p.Events[j]
				if e.Kind != "call" || e.Res == "" {
					continue
				}
				uses := false
				for _, a := range e.Args {
					if a == parsed || strings.Contains(a, "("+parsed+")") {
						uses = true
					}
				}
				if !uses || !(strings.HasSuffix(e.Callee, "snapshot.NameTimestamp") || e.Callee == "(time.Time).Format" || e.Callee == "(time.Time).AppendFormat") {
					continue
				}
				if p.State.RelOf("str", e.Res, tss) == EQ || p.State.RelOf("str", e.Res, wantArg) == EQ {
					canonical = true
				}
			}
			if !canonical {
				bad++
				c.Bad(rule, pn+"/timestamp-canonical", "a name is accepted without its timestamp field having been compared with the re-encoding of the parsed time: time.Parse tolerates non-canonical fields (a sign in the fraction), and such a name does not sort like the time it carries (the last name of a listing is then not the newest snapshot)", c.pathPos(p), describe(c, p))
			}
		}
	}
	if bad == 0 && nOK > 0 {
		c.Ok(rule, pn, fmt.Sprintf("%d accepting paths: extension = everything after the first '.', registered; base name split on \"__\" into >= 4 fields assigned in BuildName's order; timestamp of the layout's length with '-' at dotIndex, parsed with timeFormat", nOK), c.P.Pos(pf.Pos()))
	}
	c.Floor(rule, nOK, 1, "accepting paths of ParseName")
	ext, _ := c.constValue("snapshot", "DefaultExtension")
	kind, _ := c.constValue("snapshot", "KindSnapshot")
	c.Expect(ext == "pb.gz" && kind == "snapshot", rule, "snapshot.DefaultExtension", "snapshots use extension pb.gz, kind \"snapshot\"", fmt.Sprintf("DefaultExtension=%q KindSnapshot=%q", ext, kind), "")
}

func mustAtoi(s string) int {
	n := 0
	fmt.Sscan(s, &n)
	return n
}

// R3 SANITISER.
func ruleSanitiser(c *Check, rule string) {
	name := "syncer.(*Syncer).instanceID"
	fn, paths := c.walkFn(rule, name, WalkConfig{})
	if paths == nil {
		return
	}
	pos := c.P.Pos(fn.Pos())
	bad := 0
	for i := range paths {
		p := &paths[i]
		ra := callsOf(p, "(*regexp.Regexp).ReplaceAllString")
		if !(p.End == "return" && len(ra) == 1 && p.Rets[0] == ra[0].Res && ra[0].Args[0] == "global:syncer.reUnsafe" && ra[0].Args[2] == "const:\"-\"") {
			bad++
			c.Bad(rule, name+"/sanitised-on-every-path", "instanceID() returns a name that did not pass reUnsafe.ReplaceAllString(n, \"-\") on this path (e.g. the host name fallback): dots or \"__\" in it break parsing of this instance's snapshot names by every receiver and cleaner", c.pathPos(p), describe(c, p))
		}
	}
	if bad == 0 {
		c.Ok(rule, name+"/sanitised-on-every-path", fmt.Sprintf("all %d paths (configured instance or host name fallback) return reUnsafe.ReplaceAllString(n, \"-\")", len(paths)), pos)
	}
	// the regular expression: complement of a class that excludes '_' and '.'
	pat := ""
	if init := c.P.Func("syncer.init"); init != nil {
		w := Walk(c.P, init, WalkConfig{})
		for i := range w.Paths {
			for _, e := range callsOf(&w.Paths[i], "regexp.MustCompile") {
				for _, ev := range w.Paths[i].Events {
					if ev.Kind == "store" && ev.Addr == "&global:syncer.reUnsafe" && ev.Val == e.Res {
						pat = strings.TrimSuffix(strings.TrimPrefix(e.Args[0], "const:\""), "\"")
					}
				}
			}
		}
	}
	if pat == "" {
		c.Undecided(rule, "syncer.reUnsafe", "cannot find the pattern reUnsafe is compiled from", pos)
		return
	}
	re, err := syntax.Parse(pat, syntax.Perl)
	okc := err == nil && re.Op == syntax.OpCharClass
	var unsafeHit []string
	if okc {
		in := func(r rune) bool {
			for i := 0; i+1 < len(re.Rune); i += 2 {
				if r >= re.Rune[i] && r <= re.Rune[i+1] {
					return true
				}
			}
			return false
		}
		// every character that has a meaning in names must be replaced
		for _, r := range "_./\\ \t\n\x00:*?\"<>|é" {
			if !in(r) {
				unsafeHit = append(unsafeHit, string(r))
			}
		}
		// letters, digits and dash stay
		for _, r := range "azAZ09-" {
			if in(r) {
				okc = false
			}
		}
	}
	c.Expect(okc && len(unsafeHit) == 0, rule, "syncer.reUnsafe", fmt.Sprintf("reUnsafe = %q is a single character class matching (and so replacing) '_', '.', path and control characters and everything outside [a-zA-Z0-9-]", pat), fmt.Sprintf("reUnsafe = %q does not replace %q (or replaces letters/digits/dash): sanitised names could contain the separators", pat, unsafeHit), pos)
	// Config.Instance is read only inside instanceID()
	nRead := 0
	for _, f := range c.P.RepoFuncs() {
		if !strings.HasPrefix(QualName(f), "syncer.") {
			continue
		}
		for _, b := range f.Blocks {
			for _, in := range b.Instrs {
				if s := fmt.Sprint(in); strings.Contains(s, ".Instance [#") && (strings.Contains(s, "&t") || strings.Contains(s, "field")) {
					_ = s
				}
			}
		}
	}
	readers := fieldReaders(c.P, "Config", "Instance")
	for fnName := range readers {
		nRead++
		if strings.HasPrefix(fnName, "syncer.") && fnName != name || strings.HasPrefix(fnName, "syncer/") {
			c.Bad(rule, "reader:"+fnName, "the configured instance name is read in "+fnName+" without going through instanceID() (unsanitised)", "", nil)
		}
	}
	c.OkTrivial(rule, "Config.Instance-readers", fmt.Sprintf("%d functions read Config.Instance", nRead), "")
}
