package main

import (
	"bytes"
	"fmt"
	"go/types"
	"strings"
)

// Rules on the dupsort hack (C20): the encode/decode tables are extracted from
// the code and interpreted on representative (key, value) pairs.

// pathResolver resolves append results and constant-size make() buffers of a path.
func pathResolver(p *Path, bind Bindings) func(string) (TVal, bool) {
	var res func(string) (TVal, bool)
	res = func(leaf string) (TVal, bool) {
		if strings.HasPrefix(leaf, "&alloc:makeslice") {
			return Bv(make([]byte, 4096)), true
		}
		for i := range p.Events {
			e := &p.Events[i]
			if e.Kind == "call" && e.Res == leaf && e.Callee == "builtin:append" && len(e.Args) == 2 {
				a, err := EvalTermR(e.Args[0], bind, res)
				if err != nil || a.K != "b" {
					return TVal{}, false
				}
				b, err := EvalTermR(e.Args[1], bind, res)
				if err != nil || b.K != "b" {
					return TVal{}, false
				}
				return Bv(append(append([]byte{}, a.B...), b.B...)), true
			}
		}
		return TVal{}, false
	}
	return res
}

func selectPathR(paths []Path, bind Bindings) (int, error) {
	found := -1
	for i := range paths {
		p := &paths[i]
		res := pathResolver(p, bind)
		ok := true
		for _, e := range p.Events {
			if e.Kind != "cond" {
				continue
			}
			a := e.Cond.Atom
			var h bool
			if a.Kind == "bool" {
				v, err := EvalTermR(a.A, bind, res)
				if err != nil {
					return -1, fmt.Errorf("path %d: %w", i, err)
				}
				h = v.T == e.Cond.Truth
			} else {
				l, err := EvalTermR(a.A, bind, res)
				if err != nil {
					return -1, fmt.Errorf("path %d: %w", i, err)
				}
				r, err := EvalTermR(a.B, bind, res)
				if err != nil {
					return -1, fmt.Errorf("path %d: %w", i, err)
				}
				var rel Rel
				switch {
				case l.K == "u" && r.K == "u":
					rel = evalRelU(l.U, r.U)
				case l.K == "b" && r.K == "b":
					rel = evalRel(int64(bytes.Compare(l.B, r.B)), 0)
				default:
					return -1, fmt.Errorf("path %d: comparison of %s and %s", i, l.K, r.K)
				}
				h = (a.R&rel != 0) == e.Cond.Truth
			}
			if !h {
				ok = false
				break
			}
		}
		if ok {
			if found >= 0 {
				return -1, fmt.Errorf("paths %d and %d both match", found, i)
			}
			found = i
		}
	}
	if found < 0 {
		return -1, fmt.Errorf("no path matches")
	}
	return found, nil
}

func evalRelU(a, b uint64) Rel {
	switch {
	case a < b:
		return LT
	case a > b:
		return GT
	}
	return EQ
}

func ruleDupSortCodec(c *Check, rConst, rRound string) {
	encN, decN := "syncer.dupSortHackEncodeOne", "syncer.dupSortHackDecodeOne"
	ef, eps := c.walkFn(rRound, encN, WalkConfig{})
	df, dps := c.walkFn(rRound, decN, WalkConfig{})
	if eps == nil || dps == nil {
		return
	}
	maxKey, _ := c.constValue("syncer", "LMDBMaxKeySize")
	hackMax, _ := c.constValue("syncer", "DupSortHackMaxKeySize")
	sMax, _ := c.constValue("lmdbenv/strategy", "LMDBMaxKeySize")
	var mk, hm int
	fmt.Sscan(maxKey, &mk)
	fmt.Sscan(hackMax, &hm)
	c.Expect(mk == 511 && sMax == maxKey && hm <= 255 && hm >= 1 && mk-(hm+4+1) >= 0, rConst, "dupsort-constants",
		fmt.Sprintf("LMDBMaxKeySize %d (LMDB's limit, same in both packages), DupSortHackMaxKeySize %d fits the one-byte length and leaves room for separator and length byte", mk, hm),
		fmt.Sprintf("constants inconsistent: LMDBMaxKeySize=%s (strategy: %s), DupSortHackMaxKeySize=%s; need 511, <=255, and 511-(max+5) >= 0", maxKey, sMax, hackMax), c.P.Pos(ef.Pos()))

	e := param(ef, 0)
	de := param(df, 0)
	keys := [][]byte{[]byte("k"), []byte("key"), {0}, []byte("a\x00"), []byte("zone\x00"), []byte("ab\x00\x00\x00\x00c"), []byte("\x00\x00\x00\x00"), bytes.Repeat([]byte("K"), hm), bytes.Repeat([]byte{0}, 7)}
	if hm > 2 {
		keys = append(keys, bytes.Repeat([]byte("M"), hm-1))
	}
	badKeys := [][]byte{{}, bytes.Repeat([]byte("X"), hm+1), bytes.Repeat([]byte("X"), mk)}
	vals := [][]byte{{}, []byte("v"), []byte("\x00v"), []byte("\x00\x00\x00\x00\x05"), bytes.Repeat([]byte("V"), 600), bytes.Repeat([]byte{0}, 520)}
	for _, n := range []int{mk - 5 - 1 - 1, mk - 5 - 1, mk - 5, mk - 5 - 3, mk - 5 - 3 + 1, mk - hm - 5, mk - hm - 5 + 1} {
		if n > 0 {
			vals = append(vals, bytes.Repeat([]byte("L"), n))
		}
	}
	n, bad := 0, 0
	report := func(kind string, k, v []byte, msg string) {
		bad++
		c.Bad(rRound, fmt.Sprintf("dupsort-roundtrip/%s:keylen=%d,vallen=%d", kind, len(k), len(v)), msg, c.P.Pos(ef.Pos()), nil)
	}
	for _, k := range badKeys {
		b := Bindings{e + ".Key": Bv(k), e + ".Value": Bv([]byte("v")), e + ".Flags": U(0)}
		i, err := selectPathR(eps, b)
		if err != nil {
			c.Undecided(rRound, encN+"/table", "cannot evaluate the encode table: "+err.Error(), c.P.Pos(ef.Pos()))
			return
		}
		n++
		if retIsNilErr(&eps[i]) {
			report("refuse", k, nil, fmt.Sprintf("a key of %d bytes is encoded instead of being refused (empty keys and keys over %d bytes cannot be mapped reversibly)", len(k), hm))
		}
	}
	for _, k := range keys {
		for _, v := range vals {
			b := Bindings{e + ".Key": Bv(k), e + ".Value": Bv(v), e + ".Flags": U(1)}
			i, err := selectPathR(eps, b)
			if err != nil {
				c.Undecided(rRound, encN+"/table", "cannot evaluate the encode table: "+err.Error(), c.P.Pos(ef.Pos()))
				return
			}
			n++
			p := &eps[i]
			if !retIsNilErr(p) {
				report("encode-refused", k, v, "a legal (key, value) pair is refused by the encoder")
				continue
			}
			res := pathResolver(p, b)
			kt, _ := litField(p.Rets[0], "Key")
			vt, _ := litField(p.Rets[0], "Value")
			ft, _ := litField(p.Rets[0], "Flags")
			ek, err1 := EvalTermR(kt, b, res)
			ev, err2 := EvalTermR(vt, b, res)
			efl, err3 := EvalTermR(ft, b, res)
			if err1 != nil || err2 != nil || err3 != nil {
				c.Undecided(rRound, encN+"/result", fmt.Sprintf("cannot evaluate the encoder's result %s: %v %v %v", p.Rets[0], err1, err2, err3), c.pathPos(p))
				return
			}
			if len(ek.B) > mk || len(ek.B) == 0 {
				report("length", k, v, fmt.Sprintf("the shadow key has %d bytes; LMDB keys are limited to %d", len(ek.B), mk))
			}
			if !bytes.HasPrefix(ek.B, k) || !bytes.Equal(ev.B, v) || efl.U != 1 {
				report("encode-content", k, v, "the encoded entry does not start with the original key, keep the value or keep the flags")
			}
			// decode
			db := Bindings{de + ".Key": Bv(ek.B), de + ".Value": Bv(ev.B), de + ".Flags": U(efl.U)}
			j, err := selectPathR(dps, db)
			if err != nil {
				if strings.Contains(err.Error(), "would panic") {
					report("decode-panics", k, v, "decoding the encoder's output would index out of range: "+err.Error())
					continue
				}
				c.Undecided(rRound, decN+"/table", "cannot evaluate the decode table: "+err.Error(), c.P.Pos(df.Pos()))
				return
			}
			dp := &dps[j]
			if !retIsNilErr(dp) {
				report("decode-refused", k, v, "the decoder refuses what the encoder produced")
				continue
			}
			dres := pathResolver(dp, db)
			dkt, _ := litField(dp.Rets[0], "Key")
			dvt, _ := litField(dp.Rets[0], "Value")
			dk, err1 := EvalTermR(dkt, db, dres)
			dv, err2 := EvalTermR(dvt, db, dres)
			if err1 != nil || err2 != nil {
				c.Undecided(rRound, decN+"/result", fmt.Sprintf("cannot evaluate the decoder's result %s: %v %v", dp.Rets[0], err1, err2), c.pathPos(dp))
				return
			}
			if !bytes.Equal(dk.B, k) || !bytes.Equal(dv.B, v) {
				report("roundtrip", k, v, fmt.Sprintf("decode(encode(key=%q, value of %d bytes)) returns key %q, value of %d bytes", k, len(v), dk.B, len(dv.B)))
			}
		}
	}
	// hostile shadow keys are refused, not misread
	for _, hk := range [][]byte{{}, []byte("abc"), []byte("k\x00\x00\x00\x00\x09"), []byte("key\x00\x00\x00Xv\x03"), bytes.Repeat([]byte{0xff}, 6)} {
		db := Bindings{de + ".Key": Bv(hk), de + ".Value": Bv([]byte("v")), de + ".Flags": U(0)}
		j, err := selectPathR(dps, db)
		n++
		if err != nil {
			if strings.Contains(err.Error(), "would panic") {
				report("decode-hostile-panics", hk, nil, fmt.Sprintf("decoding the malformed shadow key %q would index out of range", hk))
				continue
			}
			c.Undecided(rRound, decN+"/table", "cannot evaluate the decode table on a malformed key: "+err.Error(), c.P.Pos(df.Pos()))
			return
		}
		if retIsNilErr(&dps[j]) {
			report("decode-hostile-accepted", hk, nil, fmt.Sprintf("the malformed shadow key %q is decoded instead of being refused", hk))
		}
	}
	c.Evaluations += n
	if bad == 0 {
		c.Ok(rRound, "dupsort-roundtrip", fmt.Sprintf("%d cells: the extracted encode table maps every legal (key, value) (keys with zero bytes, values with zero bytes next to the separator, values longer than the room left, boundary lengths) to a key of at most %d bytes from which the extracted decode table recovers exactly the pair; empty/oversized keys and malformed shadow keys are refused", n, mk), c.P.Pos(ef.Pos()))
	}
}

// C20-R4: uniqueness and order check while encoding a whole DBI.
func ruleDupSortUnique(c *Check, rule string) {
	name := "syncer.dupSortHackEncode$map"
	fn, paths := c.walkFn(rule, name, WalkConfig{})
	if paths == nil {
		return
	}
	pos := c.P.Pos(fn.Pos())
	cells := map[string]int{}
	bad := 0
	// the previous shadow key: the captured byte slice
	prev := freeOfType(fn, func(t types.Type) bool { return isByteSlice(t) })
	if prev == "" {
		c.Undecided(rule, name+"/previous-key", "the callback does not capture exactly one byte slice (the previous shadow key)", pos)
		return
	}
	for i := range paths {
		p := &paths[i]
		enc := callsOf(p, "syncer.dupSortHackEncodeOne")
		if len(enc) != 1 {
			bad++
			c.Bad(rule, name+"/encode-one", "an entry is not passed through dupSortHackEncodeOne exactly once", c.pathPos(p), nil)
			continue
		}
		okE, f := boolCond(p, "isnil("+enc[0].Res+"#1)", -1)
		if f && !okE {
			if retIsNilErr(p) {
				bad++
				c.Bad(rule, name+"/encode-error", "an encoding error is not returned", c.pathPos(p), nil)
			}
			continue
		}
		r := p.State.RelOf("bytes", "*free:"+prev, enc[0].Res+"#0.Key")
		prevSet := false
		for _, e := range p.Events {
			if e.Kind == "store" && e.Addr == "free:"+prev && e.Val == enc[0].Res+"#0.Key" {
				prevSet = true
			}
		}
		switch r {
		case EQ:
			cells["equal⇒error"]++
			if retIsNilErr(p) {
				bad++
				c.Bad(rule, name+"/duplicate-refused", "two entries mapping to the same shadow key are accepted (one pair would silently overwrite the other)", c.pathPos(p), describe(c, p))
			}
		case GT:
			cells["descending⇒error"]++
			if retIsNilErr(p) {
				bad++
				c.Bad(rule, name+"/order-refused", "a shadow key sorting before its predecessor is accepted", c.pathPos(p), describe(c, p))
			}
		case LT:
			cells["ascending⇒accepted"]++
			if !retIsNilErr(p) || !prevSet {
				bad++
				c.Bad(rule, name+"/ascending-accepted", "a strictly ascending shadow key is refused, or not remembered as the previous key", c.pathPos(p), describe(c, p))
			}
		default:
			bad++
			c.Bad(rule, name+"/compare", fmt.Sprintf("an entry is accepted or refused without the order of its shadow key and the previous one being fully determined (previous ? key: %s)", r), c.pathPos(p), describe(c, p))
		}
	}
	if bad == 0 && len(cells) == 3 {
		c.Ok(rule, name, fmt.Sprintf("every encoded entry is compared with the previous shadow key: equal ⇒ error (not unique), greater ⇒ error (order not preserved), smaller ⇒ accepted and remembered: %v", cells), pos)
	} else if bad == 0 {
		c.Undecided(rule, name, fmt.Sprintf("expected three order cells, found %v", cells), pos)
	}
	// Config.Check: native schema and the hack exclude each other
	cf, cps := c.walkFn(rule, "config.(Config).Check", WalkConfig{Memo: true,
		KeepEvent: func(e *Event) bool { return e.Kind == "ret" },
		KeepAtom: func(a Atom) bool {
			return strings.Contains(a.String(), "SchemaTracksChanges") || strings.Contains(a.String(), "DupSortHack")
		}})
	if cps != nil {
		okc := false
		for i := range cps {
			p := &cps[i]
			a, f1 := condTruth(p, "SchemaTracksChanges", -1)
			b, f2 := condTruth(p, "DupSortHack", -1)
			if f1 && a && f2 && b {
				okc = p.End == "return" && !retIsNilErr(p)
			}
		}
		c.Expect(okc, rule, "config.(Config).Check/native-excludes-hack", "configuration validation rejects schema_tracks_changes together with dupsort_hack", "schema_tracks_changes together with dupsort_hack is not rejected", c.P.Pos(cf.Pos()))
	}
}
