package main

import (
	"fmt"
	"go/types"
	"regexp"
	"strings"

	"golang.org/x/tools/go/ssa"
)

// Rules on the tomb sweeper (C13) and its cutoff (C04-R6b).

const (
	fnSweep    = "syncer/sweeper.(*Sweeper).sweep"
	fnSweepTxn = "syncer/sweeper.(*Sweeper).sweep$update"
)

// blockInLoop reports whether block b lies inside any loop of its function.
func blockInLoop(b *ssa.BasicBlock) bool {
	w := &Walker{loops: map[*ssa.Function]*loopInfo{}}
	for _, body := range w.loopsOf(b.Parent()).headers {
		if body[b] {
			return true
		}
	}
	return false
}

func loopDepth(b *ssa.BasicBlock) int {
	w := &Walker{loops: map[*ssa.Function]*loopInfo{}}
	n := 0
	for _, body := range w.loopsOf(b.Parent()).headers {
		if body[b] {
			n++
		}
	}
	return n
}

// C13-R2 / C04-R6b CUTOFF.
// sweepRoles: captured variables of the slice body by type (not by name).
type sweepRolesT struct{ cutoff, dbiName, last, limit string }

func sweepRoles(c *Check) sweepRolesT {
	cl := c.P.Func(fnSweepTxn)
	return sweepRolesT{
		cutoff:  freeOfType(cl, func(t types.Type) bool { return namedIs(t, "header.Timestamp") }),
		dbiName: freeOfType(cl, func(t types.Type) bool { b, ok := t.(*types.Basic); return ok && b.Kind() == types.String }),
		last:    freeOfType(cl, func(t types.Type) bool { return namedIs(t, "limitscanner.LimitCursor") }),
		limit:   freeOfType(cl, func(t types.Type) bool { b, ok := t.(*types.Basic); return ok && b.Kind() == types.Bool }),
	}
}

func ruleSweeperCutoff(c *Check, rule string) {
	fn := c.P.Func(fnSweep)
	cl := c.P.Func(fnSweepTxn)
	if fn == nil || cl == nil {
		c.Undecided(rule, fnSweep, "anchor function not found", "")
		return
	}
	c.UseFunc(fnSweep, fnSweepTxn)
	pos := c.P.Pos(fn.Pos())
	roles := sweepRoles(c)
	if roles.cutoff == "" {
		c.Undecided(rule, fnSweepTxn+"/cutoff-variable", "the slice body does not capture exactly one header.Timestamp (the pass-wide cutoff)", pos)
		return
	}
	// assignments of the cutoff variable in the parent: one, made before any
	// loop, or copying a value that was computed before any loop
	stores := capturedVarStores(fn, cl, roles.cutoff)
	okOnce := len(stores) == 1
	for _, st := range stores {
		if blockInLoop(st.Block()) && !fixedOutsideLoops(st.Val, 0) {
			okOnce = false
		}
	}
	if !okOnce {
		c.Bad(rule, fnSweep+"/cutoff-once", fmt.Sprintf("the sweep cutoff is assigned %d times (or inside a loop); it must be fixed once at the start of the pass, before any slice", len(stores)), pos, nil)
		return
	}
	_, paths := c.walkFn(rule, fnSweep, WalkConfig{Memo: true,
		KeepEvent: func(e *Event) bool {
			return e.Kind == "store" && strings.Contains(e.Addr, roles.cutoff) || e.Kind == "ret"
		},
		KeepAtom: func(a Atom) bool { return false }})
	want := "lmdbenv/header.TimestampFromTime((time.Time).Add(time.Now@"
	ok := false
	val := ""
	for i := range paths {
		for _, e := range paths[i].Events {
			if e.Kind == "store" && e.Addr == "&alloc:"+roles.cutoff {
				val = e.Val
				ok = strings.HasPrefix(e.Val, want) && strings.HasSuffix(e.Val, ", -config.(Sweeper).RetentionDuration("+param(fn, 0)+".conf)))")
			}
		}
	}
	c.Expect(ok, rule, fnSweep+"/cutoff-value", "the sweep cutoff is TimestampFromTime(time.Now().Add(−RetentionDuration())), assigned once before the first slice", "the sweep cutoff is "+val+"; expected now − RetentionDuration() (the full retention, with the negation)", pos)
	// the transaction body compares against that captured variable
	b := closureBinding(fn, cl, roles.cutoff)
	c.Expect(b == "alloc:"+roles.cutoff, rule, fnSweepTxn+"/cutoff-binding", "every slice compares against the pass-wide cutoff variable", "the slice body's cutoff is bound to "+b+", not to the pass-wide cutoff", c.P.Pos(cl.Pos()))
	// RetentionDuration: days * 24h without truncation
	ruleRetentionDuration(c, rule)
}

// ruleRetentionDuration evaluates the extracted expression of
// RetentionDuration() on sample configurations.
func ruleRetentionDuration(c *Check, rule string) {
	name := "config.(Sweeper).RetentionDuration"
	fn, paths := c.walkFn(rule, name, WalkConfig{})
	if paths == nil {
		return
	}
	if len(paths) != 1 || paths[0].End != "return" {
		c.Undecided(rule, name, "expected a single straight-line path", c.P.Pos(fn.Pos()))
		return
	}
	expr := paths[0].Rets[0]
	bad := 0
	for _, days := range []float64{0, 0.03, 1, 2.49, 7, 370, 36500} {
		v, err := EvalFloat(expr, map[string]float64{param(fn, 0) + ".RetentionDays": days})
		if err != nil {
			c.Undecided(rule, name, "cannot evaluate the extracted expression "+expr+": "+err.Error(), c.P.Pos(fn.Pos()))
			return
		}
		want := days * 24 * 3600 * 1e9
		tol := want*1e-6 + 1
		if v < want-tol || v > want+tol {
			bad++
			c.Bad(rule, fmt.Sprintf("%s/days=%v", name, days), fmt.Sprintf("retention_days=%v gives %.0f ns, expected %.0f ns (days × 24h, fractional days included)", days, v, want), c.P.Pos(fn.Pos()), nil)
		}
	}
	c.Evaluations += 7
	if bad == 0 {
		c.Ok(rule, name, "the extracted expression "+expr+" evaluates to days × 24h (within float32 rounding) for 0, fractional and large retention_days", c.P.Pos(fn.Pos()))
	}
}

// C13-R1 SWEEP-TABLE, R3 PRIVATE-ONLY, R4 ONLY-EFFECT, R5 per-DBI resume cursor.
func ruleSweeper(c *Check, rTable, rPrivate, rEffect, rCursor string) {
	fn, paths := c.walkFn(rTable, fnSweepTxn, WalkConfig{})
	if paths == nil {
		return
	}
	pos := c.P.Pos(fn.Pos())
	txn := param(fn, 0)
	nDel, nKeep, bad := 0, 0, 0
	roles := sweepRoles(c)
	if roles.cutoff == "" || roles.dbiName == "" || roles.last == "" || roles.limit == "" {
		c.Undecided(rTable, fnSweepTxn+"/captured", "cannot identify the captured cutoff, DBI name, resume cursor and limit flag of the slice body by their types", pos)
		return
	}
	for i := range paths {
		p := &paths[i]
		sc := callsOf(p, "lmdbenv/limitscanner.(*LimitScanner).Scan")
		if len(sc) == 0 {
			continue
		}
		ls := sc[0].Args[0]
		more, f := boolCond(p, sc[0].Res, -1)
		muts := mutators(p)
		if !f || !more {
			if len(muts) != 0 {
				bad++
				c.Bad(rTable, fnSweepTxn+"/mutation-outside-scan", "a mutation happens without a scanned entry", c.pathPos(p), nil)
			}
			continue
		}
		val := "lmdbenv/limitscanner.(*LimitScanner).Val(" + ls + ")"
		key := "lmdbenv/limitscanner.(*LimitScanner).Key(" + ls + ")"
		parse := "lmdbenv/header.Parse(" + val + ")"
		pok, pf := boolCond(p, "isnil("+parse+"#2)", -1)
		if !pf {
			bad++
			c.Bad(rTable, fnSweepTxn+"/parse", "a scanned entry is not parsed with header.Parse(scanner value)", c.pathPos(p), describe(c, p))
			continue
		}
		if !pok {
			if len(muts) != 0 || !(p.End == "return" && !retIsNilErr(p)) {
				bad++
				c.Bad(rTable, fnSweepTxn+"/parse-error", "an entry whose header does not parse is not reported as an error without mutation", c.pathPos(p), nil)
			}
			continue
		}
		del, df := boolCond(p, "lmdbenv/header.(Flags).IsDeleted("+parse+"#0.Flags)", -1)
		tsRel := p.State.RelOf("int", parse+"#0.Timestamp", "*free:"+roles.cutoff)
		expired := df && del && tsRel == LT
		notExpired := (df && !del) || (df && del && tsRel&LT == 0)
		switch {
		case len(muts) == 1 && muts[0].Callee == txnDel:
			nDel++
			d := muts[0]
			dbiOK := false
			for _, od := range callsOf(p, "(*lmdb.Txn).OpenDBI") {
				if od.Res+"#0" == d.Args[1] && od.Args[0] == txn && od.Args[1] == "*free:"+roles.dbiName {
					dbiOK = true
				}
			}
			if !expired || d.Args[0] != txn || d.Args[2] != key || d.Args[3] != val || !dbiOK {
				bad++
				c.Bad(rTable, fnSweepTxn+"/delete-only-expired-markers", fmt.Sprintf("an entry is deleted on a path that has not established deleted ∧ timestamp < cutoff (deleted tested: %v/%v, timestamp ? cutoff: %s), or not as Del(dbi, scanner key, scanner value) in this DBI", df, del, tsRel), evPos(c, d), describe(c, p))
			}
		case len(muts) == 0:
			nKeep++
			if !notExpired && strings.HasPrefix(p.End, "backedge:") {
				bad++
				c.Bad(rTable, fnSweepTxn+"/expired-marker-kept", "a scanned entry is passed over although it may be an expired deletion marker", c.pathPos(p), describe(c, p))
			}
		default:
			bad++
			c.Bad(rEffect, fnSweepTxn+"/other-mutation", "the sweeper performs a mutation other than deleting the scanned entry: "+muts[0].Callee, evPos(c, muts[0]), nil)
		}
	}
	if bad == 0 {
		c.Ok(rTable, fnSweepTxn+"/table", fmt.Sprintf("%d deleting and %d keeping scan paths: Del(dbi, scanner key, scanner value) exactly when the header parses, the deleted flag is set and timestamp < cutoff (strict); live entries and younger markers are passed over; a parse error aborts", nDel, nKeep), pos)
	}
	c.Floor(rTable, nDel, 1, "deleting scan paths")
	c.Floor(rTable, nKeep, 2, "keeping scan paths")

	// R4: no other mutator reachable from sweep
	reach := reachable(c.P, fnSweep)
	nm := 0
	for f := range reach {
		for _, in := range callsIn(f, []string{txnPut, txnDel, curPut, curDel, txnDrop, "(*lmdb.Txn).CreateDBI"}) {
			if QualName(f) == fnSweepTxn || unknownHelper(f, 0) && onlyCalledFromClosure(c.P, f, fnSweepTxn, 0) {
				nm++ // in the slice body, or in a new helper only the slice body calls
				continue
			}
			c.Bad(rEffect, "mutator:"+QualName(f), "an LMDB mutator is reachable from the sweeper in "+QualName(f), c.P.InstrPos(in), nil)
		}
	}
	c.Expect(nm == 1, rEffect, fnSweep+"/only-effect", fmt.Sprintf("%d functions reachable from sweep(): the only LMDB mutator is the single Txn.Del in the slice body", len(reach)), fmt.Sprintf("%d mutator call sites in the slice body, expected exactly the one Del", nm), pos)

	// R3: private DBIs only in non-native mode
	sfn, sp := c.walkFn(rPrivate, fnSweep, WalkConfig{Memo: true,
		KeepEvent: func(e *Event) bool {
			return e.Kind == "ret" || e.Kind == "call" && (strings.Contains(e.Callee, "lmdb.Env") || strings.HasSuffix(e.Callee, "lo.Filter"))
		},
		KeepAtom: func(a Atom) bool {
			return strings.Contains(a.String(), "schemaTracksChanges") || strings.Contains(a.String(), "HasPrefix") || strings.Contains(a.String(), "lo.Filter@")
		}})
	if sp != nil {
		nu, badp := 0, 0
		for i := range sp {
			p := &sp[i]
			for _, u := range callsOf(p, "(*lmdb.Env).Update") {
				nu++
				native, f1 := condTruth(p, "schemaTracksChanges", eventIndex(p, u))
				priv, f2 := condTruth(p, "strings.HasPrefix(", eventIndex(p, u))
				if !(f1 && native) && !(f2 && priv) && sweptNamesPreFiltered(c, p, eventIndex(p, u)) {
					continue // the names were filtered by the same test before the loop
				}
				if !(f1 && native) && !(f2 && priv) {
					badp++
					c.Bad(rPrivate, fnSweep+"/private-only", "a DBI is swept on a path that has established neither native mode nor the private \"_sync\" prefix: application data without headers could be parsed and deleted", evPos(c, u), describe(c, p))
				}
				if f2 && priv {
					pfx := false
					for _, cd := range p.Conds() {
						if strings.HasSuffix(cd.Atom.A, ", const:\"_sync\")") {
							pfx = true
						}
					}
					if !pfx {
						badp++
						c.Bad(rPrivate, fnSweep+"/prefix-constant", "the private prefix tested is not \"_sync\"", evPos(c, u), nil)
					}
				}
			}
		}
		if badp == 0 {
			c.Ok(rPrivate, fnSweep+"/private-only", fmt.Sprintf("all %d paths opening a sweep transaction have schemaTracksChanges == true or the DBI name has the private prefix", nu), c.P.Pos(sfn.Pos()))
		}
		c.Floor(rPrivate, nu, 2, "sweep transaction paths")
	}
	a, _ := c.constValue("syncer/sweeper", "SyncDBIPrefix")
	b, _ := c.constValue("syncer", "SyncDBIPrefix")
	sh, _ := c.constValue("syncer", "SyncDBIShadowPrefix")
	c.Expect(a == b && a != "" && strings.HasPrefix(sh, a), rPrivate, "SyncDBIPrefix-agreement", "the sweeper's private prefix equals the syncer's, and the shadow prefix starts with it", fmt.Sprintf("sweeper prefix %q, syncer prefix %q, shadow prefix %q", a, b, sh), "")

	// R5: the resume cursor is per DBI (declared inside the DBI loop, outside the slice loop)
	okCur, nCur := true, 0
	for _, nm := range []string{roles.last, roles.limit} {
		al := capturedVarAlloc(sfn, fn, nm)
		if al == nil {
			continue
		}
		nCur++
		preset := false
		for _, st := range capturedVarStores(sfn, fn, nm) {
			if k, ok := st.Val.(*ssa.Const); !ok || !(k.Value == nil || k.Value.ExactString() == "false" || k.Value.ExactString() == "0") {
				preset = true // assigned something other than the zero value outside the slice body
			}
		}
		// the cursor lives across the slices of one DBI (depth exactly 1); the limit flag is
		// rewritten by every slice before it is read (checked below), so it may also be
		// declared per slice
		if d := loopDepth(al.Block()); d < 1 || d != 1 && nm != roles.limit || preset {
			okCur = false
			c.Bad(rCursor, fnSweep+"/cursor-scope:"+nm, fmt.Sprintf("the slice resume state %q is not a fresh variable per DBI (loop depth %d, or assigned outside the slice body): a cursor left over from one DBI would make the next DBI's scan start in the middle", nm, loopDepth(al.Block())), c.P.InstrPos(al), nil)
		}
	}
	if nCur != 2 {
		c.Undecided(rCursor, fnSweep+"/cursor-scope", fmt.Sprintf("expected the variables last and limitReached, found %d", nCur), pos)
	} else if okCur {
		c.Ok(rCursor, fnSweep+"/cursor-scope", "last and limitReached are fresh per DBI (allocated in the DBI loop body, outside the slice loop)", pos)
	}
	// cursor always updated at the end of a slice
	nl, badl := 0, 0
	for i := range paths {
		p := &paths[i]
		if p.End == "return" && len(callsOf(p, "lmdbenv/limitscanner.(*LimitScanner).Scan")) > 0 {
			if more, f := condTruth(p, "(*LimitScanner).Scan@", -1); f && !more {
				nl++
				cur := callsOf(p, "lmdbenv/limitscanner.(*LimitScanner).Cursor")
				st1, st2 := false, false
				for _, e := range p.Events {
					if e.Kind == "store" && e.Addr == "free:"+roles.last && len(cur) == 1 && e.Val == cur[0].Res+"#0" {
						st1 = true
					}
					if e.Kind == "store" && e.Addr == "free:"+roles.limit && len(cur) == 1 && e.Val == cur[0].Res+"#1" {
						st2 = true
					}
				}
				if (!st1 || !st2) && len(p.Rets) > 0 {
					// a slice that reports an error ends the pass (R7): its cursor is never used
					if isNil, f := boolCond(p, "isnil("+p.Rets[len(p.Rets)-1]+")", -1); f && !isNil {
						continue
					}
				}
				if !st1 || !st2 {
					badl++
					c.Bad(rCursor, fnSweepTxn+"/cursor-updated", "a slice ends without unconditionally recording the scanner's cursor and limit state", c.pathPos(p), describe(c, p))
				}
			}
		}
	}
	if badl == 0 && nl > 0 {
		c.Ok(rCursor, fnSweepTxn+"/cursor-updated", "every completed slice stores (last, limitReached) = ls.Cursor() unconditionally", pos)
	}
}

// sweptNamesPreFiltered: the loop this path is in ranges over the result of
// lo.Filter(names, pred) (library contract: exactly the elements for which
// pred returns true, in order), and pred returns true only for names with the
// private prefix or in native mode.
func sweptNamesPreFiltered(c *Check, p *Path, before int) bool {
	for _, fl := range callsOf(p, "github.com/samber/lo.Filter") {
		if eventIndex(p, fl) > before || len(fl.Args) != 2 || !(strings.HasPrefix(fl.Args[1], "closure:") || strings.HasPrefix(fl.Args[1], "func:")) {
			continue
		}
		ranged := false
		for _, cd := range p.Conds() {
			if strings.Contains(cd.Atom.String(), "len("+fl.Res+")") {
				ranged = true
			}
		}
		if !ranged {
			continue
		}
		pred := c.P.Func(strings.TrimPrefix(strings.TrimPrefix(fl.Args[1], "closure:"), "func:"))
		if pred == nil || len(pred.Params) == 0 {
			continue
		}
		elem := "param:" + pred.Params[0].Name()
		w := Walk(c.P, pred, WalkConfig{})
		if w.Err != nil || len(w.Paths) == 0 {
			continue
		}
		allowed := func(d string) bool {
			d = strings.TrimSpace(d)
			if strings.HasPrefix(d, "!") {
				return false
			}
			return strings.Contains(d, "schemaTracksChanges") || d == "strings.HasPrefix("+elem+", const:\"_sync\")"
		}
		ok := true
		for i := range w.Paths {
			q := &w.Paths[i]
			if q.End != "return" || len(q.Rets) != 1 {
				ok = false
				continue
			}
			r := q.Rets[0]
			if r == "const:false" {
				continue
			}
			native, f1 := condTruth(q, "schemaTracksChanges", -1)
			priv, f2 := boolCond(q, "strings.HasPrefix("+elem+", const:\"_sync\")", -1)
			if f1 && native || f2 && priv {
				continue
			}
			// the result is the test itself: a disjunction of the two allowed tests
			e := r
			if strings.HasPrefix(e, "(") && strings.HasSuffix(e, ")") {
				e = e[1 : len(e)-1]
			}
			for _, d := range strings.Split(e, " || ") {
				if !allowed(d) {
					ok = false
				}
			}
		}
		if ok {
			return true
		}
	}
	return false
}

// C13-R6 RESUME-EXACT: a slice of the sweep resumes where the previous one
// stopped. LimitScanner.Scan repositions with SetRange on the saved (key,
// value) and steps past that entry exactly when the entry it landed on is the
// saved one (same key and same value). Stepping on a weaker test skips an
// entry that was never examined (an expired marker survives); never stepping
// re-examines the same entry forever with a one-record limit.
func ruleLimitScannerResume(c *Check, rule string) {
	name := "lmdbenv/limitscanner.(*LimitScanner).Scan"
	fn, paths := c.walkFn(rule, name, WalkConfig{})
	if paths == nil {
		return
	}
	pos := c.P.Pos(fn.Pos())
	s := param(fn, 0)
	setRange, ok1 := c.constValue2("github.com/PowerDNS/lmdb-go/lmdb", "SetRange")
	next, ok2 := c.constValue2("github.com/PowerDNS/lmdb-go/lmdb", "Next")
	if !ok1 || !ok2 {
		c.Undecided(rule, name, "lmdb.SetRange / lmdb.Next not found", pos)
		return
	}
	lastKey, lastVal := s+".opt.Last.key", s+".opt.Last.val"
	other := func(p *Path, side string, want string) string {
		for _, cd := range p.Conds() {
			a := cd.Atom
			if a.Kind != "cmp" || a.Dom != "bytes" {
				continue
			}
			switch {
			case a.A == side && strings.Contains(a.B, want):
				return a.B
			case a.B == side && strings.Contains(a.A, want):
				return a.A
			}
		}
		return ""
	}
	nRes, nAdv, nStay, bad := 0, 0, 0, 0
	for i := range paths {
		p := &paths[i]
		sets := callsOf(p, "(*lmdbscan.Scanner).Set")
		first, f1 := boolCond(p, s+".count == const:0", -1)
		_ = first
		_ = f1
		cnt := p.State.RelOf("int", s+".count", "const:0")
		var zero, zf bool
		for _, cd := range p.Conds() {
			if cd.Atom.Kind == "bool" && strings.Contains(cd.Atom.A, "IsZero("+s+".opt.Last)") {
				zero, zf = cd.Truth, true
			}
		}
		resume := cnt == EQ && zf && !zero
		lim, lf := boolCond(p, s+".limitReached", -1)
		if lf && lim {
			continue
		}
		if !resume {
			if len(sets) != 0 {
				bad++
				c.Bad(rule, name+"/reposition-only-at-start", "the scanner is repositioned on a call that is not the first of a resumed slice", c.pathPos(p), describe(c, p))
			}
			continue
		}
		nRes++
		if len(sets) == 0 || sets[0].Args[1] != lastKey || sets[0].Args[2] != lastVal || sets[0].Args[3] != "const:"+setRange {
			bad++
			c.Bad(rule, name+"/reposition", "a resumed slice does not start with Set(last key, last value, SetRange)", c.pathPos(p), describe(c, p))
			continue
		}
		adv := false
		for _, e := range sets[1:] {
			if e.Args[1] == "nil" && e.Args[2] == "nil" && e.Args[3] == "const:"+next {
				adv = true
			} else {
				bad++
				c.Bad(rule, name+"/reposition", "unexpected second repositioning in a resumed slice", evPos(c, e), nil)
			}
		}
		ko, vo := other(p, lastKey, "Key("), other(p, lastVal, "Val(")
		keyEq := ko != "" && p.State.RelOf("bytes", ko, lastKey) == EQ
		valEq := vo != "" && p.State.RelOf("bytes", vo, lastVal) == EQ
		keyNe := ko != "" && p.State.RelOf("bytes", ko, lastKey)&EQ == 0
		valNe := vo != "" && p.State.RelOf("bytes", vo, lastVal)&EQ == 0
		switch {
		case adv && keyEq && valEq:
			nAdv++
		case !adv && (keyNe || valNe):
			nStay++
		case adv:
			bad++
			c.Bad(rule, name+"/advance-only-past-saved-entry", "a resumed slice steps past the entry it landed on without having established that it is the saved one (same key and same value): when the saved entry is gone, the next unexamined entry is skipped and an expired marker in it survives", c.pathPos(p), describe(c, p))
		default:
			bad++
			c.Bad(rule, name+"/advance-past-saved-entry", "a resumed slice that landed on the saved entry does not step past it", c.pathPos(p), describe(c, p))
		}
	}
	if bad == 0 {
		c.Ok(rule, name+"/resume-exact", fmt.Sprintf("%d resumed path classes: Set(last.key, last.val, SetRange), then Next exactly when the current key and value both equal the saved ones (%d advancing, %d staying)", nRes, nAdv, nStay), pos)
	}
	c.Floor(rule, nAdv, 1, "advancing resume paths")
	c.Floor(rule, nStay, 1, "non-advancing resume paths")
	// the saved cursor is the scanner's current key and value
	cn := "lmdbenv/limitscanner.(*LimitScanner).Cursor"
	cf, cps := c.walkFn(rule, cn, WalkConfig{})
	if cps != nil {
		okc := len(cps) > 0
		for i := range cps {
			p := &cps[i]
			if len(p.Rets) < 2 {
				okc = false
				continue
			}
			k, f1 := litField(p.Rets[0], "key")
			v, f2 := litField(p.Rets[0], "val")
			if !f1 || !f2 || !strings.Contains(k, "Key(") || !strings.Contains(v, "Val(") || p.Rets[1] != param(cf, 0)+".limitReached" {
				okc = false
			}
		}
		c.Expect(okc, rule, cn, "the saved cursor is {current key, current value} with the limit flag", "Cursor() does not save the scanner's current key and value", c.P.Pos(cf.Pos()))
	}
}

// C13-R7 SLICE-ERROR-ABORTS: a failed slice transaction (LMDB aborted it, its
// deletions are rolled back) ends the pass with an error. Looking at the
// resume flag first would continue from a cursor that was advanced past
// entries whose deletion never happened, or retry a persistently failing
// slice forever; either way expired markers stay and the pass reports success.
func ruleSweepSliceErrors(c *Check, rule string) {
	fn, paths := c.walkFn(rule, fnSweep, WalkConfig{Memo: true,
		KeepEvent: func(e *Event) bool {
			return e.Kind == "ret" || e.Kind == "call" && (strings.Contains(e.Callee, "lmdb.Env).Update") || strings.Contains(e.Callee, "SleepContext"))
		},
		KeepAtom: func(a Atom) bool {
			return strings.Contains(a.String(), "lmdb.Env).Update")
		}})
	if paths == nil {
		return
	}
	nFail, nOK, bad := 0, 0, 0
	for i := range paths {
		p := &paths[i]
		for _, u := range callsOf(p, "(*lmdb.Env).Update") {
			okv, f := boolCond(p, "isnil("+u.Res+")", -1)
			if !f {
				if p.End == "return" || strings.HasPrefix(p.End, "backedge:") {
					bad++
					c.Bad(rule, fnSweep+"/slice-error-examined", "the pass goes on after a slice transaction without having examined its error", c.pathPos(p), describe(c, p))
				}
				continue
			}
			if okv {
				nOK++
				continue
			}
			nFail++
			if !(p.End == "return" && !retIsNilErr(p)) {
				bad++
				c.Bad(rule, fnSweep+"/slice-error-aborts", "a failed slice transaction does not end the pass with an error: the pass continues from the advanced cursor (the rolled-back deletions are never redone) or retries the failing slice forever, and finally reports success", c.pathPos(p), describe(c, p))
			}
		}
	}
	if bad == 0 {
		c.Ok(rule, fnSweep+"/slice-error-aborts", fmt.Sprintf("on all %d path classes where the slice transaction failed the pass returns the error; %d continue after success", nFail, nOK), c.P.Pos(fn.Pos()))
	}
	c.Floor(rule, nFail, 1, "failed-slice paths")
	c.Floor(rule, nOK, 1, "successful-slice paths")
}

// CUTOFF-NO-WRAP (C13-R2, C04-R6): cutoffs are computed as now − retention and
// converted to the unsigned header timestamp. For a retention longer than the
// time since the epoch the difference is negative; converted unchecked it wraps
// to the far future and every marker compares older than the cutoff. The
// conversion must only happen on paths that established a non-negative value.
func ruleTimestampNoWrap(c *Check, rule string) {
	name := "lmdbenv/header.TimestampFromTime"
	fn, paths := c.walkFn(rule, name, WalkConfig{})
	if paths == nil {
		return
	}
	n, bad := 0, 0
	for i := range paths {
		p := &paths[i]
		if p.End != "return" || len(p.Rets) != 1 {
			continue
		}
		n++
		r := p.Rets[0]
		if strings.HasPrefix(r, "const:") {
			continue
		}
		if !strings.HasPrefix(r, "conv:uint64(") {
			c.Undecided(rule, name, "unexpected result expression "+r, c.pathPos(p))
			return
		}
		inner := strings.TrimSuffix(strings.TrimPrefix(r, "conv:uint64("), ")")
		if p.State.RelOf("int", inner, "const:0")&LT != 0 {
			bad++
			c.Bad(rule, name+"/no-wrap", "a possibly negative nanosecond count ("+inner+") is converted to the unsigned timestamp: a cutoff before 1970 (now − a retention above ~56 years) wraps to the far future and every deletion marker, however young, is older than it", c.pathPos(p), describe(c, p))
		}
	}
	if bad == 0 {
		c.Ok(rule, name+"/no-wrap", fmt.Sprintf("%d return paths: the signed nanosecond count is converted only where it is known to be ≥ 0; earlier times give 0", n), c.P.Pos(fn.Pos()))
	}
	c.Floor(rule, n, 1, "return paths of TimestampFromTime")
}

// onlyCalledFromClosure: every static call of fn is in the function named
// owner or in a new helper for which the same holds.
func onlyCalledFromClosure(p *Program, fn *ssa.Function, owner string, depth int) bool {
	if depth > 4 {
		return false
	}
	n := 0
	for _, g := range p.RepoFuncs() {
		for _, b := range g.Blocks {
			for _, in := range b.Instrs {
				ci, ok := in.(ssa.CallInstruction)
				if !ok || ci.Common().StaticCallee() != fn {
					continue
				}
				n++
				if QualName(g) == owner {
					continue
				}
				if unknownHelper(g, 0) && onlyCalledFromClosure(p, g, owner, depth+1) {
					continue
				}
				return false
			}
		}
	}
	return n > 0
}

// C13-R7b EVERY-DBI-SWEPT: one pass visits every DBI that may hold deletion
// markers. An iteration of the DBI loop that goes on to the next name without
// having started a sweep transaction is justified only by the one documented
// skip: non-native mode and a name without the private prefix (or names that
// were pre-filtered by that same test). Any other skip — a remembered "nothing to
// do here" from an earlier pass, an entry count, a size threshold — leaves the
// expired markers of that DBI in place for as long as the condition holds: a
// marker written over a live entry changes neither the count nor the size.
func ruleEveryDBISwept(c *Check, rule string) {
	collRe := regexp.MustCompile(`len\((` + collLocalNames + `)\)|next\(range\((` + collLocalNames + `)\)@[\w~]+\)@[\w~]+#0`)
	fn, paths := c.walkFn(rule, fnSweep, WalkConfig{Memo: true,
		KeepEvent: func(e *Event) bool {
			return e.Kind == "ret" || e.Kind == "call" && (strings.Contains(e.Callee, "lmdb.Env).Update") || strings.HasSuffix(e.Callee, "lo.Filter"))
		},
		KeepAtom: func(a Atom) bool {
			s := a.String()
			return collRe.MatchString(s) || strings.Contains(s, "schemaTracksChanges") || strings.Contains(s, "HasPrefix") || strings.Contains(s, "lo.Filter@")
		}})
	if paths == nil {
		return
	}
	nIter, nSkip, bad := 0, 0, 0
	for _, it := range completedIterations(fn, paths, collRe) {
		p, at := it.p, it.at
		nIter++
		swept := false
		for _, u := range callsOf(p, "(*lmdb.Env).Update", "(*lmdb.Env).Update$bound") {
			if eventIndex(p, u) > at {
				swept = true
			}
		}
		if swept {
			continue
		}
		nSkip++
		native, f1 := condTruth(p, "schemaTracksChanges", -1)
		priv, f2 := condTruth(p, "strings.HasPrefix(", -1)
		if f1 && !native && f2 && !priv {
			continue
		}
		bad++
		c.Bad(rule, fnSweep+"/every-dbi-swept", "an iteration of the DBI loop moves on to the next DBI without a sweep transaction although the DBI is not an application DBI of a non-native schema: its expired deletion markers stay until the skip condition changes", c.pathPos(p), describe(c, p))
	}
	if bad == 0 {
		c.Ok(rule, fnSweep+"/every-dbi-swept", fmt.Sprintf("%d path classes complete an iteration of the DBI loop; the %d that start no sweep transaction have schemaTracksChanges == false and a name without the private prefix", nIter, nSkip), c.P.Pos(fn.Pos()))
	}
	c.Floor(rule, nIter, 1, "completed iterations of the sweeper's DBI loop")
}
