package main

import (
	"fmt"
	"go/ast"
	"go/constant"
	"go/token"
	"go/types"
	"os"
	"reflect"
	"regexp"
	"sort"
	"strings"

	"golang.org/x/tools/go/ssa"
)

// Rules on the hand-written snapshot codec (C07, C08).

type fieldWT struct {
	Num int
	WT  int // protobuf wire type: 0 varint, 1 fixed64, 2 length-delimited, 5 fixed32
}

func (f fieldWT) String() string { return fmt.Sprintf("%d/wt%d", f.Num, f.WT) }

func sortFW(xs []fieldWT) []fieldWT {
	sort.Slice(xs, func(i, j int) bool { return xs[i].Num < xs[j].Num })
	return xs
}

// schemaFromTags reads the reference schema from the generated code's struct tags.
func schemaFromTags(c *Check, typeName string) []fieldWT {
	tp := c.P.TypesPkg("snapshot/gogosnapshot")
	if tp == nil {
		return nil
	}
	obj := tp.Scope().Lookup(typeName)
	if obj == nil {
		return nil
	}
	st, ok := obj.Type().Underlying().(*types.Struct)
	if !ok {
		return nil
	}
	var out []fieldWT
	for i := 0; i < st.NumFields(); i++ {
		tag := reflect.StructTag(st.Tag(i)).Get("protobuf")
		if tag == "" {
			continue
		}
		parts := strings.Split(tag, ",")
		if len(parts) < 2 {
			continue
		}
		var num int
		fmt.Sscan(parts[1], &num)
		wt := -1
		switch parts[0] {
		case "varint":
			wt = 0
		case "fixed64":
			wt = 1
		case "bytes":
			wt = 2
		case "fixed32":
			wt = 5
		}
		out = append(out, fieldWT{num, wt})
	}
	return sortFW(out)
}

func constIntOf(info *types.Info, e ast.Expr) (int, bool) {
	tv, ok := info.Types[e]
	if !ok || tv.Value == nil {
		return 0, false
	}
	if v, ok := constant.Int64Val(constant.ToInt(tv.Value)); ok {
		return int(v), true
	}
	return 0, false
}

// funcDecl finds a function declaration in a repo package.
func funcDecl(c *Check, pkgRel, recv, name string) (*ast.FuncDecl, *types.Info) {
	pk := c.P.Package(pkgRel)
	if pk == nil {
		return nil, nil
	}
	for _, f := range pk.Syntax {
		for _, d := range f.Decls {
			fd, ok := d.(*ast.FuncDecl)
			if !ok || fd.Name.Name != name {
				continue
			}
			r := ""
			if fd.Recv != nil && len(fd.Recv.List) == 1 {
				t := fd.Recv.List[0].Type
				if s, ok := t.(*ast.StarExpr); ok {
					t = s.X
				}
				if id, ok := t.(*ast.Ident); ok {
					r = id.Name
				}
			}
			if r == recv {
				return fd, pk.TypesInfo
			}
		}
	}
	// the same function under a new name (see resolveRenames)
	for _, q := range []string{pkgRel + ".(*" + recv + ")." + name, pkgRel + ".(" + recv + ")." + name, pkgRel + "." + name} {
		if fn := c.P.Func(q); fn != nil {
			if fd, ok := fn.Syntax().(*ast.FuncDecl); ok {
				return fd, pk.TypesInfo
			}
		}
	}
	return nil, nil
}

// writerTable: EncodeTag(buf, F, WT) sites of a function; a non-constant F that
// is a field of a table literal ranged over contributes every element's constant.
func writerTable(c *Check, pkgRel, recv, name string) ([]fieldWT, bool) {
	fd, info := funcDecl(c, pkgRel, recv, name)
	if fd == nil {
		return nil, false
	}
	return writerTableFD(c, pkgRel, fd, info, 0)
}

// newHelperDecl: the declaration of a function or method called at call when it
// is a helper that did not exist when the rules were confirmed (unknownHelper).
func newHelperDecl(c *Check, info *types.Info, call *ast.CallExpr) *ast.FuncDecl {
	var id *ast.Ident
	switch f := call.Fun.(type) {
	case *ast.Ident:
		id = f
	case *ast.SelectorExpr:
		id = f.Sel
	}
	if id == nil {
		return nil
	}
	obj, ok := info.Uses[id].(*types.Func)
	if !ok {
		return nil
	}
	sf := c.P.SSA.FuncValue(obj)
	if sf == nil || !unknownHelper(sf, 0) {
		return nil
	}
	fd, _ := sf.Syntax().(*ast.FuncDecl)
	return fd
}

func writerTableFD(c *Check, pkgRel string, fd *ast.FuncDecl, info *types.Info, depth int) ([]fieldWT, bool) {
	var out []fieldWT
	ok := true
	// table literals: var -> list of first-field constants
	tables := map[string][]int{}
	ast.Inspect(fd.Body, func(n ast.Node) bool {
		as, isAs := n.(*ast.AssignStmt)
		if !isAs || len(as.Lhs) != 1 || len(as.Rhs) != 1 {
			return true
		}
		id, isId := as.Lhs[0].(*ast.Ident)
		cl, isCl := as.Rhs[0].(*ast.CompositeLit)
		if !isId || !isCl {
			return true
		}
		for _, el := range cl.Elts {
			if inner, ok := el.(*ast.CompositeLit); ok && len(inner.Elts) > 0 {
				first := inner.Elts[0]
				if kv, ok := first.(*ast.KeyValueExpr); ok {
					first = kv.Value
				}
				if v, ok := constIntOf(info, first); ok {
					tables[id.Name] = append(tables[id.Name], v)
				}
			}
		}
		return true
	})
	rangeOver := map[string]string{} // loop var -> table var
	ast.Inspect(fd.Body, func(n ast.Node) bool {
		if rs, ok := n.(*ast.RangeStmt); ok {
			if v, ok := rs.Value.(*ast.Ident); ok {
				if t, ok := rs.X.(*ast.Ident); ok {
					rangeOver[v.Name] = t.Name
				}
			}
		}
		return true
	})
	ast.Inspect(fd.Body, func(n ast.Node) bool {
		call, isCall := n.(*ast.CallExpr)
		if !isCall || len(call.Args) != 3 {
			return true
		}
		sel, isSel := call.Fun.(*ast.SelectorExpr)
		if !isSel || sel.Sel.Name != "EncodeTag" {
			return true
		}
		wt, okw := constIntOf(info, call.Args[2])
		if !okw {
			ok = false
			return true
		}
		if f, okf := constIntOf(info, call.Args[1]); okf {
			out = append(out, fieldWT{f, wt})
			return true
		}
		// the field number is a parameter of a tag-writing helper: resolved at the helper's call sites
		if id, isId := call.Args[1].(*ast.Ident); isId {
			if isParamOf(info, fd, id) {
				return true
			}
		}
		if se, isSe := call.Args[1].(*ast.SelectorExpr); isSe {
			if v, isV := se.X.(*ast.Ident); isV {
				if tbl, has := rangeOver[v.Name]; has {
					for _, f := range tables[tbl] {
						out = append(out, fieldWT{f, wt})
					}
					return true
				}
			}
		}
		ok = false
		return true
	})
	// calls to same-package helpers that write a tag for a field number passed as argument
	ast.Inspect(fd.Body, func(n ast.Node) bool {
		call, isCall := n.(*ast.CallExpr)
		if !isCall {
			return true
		}
		// a new helper (function or method) that writes tags with constant
		// field numbers is part of this writer
		if hfd := newHelperDecl(c, info, call); hfd != nil && hfd != fd && hfd.Body != nil && depth < 3 {
			sub, subOK := writerTableFD(c, pkgRel, hfd, info, depth+1)
			out = append(out, sub...)
			if !subOK {
				ok = false
			}
		}
		id, isId := call.Fun.(*ast.Ident)
		if !isId {
			return true
		}
		for _, hs := range tagHelperSummary(c, pkgRel, id.Name) {
			if hs.param < len(call.Args) {
				if f, okf := constIntOf(info, call.Args[hs.param]); okf {
					out = append(out, fieldWT{f, hs.wt})
					continue
				}
				// the field of a table literal ranged over
				expanded := false
				if se, isSe := call.Args[hs.param].(*ast.SelectorExpr); isSe {
					if v, isV := se.X.(*ast.Ident); isV {
						if tbl, has := rangeOver[v.Name]; has {
							for _, f := range tables[tbl] {
								out = append(out, fieldWT{f, hs.wt})
							}
							expanded = true
						}
					}
				}
				if !expanded {
					ok = false
				}
			}
		}
		return true
	})
	return out, ok // source order (helper-written tags last)
}

type tagHelper struct{ param, wt int }

// tagHelperSummary: EncodeTag(buf, <parameter i>, <const WT>) sites of a package-level helper.
func tagHelperSummary(c *Check, pkgRel, name string) []tagHelper {
	fd, info := funcDecl(c, pkgRel, "", name)
	if fd == nil || fd.Body == nil {
		return nil
	}
	var out []tagHelper
	ast.Inspect(fd.Body, func(n ast.Node) bool {
		call, isCall := n.(*ast.CallExpr)
		if !isCall || len(call.Args) != 3 {
			return true
		}
		sel, isSel := call.Fun.(*ast.SelectorExpr)
		if !isSel || sel.Sel.Name != "EncodeTag" {
			return true
		}
		id, isId := call.Args[1].(*ast.Ident)
		wt, okw := constIntOf(info, call.Args[2])
		if !isId || !okw {
			return true
		}
		idx := 0
		for _, fl := range fd.Type.Params.List {
			for _, nm := range fl.Names {
				if info.Defs[nm] == info.Uses[id] {
					out = append(out, tagHelper{idx, wt})
				}
				idx++
			}
		}
		return true
	})
	return out
}

func isParamOf(info *types.Info, fd *ast.FuncDecl, id *ast.Ident) bool {
	for _, fl := range fd.Type.Params.List {
		for _, nm := range fl.Names {
			if info.Defs[nm] != nil && info.Defs[nm] == info.Uses[id] {
				return true
			}
		}
	}
	return false
}

// helperWT: the wire type a reader helper (getString, ...) insists on.
func helperWT(c *Check, name string) (int, bool) {
	fd, info := funcDecl(c, "snapshot", "", name)
	if fd == nil {
		return 0, false
	}
	wt, found := 0, false
	ast.Inspect(fd.Body, func(n ast.Node) bool {
		if call, ok := n.(*ast.CallExpr); ok && len(call.Args) == 3 {
			if id, ok := call.Fun.(*ast.Ident); ok && id.Name == "expectWT" {
				if v, ok := constIntOf(info, call.Args[2]); ok {
					wt, found = v, true
				}
			}
		}
		return true
	})
	return wt, found
}

// readerTable: `switch tag { case F...: expectWT(tag, wt, WT) | get*(d, tag, wt) }`.
func readerTable(c *Check, pkgRel, recv, name string) (tbl []fieldWT, hasDefaultSkip bool, ok bool) {
	fd, info := funcDecl(c, pkgRel, recv, name)
	if fd == nil {
		return nil, false, false
	}
	ok = true
	seen := map[int]bool{}
	var visit func(sw *ast.SwitchStmt, outer bool)
	visit = func(sw *ast.SwitchStmt, outer bool) {
		for _, st := range sw.Body.List {
			cc := st.(*ast.CaseClause)
			if cc.List == nil {
				if outer {
					ast.Inspect(cc, func(n ast.Node) bool {
						if call, isC := n.(*ast.CallExpr); isC {
							switch f := call.Fun.(type) {
							case *ast.Ident:
								if f.Name == "skipTag" {
									hasDefaultSkip = true
								} else if obj, isF := info.Uses[f].(*types.Func); isF {
									// the same function under a new name
									if sf := c.P.SSA.FuncValue(obj); sf != nil && QualName(sf) == "snapshot.skipTag" {
										hasDefaultSkip = true
									}
								}
							case *ast.SelectorExpr:
								if f.Sel.Name == "Skip" {
									hasDefaultSkip = true
								}
							}
						}
						return true
					})
				}
				continue
			}
			wt, found := -1, false
			ast.Inspect(cc, func(n ast.Node) bool {
				if found {
					return false
				}
				if call, isC := n.(*ast.CallExpr); isC {
					if id, isId := call.Fun.(*ast.Ident); isId {
						if id.Name == "expectWT" && len(call.Args) == 3 {
							if v, okv := constIntOf(info, call.Args[2]); okv {
								wt, found = v, true
							}
						} else if strings.HasPrefix(id.Name, "get") {
							if v, okv := helperWT(c, id.Name); okv {
								wt, found = v, true
							}
						}
					}
				}
				return true
			})
			for _, e := range cc.List {
				f, okf := constIntOf(info, e)
				if !okf {
					ok = false
					continue
				}
				if !found {
					ok = false
					continue
				}
				if !seen[f] {
					seen[f] = true
					tbl = append(tbl, fieldWT{f, wt})
				}
			}
		}
	}
	nsw := 0
	ast.Inspect(fd.Body, func(n ast.Node) bool {
		if sw, isSw := n.(*ast.SwitchStmt); isSw {
			if id, isId := sw.Tag.(*ast.Ident); isId && id.Name == "tag" {
				nsw++
				if nsw == 1 {
					visit(sw, true)
				}
				return false
			}
		}
		return true
	})
	if nsw == 0 {
		ok = false
	}
	return sortFW(tbl), hasDefaultSkip, ok
}

func fwEqual(a, b []fieldWT) bool {
	if len(a) != len(b) {
		return false
	}
	for i := range a {
		if a[i] != b[i] {
			return false
		}
	}
	return true
}

func constTable(c *Check, prefix string, wts map[int]int) []fieldWT {
	tp := c.P.TypesPkg("snapshot")
	var out []fieldWT
	for _, n := range tp.Scope().Names() {
		if !strings.HasPrefix(n, prefix) {
			continue
		}
		if v, ok := constOf(tp.Scope().Lookup(n)); ok {
			var num int
			fmt.Sscan(v, &num)
			out = append(out, fieldWT{num, wts[num]})
		}
	}
	return sortFW(out)
}

// C07-R1 SCHEMA-TABLE and R4 UNKNOWN-SKIPPED.
func ruleSchemaTables(c *Check, rule, rSkip string) {
	type msg struct {
		name, tagType, constPrefix string
		writers                    [][3]string // pkg, recv, func
		readers                    [][3]string
	}
	msgs := []msg{
		{"KV", "KV", "FieldKV", [][3]string{{"snapshot", "DBI", "Append"}}, [][3]string{{"snapshot", "KV", "Unmarshal"}}},
		{"DBI", "DBI", "FieldDBI", [][3]string{{"snapshot", "DBI", "doFlushFields|flushFields"}, {"snapshot", "DBI", "Append"}}, [][3]string{{"snapshot", "DBI", "indexData"}}},
		{"Snapshot", "Snapshot", "FieldSnapshot", [][3]string{{"snapshot", "Snapshot", "WriteTo"}}, [][3]string{{"snapshot", "Snapshot", "Unmarshal"}}},
		{"Meta", "Snapshot_Meta", "FieldMeta", [][3]string{{"snapshot", "Meta", "Marshal"}}, [][3]string{{"snapshot", "Meta", "Unmarshal"}}},
	}
	nFields := 0
	for _, m := range msgs {
		ref := schemaFromTags(c, m.tagType)
		if len(ref) == 0 {
			c.Undecided(rule, "schema:"+m.name, "cannot read the reference schema from the generated struct tags of gogosnapshot."+m.tagType, "")
			continue
		}
		nFields += len(ref)
		refWT := map[int]int{}
		for _, f := range ref {
			refWT[f.Num] = f.WT
		}
		// constants
		ct := constTable(c, m.constPrefix, refWT)
		var refNums, ctNums []int
		for _, f := range ref {
			refNums = append(refNums, f.Num)
		}
		for _, f := range ct {
			ctNums = append(ctNums, f.Num)
		}
		okC := fmt.Sprint(refNums) == fmt.Sprint(ctNums)
		if m.name == "Meta" {
			// field 6 is reserved in the schema; constants list the used ones
			okC = true
			for _, n := range ctNums {
				if _, ok := refWT[n]; !ok {
					okC = false
				}
			}
		}
		c.Expect(okC, rule, "schema:"+m.name+"/constants", fmt.Sprintf("Field* constants of %s are the schema's field numbers %v", m.name, refNums), fmt.Sprintf("Field* constants of %s are %v; the published schema has %v", m.name, ctNums, refNums), "")
		// writer (EncodeTag sites in source order; Append writes the enclosing DBI.entries tag first, then the KV fields)
		var wtbl []fieldWT
		okW := true
		for _, w := range m.writers {
			// a writer folded into its caller (as a closure or inline) is read there
			wname := w[2]
			for _, alt := range strings.Split(w[2], "|") {
				wname = alt
				if fd, _ := funcDecl(c, w[0], w[1], alt); fd != nil {
					break
				}
			}
			t, ok := writerTable(c, w[0], w[1], wname)
			if !ok {
				okW = false
			}
			switch {
			case w[2] == "Append" && m.name == "KV":
				if len(t) == 0 || t[0] != (fieldWT{2, 2}) {
					okW = false
				} else {
					wtbl = append(wtbl, t[1:]...)
				}
			case w[2] == "Append" && m.name == "DBI":
				if len(t) == 0 || t[0] != (fieldWT{2, 2}) {
					okW = false
				} else {
					wtbl = append(wtbl, t[0])
				}
			default:
				wtbl = append(wtbl, t...)
			}
		}
		wtbl = sortFW(append([]fieldWT{}, wtbl...))
		c.Expect(okW && fwEqual(wtbl, ref), rule, "schema:"+m.name+"/writer", fmt.Sprintf("the writer of %s emits exactly the schema's (field number/wire type) pairs %v", m.name, ref), fmt.Sprintf("the writer of %s emits %v (all tags resolved: %v); the published schema has %v", m.name, wtbl, okW, ref), "")
		// reader
		for _, r := range m.readers {
			// read off the reader's paths; the syntactic table is a fallback for
			// shapes the path extraction does not resolve
			t, skip, ok := readerTableP(c, rule, r[0]+".(*"+r[1]+")."+r[2])
			if !ok {
				// not resolved from the paths: the syntactic table decides
				t, skip, ok = readerTable(c, r[0], r[1], r[2])
			}
			if os.Getenv("LSDEBUG") != "" {
				fmt.Fprintln(os.Stderr, "DEBUG reader", r, t, skip, ok)
			}
			c.Expect(ok && fwEqual(t, ref), rule, "schema:"+m.name+"/reader:"+r[2], fmt.Sprintf("the reader %s.%s accepts exactly the schema's (field number/wire type) pairs %v", r[1], r[2], ref), fmt.Sprintf("the reader %s.%s handles %v (resolved: %v); the published schema has %v", r[1], r[2], t, ok, ref), "")
			c.Expect(skip, rSkip, "schema:"+m.name+"/unknown-skipped:"+r[2], "unknown field numbers are skipped by wire type", "the reader "+r[1]+"."+r[2]+" has no default case skipping unknown fields by wire type", "")
		}
	}
	c.Floor(rule, nFields, 19, "schema fields in the reference struct tags")
	// DBI.Next only reads entries and skips everything else by wire type
	_, np := c.walkFn(rSkip, "snapshot.(*DBI).Next", WalkConfig{})
	okn := false
	for i := range np {
		if len(callsOf(&np[i], "snapshot.skipTag")) > 0 {
			okn = true
		}
	}
	c.Expect(okn, rSkip, "snapshot.(*DBI).Next/skips-other-fields", "Next skips every field other than entries by wire type", "Next does not skip non-entry fields with skipTag", "")
}

// C07-R3 READ-AT-CURSOR + C08-R2 CURSOR-PROGRESS on the three cursor parsers.
func ruleReadAtCursor(c *Check, rCursor, rProgress string) {
	type parser struct{ name, data string }
	for _, name := range []string{"snapshot.(*DBI).Next", "snapshot.(*DBI).indexData", "snapshot.(*KV).Unmarshal"} {
		fn, paths := c.walkFn(rCursor, name, WalkConfig{})
		if paths == nil {
			continue
		}
		pos := c.P.Pos(fn.Pos())
		n, bad := 0, 0
		nCycle, badP := 0, 0
		for i := range paths {
			p := &paths[i]
			cur := ""
			curVar := ""
			for j := range p.Events {
				e := &p.Events[j]
				if e.Kind != "call" || e.Callee != "csproto.DecodeVarint" && e.Callee != "snapshot.skipTag" {
					continue
				}
				n++
				arg := e.Args[0]
				if !strings.HasPrefix(arg, "slice(") || !strings.HasSuffix(arg, ",,)") {
					bad++
					c.Bad(rCursor, name+"/decode-at-cursor:"+e.Callee, "a decode/skip call is given "+arg+" instead of the buffer sliced at the read cursor: it decodes bytes from the wrong position (fields after it are mis-parsed)", evPos(c, e), describe(c, p))
					continue
				}
				inner := arg[len("slice(") : len(arg)-len(",,)")]
				parts := splitTop(inner)
				off := ""
				if len(parts) == 2 {
					off = parts[1]
				}
				if off == "" {
					bad++
					c.Bad(rCursor, name+"/decode-at-cursor:"+e.Callee, "a decode/skip call reads from the start of the buffer ("+arg+") instead of from the read cursor", evPos(c, e), describe(c, p))
					continue
				}
				if cur == "" && strings.HasPrefix(off, "loop:") && strings.Contains(off, "@") {
					// the read cursor: the loop-carried variable the first read of
					// an iteration slices the buffer at
					curVar = off[len("loop:"):strings.Index(off, "@")]
				}
				if cur != "" && !strings.Contains(off, cur) {
					bad++
					c.Bad(rCursor, name+"/cursor-monotone:"+e.Callee, "a decode call reads at "+off+", which is not the cursor advanced from the previous read position "+cur, evPos(c, e), nil)
				}
				cur = off
			}
			if strings.HasPrefix(p.End, "backedge:") {
				nCycle++
				// the read cursor: the function's loop-carried int
				nv := backedgeVal(p, curVar)
				// progress: the new cursor adds at least one successfully decoded varint length
				if nv == "" || !strings.Contains(nv, "csproto.DecodeVarint(") || !strings.Contains(nv, ")#1") {
					badP++
					c.Bad(rProgress, name+"/progress", "an iteration of the parse loop continues with cursor "+nv+", which is not the previous cursor plus at least the length of a decoded varint: the loop may not terminate", c.pathPos(p), nil)
				}
			}
		}
		if bad == 0 {
			c.Ok(rCursor, name+"/decode-at-cursor", fmt.Sprintf("%d decode/skip calls on all paths read from the buffer sliced at the advancing cursor", n), pos)
		}
		c.Floor(rCursor, n, 3, "decode calls in "+name)
		if badP == 0 {
			c.Ok(rProgress, name+"/progress", fmt.Sprintf("all %d loop cycles advance the cursor by at least one decoded varint", nCycle), pos)
		}
	}
}

// sizeGuarded checks, at a slice event with High = (O + S), that S is known
// non-negative and not larger than what remains.
func ruleLengthGuarded(c *Check, rule string, roundTrip bool) {
	for _, name := range []string{"snapshot.(*DBI).Next", "snapshot.(*DBI).indexData", "snapshot.(*KV).Unmarshal"} {
		fn, paths := Walk(c.P, c.P.Func(name), WalkConfig{Bounds: true}), []Path(nil)
		if fn.Err != nil {
			c.Undecided(rule, name, fn.Err.Error(), "")
			continue
		}
		c.UseFunc(name)
		paths = fn.Paths
		c.Evaluations += len(paths)
		n, bad := 0, 0
		for i := range paths {
			p := &paths[i]
			for j := range p.Events {
				e := &p.Events[j]
				if e.Kind != "slice" || len(e.Extra) != 4 || e.Extra[2] == "" {
					continue
				}
				x, lo, hi := e.Extra[0], e.Extra[1], e.Extra[2]
				if !strings.HasPrefix(hi, "("+lo+" + ") {
					continue
				}
				size := strings.TrimSuffix(strings.TrimPrefix(hi, "("+lo+" + "), ")")
				if _, isConst := constInt(size); isConst {
					// fixed-size read: needs remaining >= const
					rem := "(len(" + x + ") - " + lo + ")"
					n++
					okc := e.State.RelOf("int", rem, size)&LT == 0 || e.State.RelOf("int", strings.Replace(rem, "len("+x+")", "len("+x+")", 1), size)&LT == 0
					if !okc {
						bad++
						c.Bad(rule, name+"/fixed-read-guarded", "a fixed-size field is sliced out ("+hi+") without a preceding check that enough bytes remain", c.P.InstrPos(e.Instr), describe(c, p))
					}
					continue
				}
				if !strings.Contains(size, "csproto.DecodeVarint(") {
					if roundTrip && !strings.Contains(size, "@") && strings.Contains(size, "[") {
						// assembled by hand from bytes of the buffer (no call result takes part
						// in it): a varint is read back as written only if every byte that
						// contributes is tested for its continuation bit on this path
						n++
						var untested []string
						for _, by := range bufferBytes(size) {
							tested := false
							for _, cd := range p.Conds() {
								a := cd.Atom
								if a.Kind != "cmp" {
									continue
								}
								for _, pr := range [][2]string{{a.A, a.B}, {a.B, a.A}} {
									x := stripConv(pr[0])
									if strings.HasPrefix(pr[1], "const:") && (x == by || strings.HasPrefix(x, "("+by+" & const:") || strings.HasPrefix(x, "(conv:") && strings.Contains(x, "("+by+") & const:")) {
										tested = true
									}
								}
							}
							if !tested {
								untested = append(untested, by)
							}
						}
						if len(untested) > 0 {
							bad++
							c.Bad(rule, name+"/length-from-decoder", "a field length used as a slice bound ("+hi+") is put together by hand from buffer bytes, and "+strings.Join(untested, ", ")+" contributes to it without its continuation bit being tested on this path: lengths with more varint bytes than this short-cut expects are misread, and with them every field that follows", c.P.InstrPos(e.Instr), describe(c, p))
						}
					}
					continue
				}
				n++
				nonneg := e.State.RelOf("int", size, "const:0")&LT == 0
				rem := "(len(" + x + ") - " + lo + ")"
				fits := e.State.RelOf("int", rem, size)&LT == 0
				if !nonneg || !fits {
					bad++
					why := ""
					if !nonneg {
						why = "the length, converted from a 64-bit wire value, is not established to be non-negative"
					}
					if !fits {
						if why != "" {
							why += "; "
						}
						why += "it is not established to be at most the number of bytes remaining"
					}
					c.Bad(rule, name+"/length-guarded", "a wire-derived length is used as a slice bound ("+hi+") but "+why+": a crafted blob panics the process (slice bounds out of range)", c.P.InstrPos(e.Instr), describe(c, p))
				}
			}
		}
		if bad == 0 {
			c.Ok(rule, name+"/length-guarded", fmt.Sprintf("%d slice operations bounded by a wire-derived or fixed length are each dominated by 'length >= 0' and 'length <= remaining bytes' on their path", n), c.P.Pos(c.P.Func(name).Pos()))
		}
		c.Floor(rule, n, 1, "guarded slice operations in "+name)
	}
	// skipTag: the skip it returns
	name := "snapshot.skipTag"
	fn, paths := c.walkFn(rule, name, WalkConfig{})
	if paths == nil {
		return
	}
	data := param(fn, 0)
	n, bad := 0, 0
	for i := range paths {
		p := &paths[i]
		if p.End != "return" {
			bad++
			c.Bad(rule, name+"/shape", "skipTag has a loop or does not return: the skip must be a constant, a decoded varint length, or a bounded wire length plus that", c.pathPos(p), nil)
			continue
		}
		if !retIsNilErr(p) {
			continue
		}
		n++
		sk := p.Rets[0]
		dv := "csproto.DecodeVarint(" + data + ")"
		okk := false
		switch {
		case sk == "const:4" || sk == "const:8":
			okk = true
		case sk == dv+"#1":
			okk = true
		case sk == "(conv:int("+dv+"#0) + "+dv+"#1)":
			// bounded before the conversion
			okk = p.State.RelOf("int", dv+"#0", "conv:uint64(len("+data+"))")&GT == 0 || p.State.RelOf("int", "conv:int("+dv+"#0)", "const:0")&LT == 0
		}
		within := p.State.RelOf("int", sk, "len("+data+")")&GT == 0
		if _, isK := constInt(sk); isK {
			within = p.State.RelOf("int", "len("+data+")", sk)&LT == 0 || within
		}
		if !okk || !within {
			bad++
			c.Bad(rule, name+"/skip-bounded", "skipTag returns "+sk+" on a path where it is not established to be within [0, len(data)] (from a decoded varint length, a constant, or a wire length bounded before its conversion to int): a negative or oversized skip moves the cursor backwards or out of the buffer", c.pathPos(p), describe(c, p))
		}
	}
	if bad == 0 {
		c.Ok(rule, name+"/skip-bounded", fmt.Sprintf("%d success paths return a constant, a decoded varint length, or int(length)+n with the 64-bit length bounded by len(data) before conversion; every result is checked against len(data)", n), c.P.Pos(fn.Pos()))
	}
	c.Floor(rule, n, 4, "success paths of skipTag")
}

// C08-R3 NO-REACHABLE-PANIC.
func ruleNoPanic(c *Check, rule string) {
	roots := []string{"snapshot.LoadData", "snapshot.(*DBI).Next", "snapshot.(*KV).Unmarshal", "snapshot.(*DBI).ResetCursor"}
	reach := reachable(c.P, roots...)
	n, bad := 0, 0
	for f := range reach {
		hasPanic := false
		for _, b := range f.Blocks {
			for _, in := range b.Instrs {
				if _, ok := in.(*ssa.Panic); ok {
					hasPanic = true
				}
			}
		}
		n++
		if !hasPanic {
			continue
		}
		if unknownHelper(f, 0) && hasRepoCaller(c.P, f) {
			continue // a new helper: its panic is judged in the context of each caller (it is walked as part of them)
		}
		w := Walk(c.P, f, WalkConfig{})
		if w.Err != nil {
			c.Undecided(rule, QualName(f), w.Err.Error(), "")
			continue
		}
		for i := range w.Paths {
			if w.Paths[i].End == "panic" {
				bad++
				c.Bad(rule, QualName(f)+"/panic", "an explicit panic is reachable on a feasible path of "+QualName(f)+", which decoding an untrusted blob can reach", c.P.InstrPos(w.Paths[i].EndPos), describe(c, &w.Paths[i]))
				break
			}
		}
	}
	if bad == 0 {
		c.Ok(rule, "decode-path/no-explicit-panic", fmt.Sprintf("%d functions reachable from LoadData / Next / KV.Unmarshal: no explicit panic lies on a feasible path (the inner 'unhandled tag' panic of indexData is excluded by the outer case set)", n), "")
	}
	c.Floor(rule, n, 8, "functions reachable from the decode entry points")
}

// C08-R6/R7: resource bounds that are visible in the code shape.
func ruleDecodeResources(c *Check, rule string) {
	name := "snapshot.LoadData"
	fn, paths := c.walkFn(rule, name, WalkConfig{})
	if paths == nil {
		return
	}
	data := param(fn, 0)
	n, bad := 0, 0
	for i := range paths {
		p := &paths[i]
		for _, e := range p.Events {
			if e.Kind != "call" {
				continue
			}
			for _, a := range e.Args {
				if !strings.HasPrefix(a, "makeslice(") {
					continue
				}
				n++
				inner := strings.TrimPrefix(a, "makeslice(")
				if k := strings.LastIndex(inner, ")@"); k >= 0 {
					inner = inner[:k]
				}
				rest := strings.ReplaceAll(inner, "len("+data+")", "")
				if strings.Contains(rest, data) || strings.Contains(rest, "@t") {
					bad++
					c.Bad(rule, name+"/buffer-size", "a buffer is pre-allocated with a size taken from the content of the untrusted blob ("+inner+") rather than from its length: a tiny blob can make the process allocate gigabytes", c.P.InstrPos(e.Instr), nil)
				}
			}
		}
	}
	if bad == 0 {
		c.Ok(rule, name+"/buffer-size", fmt.Sprintf("%d pre-allocations in LoadData are sized from len(data) and constants only", n), c.P.Pos(fn.Pos()))
	}
	c.Floor(rule, n, 1, "pre-allocations in LoadData")
	mf, ok := c.constValue("snapshot", "MaxFieldLength")
	var v uint64
	fmt.Sscan(mf, &v)
	c.Expect(ok && v > 0 && v <= 1<<50, rule, "snapshot.MaxFieldLength", fmt.Sprintf("the decoder's field length limit %d leaves the decoder's offset+length arithmetic far from overflowing int64", v), fmt.Sprintf("MaxFieldLength = %s: lengths this large make the csproto decoder's offset+n+int(length) bounds check overflow, so a crafted top-level length passes the check and panics", mf), "")
}

// C07-R7: decoders merge into the receiver (proto semantics), never reset it.
func ruleNoReceiverReset(c *Check, rule string) {
	n, bad := 0, 0
	for _, name := range []string{"snapshot.(*Meta).Unmarshal", "snapshot.(*KV).Unmarshal", "snapshot.(*Snapshot).Unmarshal"} {
		fn := c.P.Func(name)
		if fn == nil {
			c.Undecided(rule, name, "not found", "")
			continue
		}
		c.UseFunc(name)
		n++
		for _, b := range fn.Blocks {
			for _, in := range b.Instrs {
				if st, ok := in.(*ssa.Store); ok && st.Addr == ssa.Value(fn.Params[0]) {
					bad++
					c.Bad(rule, name+"/receiver-reset", "the decoder overwrites its whole receiver before decoding: a message whose sub-message arrives in several chunks (valid protobuf; a standard decoder merges them) loses the earlier fields", c.P.InstrPos(in), nil)
				}
			}
		}
	}
	if bad == 0 {
		c.Ok(rule, "decoders-merge", fmt.Sprintf("%d Unmarshal functions only set the fields they decode; none resets its receiver", n), "")
	}
}

// C07-R2 SIZE-EMIT and R6 GROW-SUFFICIENT: the extracted size computation of
// DBI.Append is compared with what the emit phase writes, by interpreting the
// recorded events for representative entry shapes.
func ruleAppendSizes(c *Check, rule string) {
	name := "snapshot.(*DBI).Append"
	inl := func(f *ssa.Function, d int) bool {
		if d > 3 || f.Blocks == nil || !strings.HasPrefix(fnPkgPath(f), modPath) || len(f.Blocks) > 30 {
			return false
		}
		switch QualName(f) {
		case "snapshot.(*DBI).flushFields", "snapshot.(*DBI).doFlushFields":
			return false
		}
		for _, b := range f.Blocks {
			for _, s := range b.Succs {
				if s.Dominates(b) {
					return false
				}
			}
		}
		return true
	}
	fn, paths := c.walkFn(rule, name, WalkConfig{Inline: inl, MaxPaths: 100000})
	if paths == nil {
		return
	}
	pos := c.P.Pos(fn.Pos())
	d, kv := param(fn, 0), param(fn, 1)
	lens := []uint64{0, 1, 127, 128, 16383, 16384, 1<<21 - 1, 1 << 21, 1<<21 + 5, 1<<22 - 1, 1 << 22, 1<<28 - 1, 1 << 28}
	flags := []uint64{0, 1, 127, 128, 300, 1<<32 - 1}
	tss := []uint64{0, 1, 1 << 62}
	type shape struct{ kl, vl, fl, ts uint64 }
	var shapes []shape
	for _, kl := range []uint64{0, 1, 127, 128, 511} {
		for _, vl := range lens {
			shapes = append(shapes, shape{kl, vl, 1, 5})
		}
	}
	for _, fl := range flags {
		for _, ts := range tss {
			shapes = append(shapes, shape{3, 0, fl, ts}, shape{0, 0, fl, ts}, shape{3, 200, fl, ts})
		}
	}
	nNoGrow := 0
	caps := [][2]uint64{{0, 0}, {100, 1 << 20}, {6 << 20, 6 << 20}, {2000 << 20, 2000 << 20}, {10, 1 << 30}}
	n, bad := 0, 0
	for _, sh := range shapes {
		capList := append([][2]uint64{}, caps...)
		for ci := 0; ci < len(capList); ci++ {
			cp := capList[ci]
			b := Bindings{
				d + ".dirty":             Tv(false),
				"len(" + kv + ".Key)":    U(sh.kl),
				"len(" + kv + ".Value)":  U(sh.vl),
				kv + ".Flags":            U(sh.fl),
				kv + ".TimestampNano":    U(sh.ts),
				"len(" + d + ".data)":    U(cp[0]),
				"cap(" + d + ".data)":    U(cp[1]),
				d + ".NumWrittenEntries": U(0),
			}
			idx := -1
			var selErr error
			for i := range paths {
				p := &paths[i]
				okp := true
				res := appendResolver(p, b)
				for _, e := range p.Events {
					if e.Kind != "cond" {
						continue
					}
					h, err := evalCondR(*e.Cond, b, res)
					if err != nil {
						selErr = fmt.Errorf("path %d: %w", i, err)
						okp = false
						break
					}
					if !h {
						okp = false
						break
					}
				}
				if selErr != nil {
					break
				}
				if okp {
					if idx >= 0 {
						selErr = fmt.Errorf("paths %d and %d both match", idx, i)
						break
					}
					idx = i
				}
			}
			if selErr != nil || idx < 0 {
				c.Undecided(rule, name+"/table", fmt.Sprintf("cannot evaluate the extracted Append table for key %d, value %d, flags %d, ts %d: %v", sh.kl, sh.vl, sh.fl, sh.ts, selErr), pos)
				return
			}
			n++
			p := &paths[idx]
			res := appendResolver(p, b)
			// interpret the emit phase
			emitted := uint64(0)
			var declared, reslice *uint64
			nTags := 0
			var entryHeader uint64
			for j := range p.Events {
				e := &p.Events[j]
				switch {
				case e.Kind == "call" && e.Callee == "csproto.EncodeTag":
					f, err1 := EvalTermR(e.Args[1], b, res)
					w, err2 := EvalTermR(e.Args[2], b, res)
					if err1 != nil || err2 != nil {
						c.Undecided(rule, name+"/emit", "cannot evaluate an EncodeTag call", evPos(c, e))
						return
					}
					emitted += uint64(varintSize(f.U<<3 | w.U))
					nTags++
				case e.Kind == "call" && e.Callee == "csproto.EncodeVarint":
					v, err := EvalTermR(e.Args[1], b, res)
					if err != nil {
						c.Undecided(rule, name+"/emit", "cannot evaluate an EncodeVarint argument: "+err.Error(), evPos(c, e))
						return
					}
					emitted += uint64(varintSize(v.U))
					if declared == nil && nTags == 1 {
						x := v.U
						declared = &x
						entryHeader = emitted
					}
				case e.Kind == "call" && e.Callee == "builtin:copy" && nTags > 0:
					l, err := EvalTermR("len("+e.Args[1]+")", b, res)
					if err != nil {
						c.Undecided(rule, name+"/emit", "cannot evaluate a copy length: "+err.Error(), evPos(c, e))
						return
					}
					emitted += l.U
				case e.Kind == "call" && strings.HasSuffix(e.Callee, "littleEndian).PutUint64"):
					emitted += 8
				case e.Kind == "store" && e.Addr == "&"+d+".data" && strings.HasPrefix(e.Val, "slice("):
					parts := splitTop(e.Val[len("slice(") : len(e.Val)-1])
					if len(parts) >= 3 && parts[2] != "" {
						v, err := EvalTermR(parts[2], b, res)
						if err != nil {
							c.Undecided(rule, name+"/reslice", "cannot evaluate the new length of the buffer "+parts[2]+": "+err.Error(), c.P.InstrPos(e.Instr))
							return
						}
						if err == nil {
							x := v.U - cp[0]
							reslice = &x
							// capacity of the buffer being resliced
							if strings.HasPrefix(parts[0], "makeslice(") {
								mk := splitTop(strings.TrimSuffix(strings.TrimPrefix(parts[0][:strings.LastIndex(parts[0], ")@")+1], "makeslice("), ")"))
								if len(mk) == 2 {
									capv, err := EvalTermR(mk[1], b, res)
									if err != nil {
										c.Undecided(rule, name+"/grow", "cannot evaluate the capacity of the grown buffer "+mk[1]+": "+err.Error(), c.P.InstrPos(e.Instr))
										return
									}
									if capv.U < v.U {
										bad++
										c.Bad(rule, fmt.Sprintf("%s/grow:len=%d,cap=%d", name, cp[0], cp[1]), fmt.Sprintf("after growing, the buffer capacity %d is below the %d bytes needed", capv.U, v.U), c.P.InstrPos(e.Instr), nil)
									}
								}
							} else if cp[1] < v.U {
								bad++
								nNoGrow++
								if nNoGrow > 3 {
									continue // a few witnesses are enough
								}
								c.Bad(rule, fmt.Sprintf("%s/no-grow:len=%d,cap=%d", name, cp[0], cp[1]), fmt.Sprintf("the buffer (capacity %d) is resliced to %d bytes without growing", cp[1], v.U), c.P.InstrPos(e.Instr), nil)
							}
						}
					}
				}
			}
			// buffer states around the boundary "exactly enough room": the free
			// capacity equals the space the entry needs, and up to 6 bytes less
			// (a growth test against the wrong size is off by the 2-6 header bytes)
			if ci == 0 && reslice != nil {
				need := *reslice
				for k := uint64(0); k <= 6 && k <= need; k++ {
					capList = append(capList, [2]uint64{100, 100 + need - k})
				}
			}
			empty := sh.kl == 0 && sh.vl == 0 && sh.fl == 0 && sh.ts == 0
			if empty {
				if emitted != 0 {
					bad++
					c.Bad(rule, name+"/empty-entry", "an entry with all fields empty emits bytes", pos, nil)
				}
				continue
			}
			if declared == nil || reslice == nil {
				bad++
				c.Bad(rule, fmt.Sprintf("%s/shape:k=%d,v=%d", name, sh.kl, sh.vl), "the emit phase does not start with the entries tag and the declared message length, or the buffer is not resliced", pos, nil)
				continue
			}
			body := emitted - entryHeader
			if *declared != body || *reslice != emitted {
				bad++
				c.Bad(rule, fmt.Sprintf("%s/size-emit:k=%d,v=%d,flags=%d,ts=%d", name, sh.kl, sh.vl, sh.fl, sh.ts), fmt.Sprintf("key %d bytes, value %d bytes, flags %d, timestamp %d: the size phase declares a message of %d bytes and reserves %d, the emit phase writes %d + %d header bytes: the written protobuf is corrupt at this size", sh.kl, sh.vl, sh.fl, sh.ts, *declared, *reslice, body, entryHeader), pos, nil)
			}
		}
	}
	c.Evaluations += n
	if bad == 0 {
		c.Ok(rule, name+"/size-emit", fmt.Sprintf("%d (entry shape × buffer state) cells interpreted on the extracted events: the declared message length equals the bytes the emit phase writes for it, the reserved space equals header + message (lengths across every varint size boundary up to 2^28), and the buffer always has capacity for it after the growth step", n), pos)
	}
}

func appendResolver(p *Path, bind Bindings) func(string) (TVal, bool) {
	return func(leaf string) (TVal, bool) {
		return TVal{}, false
	}
}

func evalCondR(c Cond, bind Bindings, res func(string) (TVal, bool)) (bool, error) {
	a := c.Atom
	if a.Kind == "bool" {
		v, err := EvalTermR(a.A, bind, res)
		if err != nil {
			return false, err
		}
		if v.K != "t" {
			return false, evalErr{"condition is not boolean: " + a.A}
		}
		return v.T == c.Truth, nil
	}
	l, err := EvalTermR(a.A, bind, res)
	if err != nil {
		return false, err
	}
	r, err := EvalTermR(a.B, bind, res)
	if err != nil {
		return false, err
	}
	if l.K != "u" || r.K != "u" {
		return false, evalErr{"comparison of " + l.K + " and " + r.K}
	}
	// signed comparison for values that may be negative is not needed here (sizes)
	return (a.R&evalRelU(l.U, r.U) != 0) == c.Truth, nil
}

// C07-R6 OUTPUT-FRESH: the byte slices handed out by the encoders are owned by
// the caller or by the object they were asked of; none aliases package-level
// storage (a shared scratch buffer or pool) that a later call overwrites.
// Backward trace of every returned []byte through slicing, phi, append,
// Buffer.Bytes and repo callees to its roots.
func ruleEncoderOutputFresh(c *Check, rule string) {
	type root struct{ kind, what string }
	var trace func(v ssa.Value, depth int, seen map[ssa.Value]bool) []root
	trace = func(v ssa.Value, depth int, seen map[ssa.Value]bool) []root {
		if v == nil || seen[v] || depth > 12 {
			return nil
		}
		seen[v] = true
		switch x := v.(type) {
		case *ssa.Const:
			return nil
		case *ssa.Global:
			return []root{{"global", x.Pkg.Pkg.Path() + "." + x.Name()}}
		case *ssa.Parameter, *ssa.FreeVar:
			return []root{{"caller", x.Name()}}
		case *ssa.MakeSlice:
			return []root{{"fresh", "make"}}
		case *ssa.Alloc:
			// a local: what is stored into it
			var out []root
			out = append(out, root{"fresh", "local " + x.Comment})
			if rs := x.Referrers(); rs != nil {
				for _, r := range *rs {
					if st, ok := r.(*ssa.Store); ok && st.Addr == x {
						out = append(out, trace(st.Val, depth+1, seen)...)
					}
				}
			}
			return out
		case *ssa.Slice:
			return trace(x.X, depth+1, seen)
		case *ssa.Phi:
			var out []root
			for _, e := range x.Edges {
				out = append(out, trace(e, depth+1, seen)...)
			}
			return out
		case *ssa.ChangeType:
			return trace(x.X, depth+1, seen)
		case *ssa.Convert:
			return trace(x.X, depth+1, seen)
		case *ssa.MakeInterface:
			return trace(x.X, depth+1, seen)
		case *ssa.TypeAssert:
			return trace(x.X, depth+1, seen)
		case *ssa.Extract:
			return trace(x.Tuple, depth+1, seen)
		case *ssa.FieldAddr:
			return trace(x.X, depth+1, seen)
		case *ssa.IndexAddr:
			return trace(x.X, depth+1, seen)
		case *ssa.UnOp:
			return trace(x.X, depth+1, seen)
		case *ssa.Call:
			cc := x.Common()
			if b, ok := cc.Value.(*ssa.Builtin); ok {
				if b.Name() == "append" && len(cc.Args) > 0 {
					return trace(cc.Args[0], depth+1, seen)
				}
				return nil
			}
			callee := cc.StaticCallee()
			if callee == nil {
				return []root{{"fresh", "dynamic call"}}
			}
			qn := calleeName(callee)
			switch {
			case strings.HasSuffix(qn, "bytes.Buffer).Bytes") || strings.HasSuffix(qn, "bytes.Buffer).Next") || strings.HasSuffix(qn, "bytes.Buffer).AvailableBuffer"):
				return trace(cc.Args[0], depth+1, seen)
			case strings.HasSuffix(qn, "sync.Pool).Get"):
				return []root{{"pool", qn}}
			case strings.HasPrefix(fnPkgPath(callee), modPath) && callee.Blocks != nil:
				var out []root
				for _, b := range callee.Blocks {
					if ret, ok := b.Instrs[len(b.Instrs)-1].(*ssa.Return); ok {
						for _, r := range ret.Results {
							if isByteCarrier(r.Type()) {
								for _, rt := range trace(r, depth+1, seen) {
									if rt.kind == "caller" {
										// the callee's parameter: the argument passed here
										for i, p := range callee.Params {
											if p.Name() == rt.what && i < len(cc.Args) {
												out = append(out, trace(cc.Args[i], depth+1, seen)...)
											}
										}
										continue
									}
									out = append(out, rt)
								}
							}
						}
					}
				}
				return out
			}
			return []root{{"fresh", "result of " + qn}}
		}
		return []root{{"fresh", fmt.Sprintf("%T", v)}}
	}
	n, bad := 0, 0
	var names []string
	for _, fn := range c.P.RepoFuncs() {
		if shortPkg(fnPkgPath(fn)) != "snapshot" || fn.Blocks == nil || fn.Parent() != nil {
			continue
		}
		res := fn.Signature.Results()
		has := false
		for i := 0; i < res.Len(); i++ {
			if isByteSlice(res.At(i).Type()) {
				has = true
			}
		}
		if !has {
			continue
		}
		name := QualName(fn)
		c.UseFunc(name)
		names = append(names, name)
		for _, b := range fn.Blocks {
			ret, ok := b.Instrs[len(b.Instrs)-1].(*ssa.Return)
			if !ok {
				continue
			}
			for _, r := range ret.Results {
				if !isByteSlice(r.Type()) {
					continue
				}
				n++
				for _, rt := range trace(r, 0, map[ssa.Value]bool{}) {
					if rt.kind == "global" || rt.kind == "pool" {
						bad++
						c.Bad(rule, name+"/output-fresh", fmt.Sprintf("the returned bytes alias shared package-level storage (%s %s): the next call overwrites what the previous caller still holds, so an encoded snapshot no longer decodes to what was encoded", rt.kind, rt.what), c.P.InstrPos(ret), nil)
					}
				}
			}
		}
	}
	sort.Strings(names)
	if bad == 0 {
		c.Ok(rule, "snapshot/output-fresh", fmt.Sprintf("%d returned byte slices in %d functions (%s) traced to their roots: fresh allocations, the receiver's own buffer or the caller's argument; none reaches a package-level variable or pool", n, len(names), strings.Join(names, ", ")), "")
	}
	c.Floor(rule, n, 3, "returned byte slices in package snapshot")
}

func isByteSlice(t types.Type) bool {
	s, ok := t.Underlying().(*types.Slice)
	if !ok {
		return false
	}
	b, ok := s.Elem().Underlying().(*types.Basic)
	return ok && b.Kind() == types.Uint8
}

func isByteCarrier(t types.Type) bool {
	if isByteSlice(t) {
		return true
	}
	if p, ok := t.Underlying().(*types.Pointer); ok {
		if n, ok := p.Elem().(*types.Named); ok && n.Obj().Name() == "Buffer" {
			return true
		}
	}
	return false
}

// C07-R7 WRITE-FITS: every scratch buffer the encoders fill through moving
// windows b[off:] is large enough for the most they can write into it, for
// all field lengths: the upper bound of each write's end (a linear form over
// the lengths of the encoded fields) is compared coefficient-wise with the
// lower bound of the allocated length. A too small buffer truncates a copy
// silently (the length prefix then disagrees with the payload) or panics.
func ruleWriteFits(c *Check, rule string) {
	nBuf, nObl, bad := 0, 0, 0
	nInFn := map[string]int{}
	var bufLen LinForm // lower bound of the length of the buffer being analysed
	type obl struct {
		fn   *ssa.Function
		end  ssa.Value
		ext  LinForm
		at   ssa.Instruction
		what string
		up   *bounder
		// a write inside a helper that was handed the window buf[base:]: the
		// helper-local end is mapped into the caller's terms and added to base
		via *struct {
			callerUp *bounder
			call     *ssa.Call
			base     ssa.Value
			inner    *obl
		}
	}
	var endOf func(o *obl) LinForm
	endOf = func(o *obl) LinForm {
		if o.via == nil {
			return o.up.EvalAt(o.end, o.ext, o.at.Block())
		}
		local := endOf(o.via.inner)
		if local.Top {
			return local
		}
		callee := o.via.call.Common().StaticCallee()
		mapped := o.via.callerUp.subst(local, callee, o.via.call.Common().Args)
		return o.via.callerUp.EvalAt(o.via.base, mapped, o.via.call.Block())
	}
	// collect gathers the write-end obligations of buffer buf inside fn; a
	// buffer handed whole to another repository function is followed there.
	var collect func(fn *ssa.Function, buf ssa.Value, depth int, obls *[]obl, windows *int, unknown *[]string, ups map[*ssa.Function]*bounder)
	collect = func(fn *ssa.Function, buf ssa.Value, depth int, obls *[]obl, windows *int, unknown *[]string, ups map[*ssa.Function]*bounder) {
		refs := buf.Referrers()
		if refs == nil || depth > 3 {
			return
		}
		up := ups[fn]
		if up == nil {
			up = newBounder(fn, true, nil)
			ups[fn] = up
		}
		for _, r := range *refs {
			switch x := r.(type) {
			case *ssa.Call:
				// the whole buffer passed on
				cal := x.Common().StaticCallee()
				if cal == nil || cal.Blocks == nil || !strings.HasPrefix(fnPkgPath(cal), modPath) {
					continue
				}
				for ai, a := range x.Common().Args {
					if a == buf && ai < len(cal.Params) {
						collect(cal, cal.Params[ai], depth+1, obls, windows, unknown, ups)
					}
				}
			case *ssa.Slice:
				if x.X != buf {
					continue
				}
				if x.High != nil {
					*obls = append(*obls, obl{fn: fn, end: x.High, ext: lfConst(0), at: x, what: "slice end", up: up})
				}
				if x.Low == nil {
					continue
				}
				wr := x.Referrers()
				if wr == nil {
					continue
				}
				for _, u := range *wr {
					call, ok := u.(*ssa.Call)
					if !ok {
						if _, isDbg := u.(*ssa.DebugRef); !isDbg {
							*unknown = append(*unknown, fmt.Sprintf("%T", u))
						}
						continue
					}
					cc := call.Common()
					if bi, ok := cc.Value.(*ssa.Builtin); ok && bi.Name() == "copy" && cc.Args[0] == ssa.Value(x) {
						*windows++
						if copyGuarded(call, x, buf) {
							up.guarded[call] = bufLen // dominated by len(src) <= len(buf) - offset
							continue
						}
						*obls = append(*obls, obl{fn: fn, end: x.Low, ext: up.lenTerm(cc.Args[1]), at: call, what: "copy of " + up.pathOf(cc.Args[1], 0), up: up})
						continue
					}
					callee := cc.StaticCallee()
					cn := ""
					if callee != nil {
						cn = calleeName(callee)
					}
					switch {
					case cn == "csproto.EncodeTag" || cn == "csproto.EncodeVarint":
						*windows++
						*obls = append(*obls, obl{fn: fn, end: x.Low, ext: up.Eval(call), at: call, what: cn, up: up})
					case strings.Contains(cn, "littleEndian).PutUint") || strings.Contains(cn, "bigEndian).PutUint"):
						*windows++
						if x.High == nil {
							w := int64(8)
							if strings.HasSuffix(cn, "32") {
								w = 4
							} else if strings.HasSuffix(cn, "16") {
								w = 2
							}
							*obls = append(*obls, obl{fn: fn, end: x.Low, ext: lfConst(w), at: call, what: cn, up: up})
						}
					default:
						// the window handed to a repository helper: its writes are
						// relative to the window's start
						handled := false
						if callee != nil && callee.Blocks != nil && strings.HasPrefix(fnPkgPath(callee), modPath) && depth < 3 {
							for ai, a := range cc.Args {
								if a != ssa.Value(x) || ai >= len(callee.Params) {
									continue
								}
								var sub []obl
								collect(callee, callee.Params[ai], depth+1, &sub, windows, unknown, ups)
								for k := range sub {
									inner := sub[k]
									o := obl{fn: fn, at: call, what: inner.what + " in " + cn, up: up}
									o.via = &struct {
										callerUp *bounder
										call     *ssa.Call
										base     ssa.Value
										inner    *obl
									}{up, call, x.Low, &inner}
									*obls = append(*obls, o)
								}
								handled = true
							}
						}
						if !handled {
							*unknown = append(*unknown, cn)
						}
					}
				}
			}
		}
	}
	for _, fn := range c.P.RepoFuncs() {
		if shortPkg(fnPkgPath(fn)) != "snapshot" || fn.Blocks == nil {
			continue
		}
		name := QualName(fn)
		for _, blk := range fn.Blocks {
			for _, in := range blk.Instrs {
				// make([]byte, n): a MakeSlice, or for constant n a slice of a
				// fresh array
				var ms ssa.Value
				var msLen ssa.Value
				constLen := int64(-1)
				switch x := in.(type) {
				case *ssa.MakeSlice:
					if !isByteSlice(x.Type()) {
						continue
					}
					if k, ok := x.Len.(*ssa.Const); ok && k.Value != nil && k.Int64() == 0 {
						continue
					}
					ms, msLen = x, x.Len
				case *ssa.Slice:
					a, ok := x.X.(*ssa.Alloc)
					if !ok || a.Comment != "makeslice" || !isByteSlice(x.Type()) || x.Low != nil {
						continue
					}
					n, ok := arrayLen(a)
					if !ok {
						continue
					}
					constLen = n
					if x.High != nil {
						k, ok := x.High.(*ssa.Const)
						if !ok || k.Value == nil {
							continue
						}
						constLen = k.Int64()
					}
					if constLen == 0 {
						continue
					}
					ms = x
				default:
					continue
				}
				var obls []obl
				windows := 0
				var unknown []string
				ups := map[*ssa.Function]*bounder{}
				bufLen = lfConst(constLen)
				if msLen != nil {
					bufLen = newBounder(fn, false, nil).Eval(msLen)
				}
				collect(fn, ms, 0, &obls, &windows, &unknown, ups)
				if windows == 0 {
					continue
				}
				nBuf++
				c.UseFunc(name)
				nInFn[name]++
				construct := fmt.Sprintf("%s/buffer#%d", name, nInFn[name])
				if len(unknown) > 0 {
					c.Undecided(rule, construct, fmt.Sprintf("a window of the buffer is used by something the rule does not bound: %v", unknown), c.P.InstrPos(in))
					continue
				}
				lo := bufLen
				if lo.Top {
					c.Undecided(rule, construct, "cannot bound the allocated length from below: "+lo.Why, c.P.InstrPos(in))
					continue
				}
				worst := lfConst(0)
				okb := true
				for _, o := range obls {
					nObl++
					end := endOf(&o)
					if end.Top {
						c.Undecided(rule, construct, "cannot bound the end of a write ("+o.what+"): "+end.Why, c.P.InstrPos(o.at))
						okb = false
						break
					}
					worst = worst.join(end, true)
					if !end.leq(lo) {
						bad++
						okb = false
						c.Bad(rule, construct+"/"+o.what, fmt.Sprintf("the buffer holds %s bytes but this write can end at offset %s: with long enough fields the copy is truncated silently (the length prefix then announces more than was written) or the encoder indexes past the buffer", lo, end), c.P.InstrPos(o.at), nil)
						break
					}
				}
				if okb {
					detail := fmt.Sprintf("%d writes and slices; worst end %s ≤ allocated %s for all field lengths", len(obls), worst, lo)
					var as []string
					for _, up := range ups {
						for a := range up.used {
							as = append(as, fmt.Sprintf("len(%s) ≤ %d", a, up.assume[a]))
						}
					}
					sort.Strings(as)
					if len(as) > 0 {
						detail += " (assuming " + strings.Join(as, ", ") + ")"
					}
					if len(ups) > 1 {
						detail += fmt.Sprintf("; followed into %d helper(s) it is passed to", len(ups)-1)
					}
					c.Ok(rule, construct, detail, c.P.InstrPos(in))
				}
			}
		}
	}
	c.Floor(rule, nBuf, 3, "encoder scratch buffers")
	c.Floor(rule, nObl, 15, "write-end obligations")
}

// copyGuarded: is copy(buf[off:], src) dominated by the true edge of
// `len(src) <= len(buf) - off` (or `off + len(src) <= len(buf)`, or the same
// test the other way round) on the very offset it writes at?
func copyGuarded(call *ssa.Call, window *ssa.Slice, buf ssa.Value) bool {
	src := call.Common().Args[1]
	off := window.Low
	isLenOf := func(v, of ssa.Value) bool {
		c, ok := v.(*ssa.Call)
		if !ok {
			return false
		}
		b, ok := c.Common().Value.(*ssa.Builtin)
		return ok && b.Name() == "len" && len(c.Common().Args) == 1 && c.Common().Args[0] == of
	}
	// lhs <= rhs shapes
	fits := func(lhs, rhs ssa.Value) bool {
		// len(src) <= len(buf) - off
		if isLenOf(lhs, src) {
			if sub, ok := rhs.(*ssa.BinOp); ok && sub.Op == token.SUB && isLenOf(sub.X, buf) && sub.Y == off {
				return true
			}
		}
		// off + len(src) <= len(buf)
		if add, ok := lhs.(*ssa.BinOp); ok && add.Op == token.ADD && isLenOf(rhs, buf) {
			if add.X == off && isLenOf(add.Y, src) || add.Y == off && isLenOf(add.X, src) {
				return true
			}
		}
		return false
	}
	b := call.Block()
	child := b
	for d := b.Idom(); d != nil; child, d = d, d.Idom() {
		iff, ok := d.Instrs[len(d.Instrs)-1].(*ssa.If)
		if !ok {
			continue
		}
		cmp, ok := iff.Cond.(*ssa.BinOp)
		if !ok {
			continue
		}
		for e := 0; e < 2; e++ {
			s := d.Succs[e]
			if !((s == child || s.Dominates(b)) && len(s.Preds) == 1 && d.Succs[1-e] != s) {
				continue
			}
			onTrue := e == 0
			switch cmp.Op {
			case token.LEQ:
				if onTrue && fits(cmp.X, cmp.Y) {
					return true
				}
			case token.GEQ:
				if onTrue && fits(cmp.Y, cmp.X) {
					return true
				}
			case token.GTR:
				if !onTrue && fits(cmp.X, cmp.Y) {
					return true
				}
			case token.LSS:
				if !onTrue && fits(cmp.Y, cmp.X) {
					return true
				}
			}
		}
	}
	return false
}

var reTagTerm = regexp.MustCompile(`DecodeTag@[\w~]+#0|>> const:3\)`)

// readerTableP: the (field number, wire type) pairs a reader accepts, read off
// its paths (not its syntax): on a path that pins the decoded tag to a constant
// k and goes on (next loop round or successful return), the wire type the path
// insists on — the constant of the expectWT it passed (directly, in a known
// get* helper, or inlined from a new helper) — gives the pair (k, wt). A path
// that goes on with the tag pinned to no constant is the default case: it must
// skip the field by wire type. switch, if-chain and table lookups (constant
// package-level maps) all give the same paths.
func readerTableP(c *Check, rule, fnName string) (tbl []fieldWT, hasDefaultSkip bool, ok bool) {
	fn := c.P.Func(fnName)
	if fn == nil || fn.Blocks == nil {
		return nil, false, false
	}
	w := Walk(c.P, fn, WalkConfig{MaxPaths: 200000})
	if w.Err != nil {
		return nil, false, false
	}
	c.Evaluations += len(w.Paths)
	ok = true
	hasDefaultSkip = true
	nDefault := 0
	seen := map[int]int{}
	helperWTs := map[string]int{}
	wtOfHelper := func(f *ssa.Function) (int, bool) {
		name := calleeName(f)
		if v, done := helperWTs[name]; done {
			return v, v >= 0
		}
		helperWTs[name] = -1
		hw := Walk(c.P, f, WalkConfig{})
		if hw.Err != nil {
			return 0, false
		}
		vals := map[string]bool{}
		for i := range hw.Paths {
			for _, e := range callsOf(&hw.Paths[i], "snapshot.expectWT") {
				if len(e.Args) == 3 {
					vals[e.Args[2]] = true
				}
			}
		}
		if len(vals) != 1 {
			return 0, false
		}
		for v := range vals {
			if k, isK := constInt(v); isK {
				helperWTs[name] = int(k)
				return int(k), true
			}
		}
		return 0, false
	}
	for i := range w.Paths {
		p := &w.Paths[i]
		goesOn := strings.HasPrefix(p.End, "backedge:") || p.End == "return" && retIsNilErr(p)
		if !goesOn {
			continue
		}
		// the tag term and the constant it is pinned to on this path
		tagTerm, pinned, k := "", false, 0
		for _, cd := range p.Conds() {
			a := cd.Atom
			if a.Kind != "cmp" || !strings.HasPrefix(a.B, "const:") || !reTagTerm.MatchString(a.A) {
				continue
			}
			tagTerm = a.A
			if v, isK := constInt(a.B); isK && p.State.RelOf(a.Dom, a.A, a.B) == EQ {
				pinned, k = true, int(v)
			}
		}
		if tagTerm == "" {
			continue // no field was decoded on this path (end of data)
		}
		if !pinned {
			nDefault++
			skipped := len(callsOf(p, "snapshot.skipTag")) > 0 || len(callsOf(p, "(*csproto.Decoder).Skip")) > 0
			if !skipped {
				hasDefaultSkip = false
			}
			continue
		}
		// the wire type insisted on
		wt, found := -1, false
		for j := range p.Events {
			e := &p.Events[j]
			if e.Kind != "call" {
				continue
			}
			switch {
			case e.Callee == "snapshot.expectWT" && len(e.Args) == 3:
				if v, isK := constInt(e.Args[2]); isK {
					if okv, f := boolCond(p, "isnil("+e.Res+")", -1); f && okv {
						wt, found = int(v), true
					}
				}
			case e.Static != nil && !e.Inl && strings.HasPrefix(fnPkgPath(e.Static), modPath) && len(e.Args) >= 3 && e.Args[len(e.Args)-2] == tagTerm:
				// a known helper taking (decoder, tag, wire type)
				if v, okh := wtOfHelper(e.Static); okh {
					wt, found = v, true
				}
			}
		}
		if !found {
			// an inlined comparison of the wire type with a constant
			for _, cd := range p.Conds() {
				a := cd.Atom
				if a.Kind == "cmp" && strings.HasPrefix(a.B, "const:") && (strings.Contains(a.A, "& const:7") || strings.Contains(a.A, "DecodeTag@") && strings.HasSuffix(a.A, "#1")) && p.State.RelOf(a.Dom, a.A, a.B) == EQ {
					if v, isK := constInt(a.B); isK {
						wt, found = int(v), true
					}
				}
			}
		}
		if !found {
			ok = false
			continue
		}
		if old, dup := seen[k]; dup && old != wt {
			ok = false
		}
		if _, dup := seen[k]; !dup {
			seen[k] = wt
			tbl = append(tbl, fieldWT{k, wt})
		}
	}
	if nDefault == 0 {
		hasDefaultSkip = false
	}
	return sortFW(tbl), hasDefaultSkip, ok
}

// END-TEST-EVERY-FIELD (C07-R4, C08-R2): a cursor parser that decodes one field
// per loop round must compare its cursor with the length of the data between
// any two tag reads — before reading the next tag (test at the top of the
// loop, on the loop-carried cursor) or after the field just handled (test at
// the bottom, on the cursor value carried into the next round). A round that
// goes on without that test reads a tag where the message may already have
// ended: a message whose last field takes that path (an unknown field, in the
// cases that matter for forward compatibility) fails to decode.
func ruleEndTestEveryField(c *Check, rule string, names ...string) {
	for _, name := range names {
		fn, paths := c.walkFn(rule, name, WalkConfig{})
		if paths == nil {
			continue
		}
		n, bad := 0, 0
		for i := range paths {
			p := &paths[i]
			if !strings.HasPrefix(p.End, "backedge:") {
				continue
			}
			// only rounds that read a tag at the cursor
			if len(callsOf(p, "csproto.DecodeVarint")) == 0 {
				continue
			}
			n++
			carried := map[string]bool{}
			for _, r := range p.Rets {
				if eq := strings.Index(r, "="); eq > 0 {
					carried[r[eq+1:]] = true
				}
			}
			tested := false
			for _, cd := range p.Conds() {
				a := cd.Atom
				if a.Kind != "cmp" || a.Dom != "int" {
					continue
				}
				for _, side := range [][2]string{{a.A, a.B}, {a.B, a.A}} {
					cur, other := side[0], side[1]
					if !strings.HasPrefix(other, "len(") {
						continue
					}
					if carried[cur] || strings.HasPrefix(cur, "loop:") {
						tested = true
					}
				}
			}
			if !tested {
				bad++
				c.Bad(rule, name+"/end-test", "a round of the field loop goes on to read the next tag without having compared the cursor with the length of the data: a message that ends after the field handled on this path (e.g. an unknown field written last by a newer version) is read past its end and fails to decode", c.pathPos(p), describe(c, p))
			}
		}
		if bad == 0 {
			c.Ok(rule, name+"/end-test", fmt.Sprintf("all %d continuing rounds of the field loop compare the cursor with the length of the data before the next tag is read", n), c.P.Pos(fn.Pos()))
		}
		c.Floor(rule, n, 2, "continuing rounds of "+name)
	}
}

// ENTRY-DECODED-INTO-ZERO (C07-R5, C02-R8): KV.Unmarshal only assigns the fields
// present in the message (an absent value, flags or timestamp field leaves the
// receiver's field alone; DBI.Append omits empty ones). Every decode of one
// entry must therefore start from a zero KV: a fresh local, or a target that is
// overwritten with the zero value first. Decoding into a KV that still holds
// the previous entry makes an entry without a value inherit its neighbour's.
func ruleEntryDecodedIntoZero(c *Check, rule string) {
	target := c.P.Func("snapshot.(*KV).Unmarshal")
	if target == nil {
		c.Undecided(rule, "snapshot.(*KV).Unmarshal", "not found", "")
		return
	}
	wk := &Walker{loops: map[*ssa.Function]*loopInfo{}}
	inLoopWithout := func(call ssa.Instruction, def *ssa.BasicBlock) bool {
		for _, body := range wk.loopsOf(call.Parent()).headers {
			if body[call.Block()] && !body[def] {
				return true
			}
		}
		return false
	}
	isZeroVal := func(v ssa.Value) bool {
		if k, ok := v.(*ssa.Const); ok {
			return k.Value == nil
		}
		ld, ok := v.(*ssa.UnOp)
		if !ok || ld.Op != token.MUL {
			return false
		}
		al, ok := ld.X.(*ssa.Alloc)
		if !ok || al.Referrers() == nil {
			return false
		}
		for _, r := range *al.Referrers() {
			switch r.(type) {
			case *ssa.UnOp, *ssa.DebugRef:
			default:
				return false // a field of the literal is set
			}
		}
		return true
	}
	var fresh func(v ssa.Value, at ssa.Instruction, d int) (bool, string)
	fresh = func(v ssa.Value, at ssa.Instruction, d int) (bool, string) {
		if d > 3 {
			return false, "too many levels of indirection"
		}
		// overwritten with the zero value before, in a dominating position
		if v.Referrers() != nil {
			for _, r := range *v.Referrers() {
				st, ok := r.(*ssa.Store)
				if !ok || st.Addr != v || !isZeroVal(st.Val) || st.Parent() != at.Parent() {
					continue
				}
				if st.Block() == at.Block() {
					for _, in := range st.Block().Instrs {
						if in == ssa.Instruction(st) {
							return true, ""
						}
						if in == at {
							break
						}
					}
					continue
				}
				if st.Block().Dominates(at.Block()) && !inLoopWithout(at, st.Block()) {
					return true, ""
				}
			}
		}
		switch x := v.(type) {
		case *ssa.Alloc:
			if x.Referrers() != nil {
				for _, r := range *x.Referrers() {
					switch u := r.(type) {
					case *ssa.Store:
						if ld, ok := u.Val.(*ssa.UnOp); ok && ld.Op == token.MUL && ld.X == ssa.Value(x) {
							continue // a named result copied onto itself at a return
						}
						if u.Addr == ssa.Value(x) && !isZeroVal(u.Val) {
							return false, "the local is assigned before it is decoded into"
						}
					case *ssa.FieldAddr:
						if u.Referrers() != nil {
							for _, fr := range *u.Referrers() {
								if st, ok := fr.(*ssa.Store); ok && st.Addr == ssa.Value(u) {
									return false, "a field of the local is assigned outside the decoder"
								}
							}
						}
					}
				}
			}
			if inLoopWithout(at, x.Block()) {
				return false, "the local is declared outside the loop that decodes into it"
			}
			return true, ""
		case *ssa.Parameter:
			fn := x.Parent()
			idx := -1
			for i, p := range fn.Params {
				if p == x {
					idx = i
				}
			}
			n := 0
			for _, g := range c.P.RepoFuncs() {
				for _, b := range g.Blocks {
					for _, in := range b.Instrs {
						ci, ok := in.(ssa.CallInstruction)
						if !ok || !sameFunc(ci.Common().StaticCallee(), fn) || idx >= len(ci.Common().Args) {
							continue
						}
						n++
						if ok2, why := fresh(ci.Common().Args[idx], in, d+1); !ok2 {
							return false, "caller " + QualName(g) + ": " + why
						}
					}
				}
			}
			if n == 0 {
				return false, "no caller establishes a zero target"
			}
			return true, ""
		}
		return false, "the target is neither a fresh local nor overwritten with the zero value first"
	}
	n, bad := 0, 0
	for _, g := range c.P.RepoFuncs() {
		if strings.Contains(QualName(g), "gogosnapshot") {
			continue
		}
		for _, b := range g.Blocks {
			for _, in := range b.Instrs {
				ci, ok := in.(ssa.CallInstruction)
				if !ok || ci.Common().StaticCallee() != target || len(ci.Common().Args) == 0 {
					continue
				}
				n++
				if okf, why := fresh(ci.Common().Args[0], in, 0); !okf {
					bad++
					c.Bad(rule, QualName(g)+"/entry-decoded-into-zero", "KV.Unmarshal is called on a KV that may still hold the previous entry ("+why+"): the decoder only assigns the fields present in the message, so an entry without a value, flags or timestamp inherits its neighbour's", c.P.InstrPos(in), nil)
				}
			}
		}
	}
	if bad == 0 {
		c.Ok(rule, "entry-decoded-into-zero", fmt.Sprintf("all %d calls of KV.Unmarshal decode into a fresh local or a target overwritten with the zero value first", n), "")
	}
	c.Floor(rule, n, 1, "calls of KV.Unmarshal")
}

// WHOLE-STREAM (C07-R3, C08-R5): LoadData hands the decoder everything the gzip
// reader yields: the decompressed bytes are collected with io.Copy / io.ReadAll /
// Buffer.ReadFrom whose source is the gzip reader itself, read until it reports
// the end. A bounded or wrapped source (io.LimitReader, a fixed-size ReadFull)
// that stops early without an error cuts the protobuf short: the snapshot fails
// to decode or — when the cut falls on a field boundary — silently loses its
// trailing DBIs.
func ruleWholeStream(c *Check, rule string) {
	name := "snapshot.LoadData"
	fn, paths := c.walkFn(rule, name, WalkConfig{})
	if paths == nil {
		return
	}
	n, bad := 0, 0
	for i := range paths {
		p := &paths[i]
		if p.End != "return" || !retIsNilErr(p) {
			continue
		}
		n++
		var gz string
		for j := range p.Events {
			e := &p.Events[j]
			if e.Kind == "call" && strings.HasSuffix(e.Callee, "gzip.NewReader") {
				gz = e.Res + "#0"
			}
		}
		whole := false
		for j := range p.Events {
			e := &p.Events[j]
			if e.Kind != "call" || gz == "" {
				continue
			}
			switch e.Callee {
			case "io.Copy", "io.CopyBuffer":
				whole = whole || len(e.Args) >= 2 && e.Args[1] == gz
			case "io.ReadAll", "io/ioutil.ReadAll":
				whole = whole || len(e.Args) == 1 && e.Args[0] == gz
			case "(*bytes.Buffer).ReadFrom":
				whole = whole || len(e.Args) == 2 && e.Args[1] == gz
			}
		}
		if !whole {
			bad++
			c.Bad(rule, name+"/whole-stream", "a snapshot is accepted on a path that did not read the gzip reader itself to its end (io.Copy / io.ReadAll / ReadFrom with the gzip reader as the source): a wrapped or bounded source that stops early without an error truncates the protobuf, and a cut on a field boundary silently drops the trailing DBIs", c.pathPos(p), describe(c, p))
		}
	}
	if bad == 0 {
		c.Ok(rule, name+"/whole-stream", fmt.Sprintf("all %d accepting paths collect the decompressed bytes from the gzip reader itself until it reports the end", n), c.P.Pos(fn.Pos()))
	}
	c.Floor(rule, n, 1, "accepting paths of LoadData")
}

// bufferBytes lists the distinct single-byte reads "X[i]" that occur in an expression.
func bufferBytes(expr string) []string {
	var out []string
	seen := map[string]bool{}
	for i := 0; i < len(expr); i++ {
		if expr[i] != ']' {
			continue
		}
		// walk back to the matching '[' and then over the operand in front of it
		d, j := 0, i
		for ; j >= 0; j-- {
			if expr[j] == ']' {
				d++
			}
			if expr[j] == '[' {
				d--
				if d == 0 {
					break
				}
			}
		}
		if j <= 0 {
			continue
		}
		k := j - 1
		if expr[k] == ')' {
			d = 0
			for ; k >= 0; k-- {
				if expr[k] == ')' {
					d++
				}
				if expr[k] == '(' {
					d--
					if d == 0 {
						break
					}
				}
			}
		}
		for k > 0 && (expr[k-1] == '_' || expr[k-1] == ':' || expr[k-1] == '.' || expr[k-1] == '~' || expr[k-1] == '@' || expr[k-1] == '#' || expr[k-1] >= '0' && expr[k-1] <= '9' || expr[k-1] >= 'a' && expr[k-1] <= 'z' || expr[k-1] >= 'A' && expr[k-1] <= 'Z') {
			k--
		}
		if k < 0 {
			k = 0
		}
		b := expr[k : i+1]
		if !seen[b] {
			seen[b] = true
			out = append(out, b)
		}
	}
	return out
}

// stripConv removes the integer conversions wrapped around an expression.
func stripConv(e string) string {
	for strings.HasPrefix(e, "conv:") && strings.HasSuffix(e, ")") {
		i := strings.Index(e, "(")
		if i < 0 {
			break
		}
		e = e[i+1 : len(e)-1]
	}
	return e
}
