package main

import (
	"fmt"
	"go/constant"
	"go/token"
	"go/types"
	"regexp"
	"sort"
	"strings"

	"golang.org/x/tools/go/ssa"
)

// Rules on indirect dependencies of the properties: configuration validation,
// helpers outside the anchor files, metric declarations, the endianness probe.

// RETRY-COUNT-VALIDATED (C05-R4, C09-R4, C12-R5): SendOnce's store loop runs
// `for i := 0; i < StorageRetryCount || StorageRetryForever; i++` and reports
// success when the loop ends with a nil error. With a count of zero the loop
// body never runs and nothing is stored; the only thing that excludes that is
// Config.Check, which therefore must refuse every count below 1.
func ruleRetryCountValidated(c *Check, rule string) {
	name := "config.(Config).Check"
	fn, paths := c.walkFn(rule, name, WalkConfig{Memo: true,
		KeepEvent: func(e *Event) bool { return e.Kind == "ret" },
		KeepAtom:  func(a Atom) bool { return strings.Contains(a.String(), "StorageRetryCount") }})
	if paths == nil {
		return
	}
	cfg := param(fn, 0)
	n, bad := 0, 0
	for i := range paths {
		p := &paths[i]
		if p.End != "return" || !retIsNilErr(p) {
			continue
		}
		n++
		// established by a condition taken on this path (the final state may
		// have been forgotten): count >= 1
		ok := false
		for _, cd := range p.Conds() {
			a := cd.Atom
			if a.Kind != "cmp" || a.A != cfg+".StorageRetryCount" {
				continue
			}
			k, isK := constInt(a.B)
			if !isK {
				continue
			}
			r := a.R
			if !cd.Truth {
				r = ANY &^ a.R
			}
			// r is the relation count ? k known on this path
			switch {
			case r&LT == 0 && k >= 1, // count >= k >= 1
				r == GT && k >= 0: // count > k >= 0
				ok = true
			}
		}
		if !ok {
			bad++
			c.Bad(rule, name+"/storage-retry-count", "a configuration is accepted on a path that has not established storage_retry_count >= 1: with 0 the store loop of SendOnce never runs, nothing is uploaded, and SendOnce still reports success (the watermark advances and the cleaner is told the merged snapshots were re-published)", c.pathPos(p), describe(c, p))
		}
	}
	if bad == 0 {
		c.Ok(rule, name+"/storage-retry-count", fmt.Sprintf("all %d accepting paths of Config.Check have established storage_retry_count >= 1, so SendOnce's store loop runs at least once", n), c.P.Pos(fn.Pos()))
	}
	c.Floor(rule, n, 1, "accepting paths of Config.Check")
}

// TIMESTAMP-TIME (C15-R1): Timestamp.Time() is time.Unix(0, int64(ts)) for
// every ts, zero included: NameTimestampFromNano goes through it.
func ruleTimestampTime(c *Check, rule string) {
	name := "lmdbenv/header.(Timestamp).Time"
	fn, paths := c.walkFn(rule, name, WalkConfig{})
	if paths == nil {
		return
	}
	ts := param(fn, 0)
	ok := len(paths) > 0
	got := ""
	for i := range paths {
		p := &paths[i]
		if p.End != "return" || len(p.Rets) != 1 {
			ok = false
			continue
		}
		got = p.Rets[0]
		if !(strings.HasPrefix(got, "time.Unix(const:0, conv:int64("+ts+"))") || strings.HasPrefix(got, "time.Unix@") && len(callsOf(p, "time.Unix")) == 1 && callsOf(p, "time.Unix")[0].Args[0] == "const:0" && callsOf(p, "time.Unix")[0].Args[1] == "conv:int64("+ts+")") {
			ok = false
		}
	}
	c.Expect(ok && len(paths) == 1, rule, name, "Timestamp.Time() is time.Unix(0, int64(ts)) on its single path (no special case for any value)", fmt.Sprintf("Timestamp.Time() is not uniformly time.Unix(0, int64(ts)) (%d paths, last result %s): a timestamp treated specially (e.g. 0) gets a name that does not parse back to it", len(paths), got), c.P.Pos(fn.Pos()))
}

// LABEL-ARITY (C16-R7): a prometheus vector declared with n label names is
// used with exactly n label values at every WithLabelValues site; a mismatch
// panics at run time — on a failure path this turns a transient storage error
// into a crash of the whole process.
func ruleMetricLabelArity(c *Check, rule string) {
	// declared arity per package-level variable: NewXxxVec(opts, []string{...})
	decl := map[*ssa.Global]int{}
	for _, fn := range c.P.RepoFuncs() {
		if fn.Name() != "init" && !strings.HasPrefix(fn.Name(), "init#") {
			continue
		}
		for _, b := range fn.Blocks {
			for _, in := range b.Instrs {
				st, ok := in.(*ssa.Store)
				if !ok {
					continue
				}
				g, ok := st.Addr.(*ssa.Global)
				if !ok {
					continue
				}
				call, ok := st.Val.(*ssa.Call)
				if !ok {
					continue
				}
				callee := call.Common().StaticCallee()
				if callee == nil || !strings.Contains(callee.String(), "prometheus") || !strings.HasSuffix(callee.Name(), "Vec") || len(call.Common().Args) < 2 {
					continue
				}
				if n, ok := sliceLitLen(call.Common().Args[len(call.Common().Args)-1]); ok {
					decl[g] = n
				}
			}
		}
	}
	nSites, bad := 0, 0
	for _, fn := range c.P.RepoFuncs() {
		if !sfInScope(fn) {
			continue
		}
		for _, b := range fn.Blocks {
			for _, in := range b.Instrs {
				call, ok := in.(*ssa.Call)
				if !ok {
					continue
				}
				callee := call.Common().StaticCallee()
				if callee == nil || callee.Name() != "WithLabelValues" || len(call.Common().Args) < 2 {
					continue
				}
				ld, ok := call.Common().Args[0].(*ssa.UnOp)
				if !ok {
					continue
				}
				g, ok := ld.X.(*ssa.Global)
				if !ok {
					continue
				}
				want, known := decl[g]
				if !known {
					continue
				}
				got, ok := sliceLitLen(call.Common().Args[1])
				if !ok {
					continue
				}
				nSites++
				if got != want {
					bad++
					c.Bad(rule, QualName(fn)+"/label-arity:"+g.Name(), fmt.Sprintf("%s is declared with %d label(s) but given %d value(s) here: WithLabelValues panics (inconsistent label cardinality); on an error path that kills the process instead of retrying", g.Name(), want, got), c.P.InstrPos(call), nil)
				}
			}
		}
	}
	if bad == 0 {
		c.Ok(rule, "metrics/label-arity", fmt.Sprintf("%d labelled metric vectors, %d WithLabelValues sites: the number of values equals the number of declared labels at each", len(decl), nSites), "")
	}
	c.Floor(rule, nSites, 10, "WithLabelValues sites")
}

// sliceLitLen: the length of a []string literal / variadic argument array.
func sliceLitLen(v ssa.Value) (int, bool) {
	if k, ok := v.(*ssa.Const); ok && k.Value == nil {
		return 0, true // nil slice: no elements
	}
	sl, ok := v.(*ssa.Slice)
	if !ok {
		return 0, false
	}
	a, ok := sl.X.(*ssa.Alloc)
	if !ok {
		return 0, false
	}
	n, ok := arrayLen(a)
	return int(n), ok
}

// SLEEP-IS-CANCEL-POINT (C17-R6): the loops of the background goroutines notice
// cancellation through utils.SleepContext. It must therefore consult ctx.Done()
// on every path: a nil return without having waited on the select lets a loop
// with a zero interval spin forever after cancel.
func ruleSleepContext(c *Check, rule string) {
	name := "utils.SleepContext"
	fn, paths := c.walkFn(rule, name, WalkConfig{})
	if paths == nil {
		return
	}
	n, bad := 0, 0
	for i := range paths {
		p := &paths[i]
		if p.End != "return" {
			continue
		}
		n++
		sel := false
		for _, e := range p.Events {
			if e.Kind == "select" && strings.Contains(strings.Join(e.Extra, " "), ".Done") {
				sel = true
			}
			if e.Kind == "recv" && strings.Contains(e.Addr, ".Done") {
				sel = true
			}
		}
		if !sel && retIsNilErr(p) {
			bad++
			c.Bad(rule, name+"/cancel-point", "SleepContext returns nil on a path that never waited on ctx.Done(): the background loops use it as their only cancellation point, so with a zero interval they spin forever after cancel and Sync never returns", c.pathPos(p), describe(c, p))
		}
	}
	if bad == 0 {
		c.Ok(rule, name+"/cancel-point", fmt.Sprintf("all %d returning paths of SleepContext pass the select on ctx.Done()", n), c.P.Pos(fn.Pos()))
	}
	c.Floor(rule, n, 2, "returning paths of SleepContext")
}

// NEXT-EOF-ONLY-AT-END (C18-R2, C07-R3): DBI.Next reports io.EOF (end of the
// DBI for the merge) only when the read cursor has reached the end of the
// data; fields other than entries are skipped, never taken for the end.
func ruleNextEOF(c *Check, rule string) {
	name := "snapshot.(*DBI).Next"
	fn, paths := c.walkFn(rule, name, WalkConfig{})
	if paths == nil {
		return
	}
	d := param(fn, 0)
	n, bad := 0, 0
	for i := range paths {
		p := &paths[i]
		if p.End != "return" || len(p.Rets) < 2 || p.Rets[len(p.Rets)-1] != "global:io.EOF" {
			continue
		}
		n++
		atEnd := false
		for _, cd := range p.Conds() {
			a := cd.Atom
			if a.Kind != "cmp" || a.Dom != "int" {
				continue
			}
			x, y := a.A, a.B
			r := a.R
			if !cd.Truth {
				r = ANY &^ a.R
			}
			if x == "len("+d+".data)" {
				x, y = y, x
				r = r.Flip()
			}
			// cursor ? len(data): end reached when cursor >= len
			if y == "len("+d+".data)" && r&LT == 0 {
				atEnd = true
			}
		}
		if !atEnd {
			bad++
			c.Bad(rule, name+"/eof-only-at-end", "Next returns io.EOF on a path that has not established cursor >= len(data): the merge of this DBI ends early, its remaining entries are dropped and the transaction still commits", c.pathPos(p), describe(c, p))
		}
	}
	if bad == 0 {
		c.Ok(rule, name+"/eof-only-at-end", fmt.Sprintf("all %d io.EOF returns of DBI.Next are behind cursor >= len(data)", n), c.P.Pos(fn.Pos()))
	}
	c.Floor(rule, n, 1, "io.EOF returns of DBI.Next")
}

// ENDIAN-PROBE (C19-R5, C11-R4): isLittleEndian selects the integer-key
// comparator. Whatever idiom probes the byte order, `true` must be stored
// exactly under the little-endian outcome of the probe (low byte first), and
// `false` under the big-endian one. Two idioms are understood: a multi-byte
// constant stored through an unsafe pointer into a byte array that is compared
// with array literals, and binary.NativeEndian.UintN of literal bytes compared
// with a constant.
func ruleEndianProbe(c *Check, rule string) {
	var stores []*ssa.Store
	for _, fn := range c.P.RepoFuncs() {
		if shortPkg(fnPkgPath(fn)) != "lmdbenv/strategy" {
			continue
		}
		for _, b := range fn.Blocks {
			for _, in := range b.Instrs {
				if st, ok := in.(*ssa.Store); ok {
					if g, ok := st.Addr.(*ssa.Global); ok && g.Name() == "isLittleEndian" {
						stores = append(stores, st)
					}
				}
			}
		}
	}
	if len(stores) == 0 {
		c.Undecided(rule, "lmdbenv/strategy.isLittleEndian", "no assignment to isLittleEndian found", "")
		return
	}
	nTrue, nFalse, bad := 0, 0, 0
	// the values assigned: constants stored directly, or what a probing helper
	// of the package returns
	type site struct {
		Val ssa.Value
		at  ssa.Instruction
	}
	var sites []site
	for _, st := range stores {
		if call, ok := st.Val.(*ssa.Call); ok {
			if callee := call.Common().StaticCallee(); callee != nil && callee.Blocks != nil && strings.HasPrefix(fnPkgPath(callee), modPath) {
				for _, b := range callee.Blocks {
					if ret, ok := b.Instrs[len(b.Instrs)-1].(*ssa.Return); ok && len(ret.Results) == 1 {
						sites = append(sites, site{ret.Results[0], ret})
					}
				}
				continue
			}
		}
		sites = append(sites, site{st.Val, st})
	}
	for _, st := range sites {
		k, ok := st.Val.(*ssa.Const)
		if !ok || k.Value == nil || k.Value.Kind() != constant.Bool {
			// computed value: must be the probe comparison itself
			if pat := endianPattern(st.Val); pat == "little" {
				nTrue++
				nFalse++
				continue
			}
			bad++
			c.Bad(rule, "lmdbenv/strategy.isLittleEndian/probe", "isLittleEndian is assigned a value that is not recognisably 'the probe shows the low byte first'", c.P.InstrPos(st.at), nil)
			continue
		}
		val := constant.BoolVal(k.Value)
		// the condition this store is under
		pat := ""
		b := st.at.Block()
		child := b
		for d := b.Idom(); d != nil && pat == ""; child, d = d, d.Idom() {
			iff, ok := d.Instrs[len(d.Instrs)-1].(*ssa.If)
			if !ok {
				continue
			}
			for e := 0; e < 2; e++ {
				s := d.Succs[e]
				if (s == child || s.Dominates(b)) && len(s.Preds) == 1 && d.Succs[1-e] != s {
					p := endianPattern(iff.Cond)
					if p != "" && e == 1 {
						// false edge of "== little pattern" says nothing definite
						p = ""
					}
					pat = p
				}
			}
		}
		switch {
		case pat == "":
			bad++
			c.Bad(rule, "lmdbenv/strategy.isLittleEndian/probe", fmt.Sprintf("isLittleEndian = %v is not under a recognisable byte-order test", val), c.P.InstrPos(st.at), nil)
		case val != (pat == "little"):
			bad++
			c.Bad(rule, "lmdbenv/strategy.isLittleEndian/probe", fmt.Sprintf("isLittleEndian = %v is stored where the probe shows a %s-endian layout: on a little-endian host MDB_INTEGERKEY DBIs are then walked in byte order while LMDB orders them as integers (valid input is rejected as unsorted, unsorted input accepted, entries paired with the wrong stored key)", val, pat), c.P.InstrPos(st.at), nil)
		case val:
			nTrue++
		default:
			nFalse++
		}
	}
	if bad == 0 {
		c.Ok(rule, "lmdbenv/strategy.isLittleEndian/probe", fmt.Sprintf("isLittleEndian is true exactly under the low-byte-first outcome of the probe (%d store(s)) and false under the high-byte-first one (%d)", nTrue, nFalse), "")
	}
	c.Floor(rule, nTrue, 1, "assignments isLittleEndian = true")
}

// endianPattern classifies a probe comparison as testing the little- or the
// big-endian layout ("" when not recognised).
func endianPattern(cond ssa.Value) string {
	cmp, ok := cond.(*ssa.BinOp)
	if !ok || cmp.Op != token.EQL {
		return ""
	}
	bytesOfAlloc := func(v ssa.Value) ([]int64, *ssa.Alloc, bool) {
		ld, ok := v.(*ssa.UnOp)
		if !ok {
			return nil, nil, false
		}
		a, ok := ld.X.(*ssa.Alloc)
		if !ok {
			return nil, nil, false
		}
		n, ok := arrayLen(a)
		if !ok {
			return nil, nil, false
		}
		out := make([]int64, n)
		set := 0
		if rs := a.Referrers(); rs != nil {
			for _, r := range *rs {
				ia, ok := r.(*ssa.IndexAddr)
				if !ok {
					continue
				}
				idx, ok := ia.Index.(*ssa.Const)
				if !ok {
					continue
				}
				for _, r2 := range *ia.Referrers() {
					if st, ok := r2.(*ssa.Store); ok && st.Addr == ssa.Value(ia) {
						if k, ok := st.Val.(*ssa.Const); ok && k.Value != nil {
							out[idx.Int64()] = k.Int64()
							set++
						}
					}
				}
			}
		}
		return out, a, set > 0
	}
	// the multi-byte constant stored through an unsafe pointer into an array
	probeConst := func(a *ssa.Alloc) (int64, bool) {
		rs := a.Referrers()
		if rs == nil {
			return 0, false
		}
		for _, r := range *rs {
			ia, ok := r.(*ssa.IndexAddr)
			if !ok {
				continue
			}
			var walk func(v ssa.Value, d int) (int64, bool)
			walk = func(v ssa.Value, d int) (int64, bool) {
				if d > 4 || v.Referrers() == nil {
					return 0, false
				}
				for _, r2 := range *v.Referrers() {
					switch x := r2.(type) {
					case *ssa.Convert:
						if k, ok := walk(x, d+1); ok {
							return k, true
						}
					case *ssa.ChangeType:
						if k, ok := walk(x, d+1); ok {
							return k, true
						}
					case *ssa.Store:
						if x.Addr == v {
							if k, ok := x.Val.(*ssa.Const); ok && k.Value != nil {
								if b, ok := x.Val.Type().Underlying().(*types.Basic); ok && b.Kind() != types.Uint8 {
									return k.Int64(), true
								}
							}
						}
					}
				}
				return 0, false
			}
			if k, ok := walk(ia, 0); ok {
				return k, true
			}
		}
		// binary.NativeEndian.PutUintN(array[:], K)
		for _, r := range *rs {
			sl, ok := r.(*ssa.Slice)
			if !ok || sl.Referrers() == nil {
				continue
			}
			for _, r2 := range *sl.Referrers() {
				call, ok := r2.(*ssa.Call)
				if !ok {
					continue
				}
				callee := call.Common().StaticCallee()
				if callee == nil || !strings.Contains(callee.String(), "encoding/binary") || !strings.HasPrefix(callee.Name(), "PutUint") {
					continue
				}
				args := call.Common().Args
				if !fromNativeEndian(args[0]) && !strings.Contains(callee.String(), "nativeEndian") {
					continue
				}
				if k, ok := args[len(args)-1].(*ssa.Const); ok && k.Value != nil {
					return k.Int64(), true
				}
			}
		}
		return 0, false
	}
	classify := func(bytes []int64, k int64) string {
		n := len(bytes)
		little, big := true, true
		for i := 0; i < n; i++ {
			if bytes[i] != (k>>(8*uint(i)))&0xff {
				little = false
			}
			if bytes[i] != (k>>(8*uint(n-1-i)))&0xff {
				big = false
			}
		}
		switch {
		case little && !big:
			return "little"
		case big && !little:
			return "big"
		}
		return ""
	}
	// idiom 1: probe array == literal array
	for _, pair := range [][2]ssa.Value{{cmp.X, cmp.Y}, {cmp.Y, cmp.X}} {
		_, pa, ok1 := bytesOfAlloc(pair[0])
		lit, _, ok2 := bytesOfAlloc(pair[1])
		if pa != nil && ok2 {
			if k, ok := probeConst(pa); ok {
				_ = ok1
				return classify(lit, k)
			}
		}
	}
	// idiom 2: NativeEndian.UintN(literal bytes) == constant
	for _, pair := range [][2]ssa.Value{{cmp.X, cmp.Y}, {cmp.Y, cmp.X}} {
		call, ok := pair[0].(*ssa.Call)
		k, ok2 := pair[1].(*ssa.Const)
		if !ok || !ok2 || k.Value == nil {
			continue
		}
		callee := call.Common().StaticCallee()
		if callee == nil || !strings.Contains(callee.String(), "encoding/binary") || !strings.HasPrefix(callee.Name(), "Uint") {
			continue
		}
		args := call.Common().Args
		// the receiver must be binary.NativeEndian (which the type checker has
		// already resolved to the host's byte order), not a fixed order
		native := false
		var from func(v ssa.Value, d int)
		from = func(v ssa.Value, d int) {
			if d > 4 {
				return
			}
			switch x := v.(type) {
			case *ssa.Global:
				if x.Name() == "NativeEndian" {
					native = true
				}
			case *ssa.UnOp:
				from(x.X, d+1)
			case *ssa.Field:
				from(x.X, d+1)
			case *ssa.FieldAddr:
				from(x.X, d+1)
			}
		}
		from(args[0], 0)
		if !native && !strings.Contains(callee.String(), "nativeEndian") {
			continue
		}
		sl, ok := args[len(args)-1].(*ssa.Slice)
		if !ok {
			continue
		}
		a, ok := sl.X.(*ssa.Alloc)
		if !ok {
			continue
		}
		fake := &ssa.UnOp{X: a}
		if bytes, _, ok := bytesOfAlloc(fake); ok {
			return classify(bytes, k.Int64())
		}
	}
	return ""
}

var _ = sort.Strings

// fromNativeEndian: does the receiver value derive from binary.NativeEndian?
func fromNativeEndian(v ssa.Value) bool {
	for d := 0; d < 5; d++ {
		switch x := v.(type) {
		case *ssa.Global:
			return x.Name() == "NativeEndian"
		case *ssa.UnOp:
			v = x.X
		case *ssa.Field:
			v = x.X
		case *ssa.FieldAddr:
			v = x.X
		default:
			return false
		}
	}
	return false
}

// collection expressions (as rendered inside len(...)) of the walks checked by
// ruleCollectionExhausted
const (
	collDBINames   = `lmdbenv\.ReadDBINames@[\w~]+#0|github\.com/samber/lo\.(?:Filter|Reject)@[\w~]+`
	collSnapDBIs   = `[^()]*\.Databases`
	collLocalNames = `local:[\w~]+|\*?alloc:[\w.~]+|lmdbenv\.ReadDBINames@[\w~]+#0|github\.com/samber/lo\.(?:Filter|Reject)@[\w~]+`
)

// COLLECTION-EXHAUSTED: the listed functions walk a collection (the DBIs of a
// snapshot, the DBI names of the environment) and must handle every element: a
// successful return is reached only after the loop over that collection ran to
// its end. A path that is inside an iteration of that loop (or left it with a
// break) and then returns a nil error cuts the walk short "successfully": the
// remaining DBIs are not merged / dumped / mirrored / swept and the
// transaction still commits. allowed lists, per function, the conditions under
// which an early successful end is intended.
func ruleCollectionExhausted(c *Check, rule, name, coll, what string, allowed func(p *Path) bool) {
	// the loop's own exhaustion test: index < len(coll), the ok flag of a map
	// range over coll, or a bare call such as Decoder.More
	collRe := regexp.MustCompile(`len\((` + coll + `)\)|next\(range\((` + coll + `)\)@[\w~]+\)@[\w~]+#0|^!?(` + coll + `)$`)
	fn, paths := c.walkFn(rule, name, WalkConfig{Memo: true, MaxPaths: 120000,
		KeepAtom: func(a Atom) bool {
			s := a.String()
			return collRe.MatchString(s) || strings.HasPrefix(s, "isnil(") || strings.HasPrefix(s, "!isnil(")
		},
		KeepEvent: func(e *Event) bool { return e.Kind == "ret" }})
	if paths == nil {
		return
	}
	wk := &Walker{loops: map[*ssa.Function]*loopInfo{}}
	nLoop, nEnd, bad := 0, 0, 0
	for i := range paths {
		p := &paths[i]
		inside := map[*ssa.BasicBlock]bool{}
		seen := false
		for j := range p.Events {
			e := &p.Events[j]
			if e.Kind != "cond" || e.Cond == nil || !collRe.MatchString(e.Cond.Atom.String()) {
				continue
			}
			iff, ok := e.Instr.(*ssa.If)
			if !ok {
				continue
			}
			body, isHdr := wk.loopsOf(iff.Block().Parent()).headers[iff.Block()]
			if !isHdr {
				continue
			}
			seen = true
			inside[iff.Block()] = body[iff.Block().Succs[e.Edge]]
		}
		if !seen {
			continue
		}
		nLoop++
		if p.End != "return" {
			continue
		}
		isNil := !returnsError(fn) // without an error result every return is a successful one
		if returnsError(fn) && len(p.Rets) > 0 {
			r := p.Rets[len(p.Rets)-1]
			isNil = r == "nil"
			if !isNil {
				if v, ok := p.State.BoolOf("isnil(" + r + ")"); ok && v {
					isNil = true
				}
			}
		}
		if !isNil {
			continue
		}
		in := false
		for _, v := range inside {
			in = in || v
		}
		if !in {
			nEnd++
			continue
		}
		if allowed != nil && allowed(p) {
			continue
		}
		bad++
		c.Bad(rule, name+"/early-success", "the function returns successfully from inside the walk over "+what+" (before the last element was handled): the remaining elements are skipped and the enclosing transaction still commits", c.pathPos(p), describe(c, p))
	}
	if bad == 0 {
		c.Ok(rule, name+"/collection-exhausted", fmt.Sprintf("%d path classes through the walk over %s: every successful return (%d) lies behind the end of that loop", nLoop, what, nEnd), c.P.Pos(fn.Pos()))
	}
	c.Floor(rule, nLoop, 2, "paths through the collection loop of "+name)
	c.Floor(rule, nEnd, 1, "successful ends behind the collection loop of "+name)
}

func returnsError(fn *ssa.Function) bool {
	res := fn.Signature.Results()
	if res.Len() == 0 {
		return false
	}
	n, ok := res.At(res.Len() - 1).Type().(*types.Named)
	return ok && n.Obj().Pkg() == nil && n.Obj().Name() == "error"
}

// LISTING-NOT-REORDERED (C15-R4, C16-R4, C05-R3): the receiver and the cleaner
// rely on the order of the storage listing (names of one instance sort by time:
// "a later name overwrites an earlier one"). The listing returned by List is
// therefore never sorted, reversed or written to before it is scanned — also
// not through a copy of the slice header handed to a helper (a metric that
// sorts "its" BlobList by size reorders the caller's listing as well).
func ruleListingNotReordered(c *Check, rule string, names ...string) {
	reorder := map[string]bool{
		"slices.Sort": true, "slices.SortFunc": true, "slices.SortStableFunc": true, "slices.Reverse": true,
		"slices.Delete": true, "slices.DeleteFunc": true, "slices.Insert": true, "slices.Compact": true, "slices.CompactFunc": true,
		"sort.Slice": true, "sort.SliceStable": true, "sort.Sort": true, "sort.Stable": true, "sort.Strings": true,
	}
	for _, name := range names {
		fn := c.P.Func(name)
		if fn == nil || fn.Blocks == nil {
			c.Undecided(rule, name, "anchor function not found in the current tree", "")
			continue
		}
		c.UseFunc(name)
		n, bad := 0, 0
		// the function and the new helpers it was split into
		scope := []*ssa.Function{fn}
		inScope := map[*ssa.Function]bool{fn: true}
		for i := 0; i < len(scope) && i < 40; i++ {
			for _, b := range scope[i].Blocks {
				for _, in := range b.Instrs {
					if ci, ok := in.(ssa.CallInstruction); ok {
						if g := ci.Common().StaticCallee(); g != nil && g.Blocks != nil && !inScope[g] && unknownHelper(g, 0) {
							inScope[g] = true
							scope = append(scope, g)
						}
					}
				}
			}
		}
		var visit func(v ssa.Value, d int, via string)
		visit = func(v ssa.Value, d int, via string) {
			if v.Referrers() == nil || d > 6 {
				return
			}
			for _, r := range *v.Referrers() {
				switch x := r.(type) {
				case *ssa.Return:
					// handed back by a helper: followed at the helper's call sites
					for idx, res := range x.Results {
						if res != v {
							continue
						}
						for _, g := range scope {
							for _, b := range g.Blocks {
								for _, in := range b.Instrs {
									call, ok := in.(*ssa.Call)
									if !ok || call.Common().StaticCallee() != x.Parent() {
										continue
									}
									if len(x.Results) == 1 {
										visit(call, d+1, via)
									} else if call.Referrers() != nil {
										for _, cr := range *call.Referrers() {
											if ex, ok := cr.(*ssa.Extract); ok && ex.Index == idx {
												visit(ex, d+1, via)
											}
										}
									}
								}
							}
						}
					}
				case *ssa.IndexAddr:
					if x.Referrers() != nil {
						for _, rr := range *x.Referrers() {
							if st, ok := rr.(*ssa.Store); ok && st.Addr == ssa.Value(x) {
								bad++
								c.Bad(rule, name+"/listing-not-reordered", "an element of the storage listing is overwritten"+via+" before the listing is scanned", c.P.InstrPos(st), nil)
							}
						}
					}
				case *ssa.Slice, *ssa.ChangeType, *ssa.MakeInterface, *ssa.Phi:
					visit(x.(ssa.Value), d+1, via)
				case *ssa.Store:
					// kept in a local: follow its loads
					if al, ok := x.Addr.(*ssa.Alloc); ok && x.Val == v && al.Referrers() != nil {
						for _, ar := range *al.Referrers() {
							if ld, ok := ar.(*ssa.UnOp); ok && ld.Op == token.MUL {
								visit(ld, d+1, via)
							}
						}
					}
				case ssa.CallInstruction:
					cc := x.Common()
					callee := cc.StaticCallee()
					if callee == nil {
						continue
					}
					o := callee
					if og := callee.Origin(); og != nil {
						o = og
					}
					for i, a := range cc.Args {
						if a != v {
							continue
						}
						n++
						if i == 0 && strings.HasSuffix(o.String(), "simpleblob.BlobList).Names") {
							if cv, ok := x.(*ssa.Call); ok {
								visit(cv, d+1, via) // the names, in the listing's order
							}
							continue
						}
						if reorder[o.String()] && i == 0 {
							bad++
							c.Bad(rule, name+"/listing-not-reordered", "the storage listing is reordered in place by "+o.String()+via+": the scan that follows relies on its order (the last name of an instance is its newest snapshot)", c.P.InstrPos(x), nil)
							continue
						}
						if strings.HasPrefix(fnPkgPath(callee), modPath) && callee.Blocks != nil && i < len(callee.Params) {
							visit(callee.Params[i], d+1, " (through "+QualName(callee)+")")
						}
					}
				}
			}
		}
		for _, f := range scope {
			for _, b := range f.Blocks {
				for _, in := range b.Instrs {
					call, ok := in.(*ssa.Call)
					if !ok || !call.Call.IsInvoke() || call.Call.Method.Name() != "List" {
						continue
					}
					if call.Referrers() == nil {
						continue
					}
					for _, r := range *call.Referrers() {
						if ex, ok := r.(*ssa.Extract); ok && ex.Index == 0 {
							n++
							visit(ex, 0, "")
						}
					}
				}
			}
		}
		if bad == 0 {
			c.Ok(rule, name+"/listing-not-reordered", fmt.Sprintf("the listing returned by List is not sorted, reversed or written to (%d uses followed, also into helpers)", n), c.P.Pos(fn.Pos()))
		}
		c.Floor(rule, n, 1, "uses of the listing in "+name)
	}
}

// completedIterations: the paths that run one iteration of the loop over a
// collection to its end (they come back to the loop header, which tests the
// exhaustion of coll). at is the index of the header test on the path.
type iterPath struct {
	p  *Path
	at int
}

func completedIterations(fn *ssa.Function, paths []Path, collRe *regexp.Regexp) []iterPath {
	wk := &Walker{loops: map[*ssa.Function]*loopInfo{}}
	var out []iterPath
	for i := range paths {
		p := &paths[i]
		hdr, at := -1, -1
		for j := range p.Events {
			e := &p.Events[j]
			if e.Kind != "cond" || e.Cond == nil || !collRe.MatchString(e.Cond.Atom.String()) {
				continue
			}
			iff, ok := e.Instr.(*ssa.If)
			if !ok || iff.Block().Parent() != fn {
				continue
			}
			body, isHdr := wk.loopsOf(fn).headers[iff.Block()]
			if isHdr && body[iff.Block().Succs[e.Edge]] {
				hdr, at = iff.Block().Index, j
			}
		}
		if hdr >= 0 && p.End == fmt.Sprintf("backedge:%d", hdr) {
			out = append(out, iterPath{p, at})
		}
	}
	return out
}

// ALL-NAMES-LISTED (C11-R7, C06-R2): lmdbenv.ReadDBINames is what the mirror
// passes, the dump, the sweeper and the status pages take "the DBIs of the
// environment" from. Every key of the root database becomes a name: each
// completed iteration of its loop over the root entries adds that entry's key
// to the result (append, or a store into the result slice), with no test that
// lets an entry go by. A name that is left out (not valid UTF-8, empty value,
// a prefix) is a DBI that is silently never mirrored, dumped or swept.
func ruleAllNamesListed(c *Check, rule string) {
	name := "lmdbenv.ReadDBINames"
	coll := `lmdbenv\.ReadDBI(?:String)?@[\w~]+#0`
	collRe := regexp.MustCompile(`len\((` + coll + `)\)|next\(range\((` + coll + `)\)@[\w~]+\)@[\w~]+#0`)
	elemKey := regexp.MustCompile(`(` + coll + `)\[[^\]]*\]\.Key`)
	fn, paths := c.walkFn(rule, name, WalkConfig{})
	if paths == nil {
		return
	}
	its := completedIterations(fn, paths, collRe)
	bad := 0
	for _, it := range its {
		listed := false
		for j := it.at; j < len(it.p.Events); j++ {
			e := &it.p.Events[j]
			switch {
			case e.Kind == "call" && e.Callee == "builtin:append" && len(e.Args) == 2 && elemKey.MatchString(e.Args[1]):
				listed = true
			case e.Kind == "store" && elemKey.MatchString(e.Val):
				listed = true
			}
		}
		if !listed {
			bad++
			c.Bad(rule, name+"/all-names-listed", "an iteration over the entries of the root database ends without adding the entry's key to the names returned: that DBI is silently never mirrored, dumped or swept", c.pathPos(it.p), describe(c, it.p))
		}
	}
	nRet := 0
	for i := range paths {
		if retIsNilErr(&paths[i]) {
			nRet++
		}
	}
	if bad == 0 {
		c.Ok(rule, name+"/all-names-listed", fmt.Sprintf("%d path classes complete an iteration over the root entries, each adds the entry's key to the result; %d successful return(s)", len(its), nRet), c.P.Pos(fn.Pos()))
	}
	c.Floor(rule, len(its), 1, "completed iterations over the root entries in ReadDBINames")
}
