package main

import (
	"bytes"
	"fmt"
	"regexp"
	"strconv"
	"strings"
)

// ---------------------------------------------------------------------------
// Evaluation of canonical origin terms on a concrete binding of the leaves.
// Used by the table algebra (ALG): a decision table extracted from the code
// (paths with their conditions and outcomes) is looked up for representative
// inputs. No repository code is executed: only the extracted terms are
// interpreted.
// ---------------------------------------------------------------------------

type TVal struct {
	K string // "u" (integer), "b" (bytes), "t" (bool), "nil"
	U uint64
	B []byte
	T bool
}

func U(v uint64) TVal  { return TVal{K: "u", U: v} }
func Bv(b []byte) TVal { return TVal{K: "b", B: b} }
func Tv(t bool) TVal   { return TVal{K: "t", T: t} }

func (v TVal) String() string {
	switch v.K {
	case "u":
		return strconv.FormatUint(v.U, 10)
	case "b":
		return fmt.Sprintf("%q", v.B)
	case "t":
		return strconv.FormatBool(v.T)
	}
	return "nil"
}

type Bindings map[string]TVal

type evalErr struct{ msg string }

func (e evalErr) Error() string { return e.msg }

type termParser struct {
	s       string
	pos     int
	bind    Bindings
	keys    []string // binding keys sorted by decreasing length
	resolve func(leaf string) (TVal, bool)
}

func isDelim(c byte) bool {
	return c == ' ' || c == ')' || c == ',' || c == ']' || c == '['
}

func EvalTerm(s string, bind Bindings) (TVal, error) {
	return EvalTermR(s, bind, nil)
}

// EvalTermR evaluates with an additional resolver for leaves (e.g. results of
// append calls recorded on the path).
func EvalTermR(s string, bind Bindings, resolve func(string) (TVal, bool)) (TVal, error) {
	p := &termParser{s: s, bind: bind, resolve: resolve}
	for k := range bind {
		p.keys = append(p.keys, k)
	}
	// longest first
	for i := 0; i < len(p.keys); i++ {
		for j := i + 1; j < len(p.keys); j++ {
			if len(p.keys[j]) > len(p.keys[i]) {
				p.keys[i], p.keys[j] = p.keys[j], p.keys[i]
			}
		}
	}
	v, err := p.expr()
	if err != nil {
		return TVal{}, err
	}
	if p.pos != len(p.s) {
		return TVal{}, evalErr{fmt.Sprintf("trailing input at %d in %q", p.pos, s)}
	}
	return v, nil
}

func (p *termParser) rest() string { return p.s[p.pos:] }

func (p *termParser) expr() (TVal, error) {
	v, err := p.primary()
	if err != nil {
		return v, err
	}
	for strings.HasPrefix(p.rest(), "[") {
		p.pos++
		ix, err := p.expr()
		if err != nil {
			return ix, err
		}
		if !strings.HasPrefix(p.rest(), "]") {
			return v, evalErr{"expected ] in " + p.s}
		}
		p.pos++
		if v.K != "b" || ix.K != "u" {
			return v, evalErr{"index of non-bytes"}
		}
		if ix.U >= uint64(len(v.B)) {
			return v, evalErr{"index out of range (the extracted term would panic)"}
		}
		v = U(uint64(v.B[ix.U]))
	}
	return v, nil
}

var reIsnilParam = regexp.MustCompile(`^param:\w+\)`)

var reEndian = regexp.MustCompile(`^\(encoding/binary\.(big|little)Endian\)\.Uint(16|32|64)\(global:encoding/binary\.(Big|Little)Endian, `)

func (p *termParser) primary() (TVal, error) {
	r := p.rest()
	if strings.HasPrefix(r, "csproto.SizeOfVarint(") {
		p.pos += len("csproto.SizeOfVarint(")
		v, err := p.expr()
		if err != nil {
			return v, err
		}
		if !strings.HasPrefix(p.rest(), ")") {
			return v, evalErr{"expected ) after SizeOfVarint argument"}
		}
		p.pos++
		if v.K != "u" {
			return v, evalErr{"SizeOfVarint of non-integer"}
		}
		return U(uint64(varintSize(v.U))), nil
	}
	for _, bn := range []string{"builtin:max(", "builtin:min("} {
		if !strings.HasPrefix(r, bn) {
			continue
		}
		// max/min of integers (signed comparison: the analysed code uses int)
		p.pos += len(bn)
		var best TVal
		for i := 0; ; i++ {
			v, err := p.expr()
			if err != nil {
				return v, err
			}
			if v.K != "u" {
				return v, evalErr{"max/min of non-integer"}
			}
			if i == 0 || bn == "builtin:max(" && int64(v.U) > int64(best.U) || bn == "builtin:min(" && int64(v.U) < int64(best.U) {
				best = v
			}
			if strings.HasPrefix(p.rest(), ", ") {
				p.pos += 2
				continue
			}
			break
		}
		if !strings.HasPrefix(p.rest(), ")") {
			return best, evalErr{"expected ) after max/min arguments"}
		}
		p.pos++
		return best, nil
	}
	if m := reEndian.FindStringSubmatch(r); m != nil {
		p.pos += len(m[0])
		v, err := p.expr()
		if err != nil {
			return v, err
		}
		if !strings.HasPrefix(p.rest(), ")") {
			return v, evalErr{"expected ) after decoder argument"}
		}
		p.pos++
		n := map[string]int{"16": 2, "32": 4, "64": 8}[m[2]]
		if v.K != "b" || len(v.B) < n {
			return v, evalErr{"decoder argument too short (the extracted term would panic)"}
		}
		var u uint64
		for i := 0; i < n; i++ {
			if m[1] == "big" {
				u = u<<8 | uint64(v.B[i])
			} else {
				u |= uint64(v.B[i]) << (8 * i)
			}
		}
		return U(u), nil
	}
	// bound leaf (longest match followed by a delimiter or postfix we do not understand)
	for _, k := range p.keys {
		if strings.HasPrefix(r, k) {
			end := p.pos + len(k)
			if end == len(p.s) || isDelim(p.s[end]) {
				p.pos = end
				return p.bind[k], nil
			}
		}
	}
	switch {
	case strings.HasPrefix(r, "("):
		p.pos++
		l, err := p.expr()
		if err != nil {
			return l, err
		}
		if !strings.HasPrefix(p.rest(), " ") {
			return l, evalErr{"expected operator in " + p.s}
		}
		p.pos++
		i := strings.IndexByte(p.rest(), ' ')
		if i < 0 {
			return l, evalErr{"bad binop in " + p.s}
		}
		op := p.rest()[:i]
		p.pos += i + 1
		rv, err := p.expr()
		if err != nil {
			return rv, err
		}
		if !strings.HasPrefix(p.rest(), ")") {
			return l, evalErr{"expected ) in " + p.s}
		}
		p.pos++
		return binop(op, l, rv)
	case strings.HasPrefix(r, "!"):
		p.pos++
		v, err := p.expr()
		if err != nil {
			return v, err
		}
		if v.K != "t" {
			return v, evalErr{"! on non-bool"}
		}
		return Tv(!v.T), nil
	case strings.HasPrefix(r, "const:"):
		p.pos += len("const:")
		r = p.rest()
		if strings.HasPrefix(r, "true") {
			p.pos += 4
			return Tv(true), nil
		}
		if strings.HasPrefix(r, "false") {
			p.pos += 5
			return Tv(false), nil
		}
		if strings.HasPrefix(r, "\"") {
			// quoted string
			q, err := strconv.QuotedPrefix(r)
			if err != nil {
				return TVal{}, evalErr{"bad string const"}
			}
			p.pos += len(q)
			u, _ := strconv.Unquote(q)
			return Bv([]byte(u)), nil
		}
		j := 0
		for j < len(r) && (r[j] == '-' || (r[j] >= '0' && r[j] <= '9')) {
			j++
		}
		if j == 0 {
			return TVal{}, evalErr{"bad const in " + p.s}
		}
		p.pos += j
		if r[0] == '-' {
			n, err := strconv.ParseInt(r[:j], 10, 64)
			if err != nil {
				return TVal{}, evalErr{err.Error()}
			}
			return U(uint64(n)), nil
		}
		n, err := strconv.ParseUint(r[:j], 10, 64)
		if err != nil {
			return TVal{}, evalErr{err.Error()}
		}
		return U(n), nil
	case strings.HasPrefix(r, "nil"):
		p.pos += 3
		return TVal{K: "b", B: nil}, nil
	case strings.HasPrefix(r, "len(makeslice("), strings.HasPrefix(r, "cap(makeslice("):
		// length/capacity of a freshly made slice: its arguments (no allocation)
		p.pos += len("len(makeslice(")
		l, err := p.expr()
		if err != nil {
			return l, err
		}
		if !strings.HasPrefix(p.rest(), ",") {
			return l, evalErr{"bad makeslice term"}
		}
		p.pos++
		cp, err := p.expr()
		if err != nil {
			return cp, err
		}
		if !strings.HasPrefix(p.rest(), ")@") {
			return l, evalErr{"bad makeslice term"}
		}
		p.pos += 2
		for p.pos < len(p.s) && p.s[p.pos] != ')' {
			p.pos++
		}
		p.pos++
		if r[0] == 'c' {
			return cp, nil
		}
		return l, nil
	case strings.HasPrefix(r, "len("), strings.HasPrefix(r, "cap("):
		p.pos += 4
		v, err := p.expr()
		if err != nil {
			return v, err
		}
		if !strings.HasPrefix(p.rest(), ")") {
			return v, evalErr{"expected ) after len arg"}
		}
		p.pos++
		if v.K != "b" {
			return v, evalErr{"len of non-bytes"}
		}
		if r[0] == 'c' {
			return v, evalErr{"cap() must be bound explicitly"}
		}
		return U(uint64(len(v.B))), nil
	case strings.HasPrefix(r, "isnil("):
		p.pos += 6
		if m := reIsnilParam.FindString(p.rest()); m != "" {
			// a nil check of an argument itself: the tables are evaluated for valid
			// calls, whose arguments are not nil (unless the rule binds the term)
			if _, bound := p.bind[m[:len(m)-1]]; !bound {
				p.pos += len(m)
				return Tv(false), nil
			}
		}
		v, err := p.expr()
		if err != nil {
			return v, err
		}
		if !strings.HasPrefix(p.rest(), ")") {
			return v, evalErr{"expected ) after isnil arg"}
		}
		p.pos++
		if v.K == "b" {
			return Tv(v.B == nil), nil
		}
		if v.K == "nil" {
			return Tv(true), nil
		}
		return v, evalErr{"isnil of non-reference"}
	case strings.HasPrefix(r, "conv:"):
		i := strings.IndexByte(r, '(')
		if i < 0 {
			return TVal{}, evalErr{"bad conv"}
		}
		typ := r[len("conv:"):i]
		p.pos += i + 1
		v, err := p.expr()
		if err != nil {
			return v, err
		}
		if !strings.HasPrefix(p.rest(), ")") {
			return v, evalErr{"expected ) after conv arg"}
		}
		p.pos++
		if v.K != "u" {
			return v, evalErr{"conv of non-integer"}
		}
		switch typ {
		case "uint8", "byte":
			return U(v.U & 0xff), nil
		case "uint16":
			return U(v.U & 0xffff), nil
		case "uint32":
			return U(v.U & 0xffffffff), nil
		case "int8":
			return U(uint64(int64(int8(v.U)))), nil
		case "int16":
			return U(uint64(int64(int16(v.U)))), nil
		case "int32":
			return U(uint64(int64(int32(v.U)))), nil
		case "uint64", "int64", "int", "uint", "uintptr":
			return v, nil
		}
		return v, evalErr{"unsupported conversion " + typ}
	}
	if strings.HasPrefix(r, "slice(") {
		p.pos += len("slice(")
		x, err := p.expr()
		if err != nil {
			return x, err
		}
		var parts [3]*TVal
		for i := 0; i < 3; i++ {
			if !strings.HasPrefix(p.rest(), ",") {
				return x, evalErr{"bad slice term"}
			}
			p.pos++
			if strings.HasPrefix(p.rest(), ",") || strings.HasPrefix(p.rest(), ")") {
				continue
			}
			v, err := p.expr()
			if err != nil {
				return v, err
			}
			parts[i] = &v
		}
		if !strings.HasPrefix(p.rest(), ")") {
			return x, evalErr{"expected ) after slice"}
		}
		p.pos++
		if x.K != "b" {
			return x, evalErr{"slice of non-bytes"}
		}
		lo, hi := uint64(0), uint64(len(x.B))
		if parts[0] != nil {
			lo = parts[0].U
		}
		if parts[1] != nil {
			hi = parts[1].U
		}
		if lo > hi || hi > uint64(len(x.B)) {
			return x, evalErr{"slice bounds out of range (the extracted term would panic)"}
		}
		return Bv(x.B[lo:hi]), nil
	}
	if strings.HasPrefix(r, "[") {
		p.pos++
		var out []byte
		for {
			v, err := p.expr()
			if err != nil {
				return v, err
			}
			if v.K != "u" {
				return v, evalErr{"list of non-integers"}
			}
			out = append(out, byte(v.U))
			if strings.HasPrefix(p.rest(), ", ") {
				p.pos += 2
				continue
			}
			break
		}
		if !strings.HasPrefix(p.rest(), "]") {
			return TVal{}, evalErr{"expected ] after list"}
		}
		p.pos++
		return Bv(out), nil
	}
	if p.resolve != nil {
		// scan a leaf token up to a delimiter at depth 0
		depth, j := 0, 0
		for j < len(r) {
			c := r[j]
			if c == '(' || c == '{' {
				depth++
			} else if c == ')' || c == '}' {
				if depth == 0 {
					break
				}
				depth--
			} else if depth == 0 && isDelim(c) {
				break
			}
			j++
		}
		if j > 0 {
			if v, ok := p.resolve(r[:j]); ok {
				p.pos += j
				return v, nil
			}
		}
	}
	n := len(r)
	if n > 60 {
		n = 60
	}
	return TVal{}, evalErr{"unbound term: " + r[:n]}
}

func binop(op string, l, r TVal) (TVal, error) {
	if l.K == "t" && r.K == "t" {
		switch op {
		case "==":
			return Tv(l.T == r.T), nil
		case "!=":
			return Tv(l.T != r.T), nil
		case "&&":
			return Tv(l.T && r.T), nil
		case "||":
			return Tv(l.T || r.T), nil
		}
	}
	if l.K == "b" && r.K == "b" {
		c := bytes.Compare(l.B, r.B)
		switch op {
		case "==":
			return Tv(c == 0), nil
		case "!=":
			return Tv(c != 0), nil
		case "<":
			return Tv(c < 0), nil
		case "+":
			return Bv(append(append([]byte{}, l.B...), r.B...)), nil
		}
	}
	if l.K != "u" || r.K != "u" {
		return TVal{}, evalErr{fmt.Sprintf("operator %s on %s,%s", op, l.K, r.K)}
	}
	a, b := l.U, r.U
	switch op {
	case "+":
		return U(a + b), nil
	case "-":
		return U(a - b), nil
	case "*":
		return U(a * b), nil
	case "/":
		if b == 0 {
			return TVal{}, evalErr{"division by zero"}
		}
		return U(a / b), nil
	case "&":
		return U(a & b), nil
	case "|":
		return U(a | b), nil
	case "^":
		return U(a ^ b), nil
	case "&^":
		return U(a &^ b), nil
	case "<<":
		return U(a << b), nil
	case ">>":
		return U(a >> b), nil
	case "==":
		return Tv(a == b), nil
	case "!=":
		return Tv(a != b), nil
	case "<":
		return Tv(a < b), nil
	case "<=":
		return Tv(a <= b), nil
	case ">":
		return Tv(a > b), nil
	case ">=":
		return Tv(a >= b), nil
	}
	return TVal{}, evalErr{"unsupported operator " + op}
}

// EvalCond evaluates a path condition on concrete bindings.
func EvalCond(c Cond, bind Bindings) (bool, error) {
	a := c.Atom
	if a.Kind == "bool" {
		v, err := EvalTerm(a.A, bind)
		if err != nil {
			return false, err
		}
		if v.K != "t" {
			return false, evalErr{"condition is not boolean: " + a.A}
		}
		return v.T == c.Truth, nil
	}
	l, err := EvalTerm(a.A, bind)
	if err != nil {
		return false, err
	}
	r, err := EvalTerm(a.B, bind)
	if err != nil {
		return false, err
	}
	var rel Rel
	switch {
	case l.K == "b" && r.K == "b":
		switch c := bytes.Compare(l.B, r.B); {
		case c < 0:
			rel = LT
		case c > 0:
			rel = GT
		default:
			rel = EQ
		}
	case l.K == "u" && r.K == "u":
		switch {
		case l.U < r.U:
			rel = LT
		case l.U > r.U:
			rel = GT
		default:
			rel = EQ
		}
	case l.K == "t" && r.K == "t":
		switch {
		case l.T == r.T:
			rel = EQ
		case !l.T && r.T:
			rel = LT
		default:
			rel = GT
		}
	default:
		return false, evalErr{"comparison of " + l.K + " and " + r.K + " in " + c.String()}
	}
	return (a.R&rel != 0) == c.Truth, nil
}

// SelectPaths returns the indices of the paths whose conditions all hold for
// the bindings. An evaluation error means the table uses a quantity the rule
// has no role for (abstraction not adequate): undecided.
func SelectPaths(paths []Path, bind Bindings) ([]int, error) {
	var out []int
	for i := range paths {
		ok := true
		for _, e := range paths[i].Events {
			if e.Kind != "cond" {
				continue
			}
			h, err := EvalCond(*e.Cond, bind)
			if err != nil {
				return nil, fmt.Errorf("path %d: %w", i, err)
			}
			if !h {
				ok = false
				break
			}
		}
		if ok {
			out = append(out, i)
		}
	}
	return out, nil
}

// EvalFloat evaluates an arithmetic origin term over float64 leaves.
func EvalFloat(s string, bind map[string]float64) (float64, error) {
	p := &fparser{s: s, bind: bind}
	v, err := p.expr()
	if err != nil {
		return 0, err
	}
	if p.pos != len(s) {
		return 0, evalErr{"trailing input in " + s}
	}
	return v, nil
}

type fparser struct {
	s    string
	pos  int
	bind map[string]float64
}

func (p *fparser) expr() (float64, error) {
	r := p.s[p.pos:]
	best := ""
	for k := range p.bind {
		if strings.HasPrefix(r, k) && len(k) > len(best) {
			end := p.pos + len(k)
			if end == len(p.s) || isDelim(p.s[end]) {
				best = k
			}
		}
	}
	if best != "" {
		p.pos += len(best)
		return p.bind[best], nil
	}
	switch {
	case strings.HasPrefix(r, "("):
		p.pos++
		l, err := p.expr()
		if err != nil {
			return 0, err
		}
		p.pos++
		i := strings.IndexByte(p.s[p.pos:], ' ')
		if i < 0 {
			return 0, evalErr{"bad binop"}
		}
		op := p.s[p.pos : p.pos+i]
		p.pos += i + 1
		rv, err := p.expr()
		if err != nil {
			return 0, err
		}
		if !strings.HasPrefix(p.s[p.pos:], ")") {
			return 0, evalErr{"expected )"}
		}
		p.pos++
		switch op {
		case "+":
			return l + rv, nil
		case "-":
			return l - rv, nil
		case "*":
			return l * rv, nil
		case "/":
			return l / rv, nil
		}
		return 0, evalErr{"unsupported operator " + op}
	case strings.HasPrefix(r, "conv:"):
		i := strings.IndexByte(r, '(')
		typ := r[len("conv:"):i]
		p.pos += i + 1
		v, err := p.expr()
		if err != nil {
			return 0, err
		}
		p.pos++
		switch typ {
		case "int64", "int", "uint64":
			return float64(int64(v)), nil
		case "float32":
			return float64(float32(v)), nil
		case "float64":
			return v, nil
		}
		return 0, evalErr{"unsupported conversion " + typ}
	case strings.HasPrefix(r, "const:"):
		p.pos += len("const:")
		j := p.pos
		for j < len(p.s) && !isDelim(p.s[j]) {
			j++
		}
		v, err := strconv.ParseFloat(p.s[p.pos:j], 64)
		if err != nil {
			return 0, evalErr{err.Error()}
		}
		p.pos = j
		return v, nil
	}
	n := len(r)
	if n > 50 {
		n = 50
	}
	return 0, evalErr{"unbound term " + r[:n]}
}

func varintSize(v uint64) int {
	n := 1
	for v >= 0x80 {
		v >>= 7
		n++
	}
	return n
}
