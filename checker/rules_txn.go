package main

import (
	"fmt"
	"go/token"
	"go/types"
	"strings"

	"golang.org/x/tools/go/ssa"
)

// Rules on LoadOnce / SendOnce and their transaction closures.

const (
	fnLoadOnce  = "syncer.(*Syncer).LoadOnce"
	fnLoadTxn   = "syncer.(*Syncer).LoadOnce$update"
	fnSendOnce  = "syncer.(*Syncer).SendOnce"
	fnSendTxn   = "syncer.(*Syncer).SendOnce$txn"
	fnReadDBI   = "syncer.(*Syncer).readDBI"
	fnMainToSh  = "syncer.(*Syncer).mainToShadow"
	fnShToMain  = "syncer.(*Syncer).shadowToMain"
	fnStratUpd  = "lmdbenv/strategy.Update"
	fnIterUpd   = "lmdbenv/strategy.IterUpdate"
	fnEmptyPut  = "lmdbenv/strategy.EmptyPut"
	fnNewNative = "syncer.NewNativeIterator"
)

// closureBinding returns the canonical origin (in the parent) of a closure's free variable.
func closureBinding(parent, closure *ssa.Function, name string) string {
	if holderAllocOf(parent, closure, name) != nil {
		return "alloc:" + name
	}
	if ei := envMethods[closure]; ei != nil {
		// method form: the receiver is bound to the parent's struct variable by
		// reference (pointer receiver) and the field is that variable's field
		bnd := envBinding(parent, closure)
		if bnd == nil || !ei.ptrRecv {
			return ""
		}
		if a, ok := bnd.(*ssa.Alloc); ok && envStructPtr(a.Type()) != nil {
			return "alloc:" + name
		}
		return bnd.Name()
	}
	for _, b := range parent.Blocks {
		for _, in := range b.Instrs {
			mc, ok := in.(*ssa.MakeClosure)
			if !ok || mc.Fn != closure {
				continue
			}
			for i, fv := range closure.FreeVars {
				if fv.Name() != name || i >= len(mc.Bindings) {
					continue
				}
				if a, ok := mc.Bindings[i].(*ssa.Alloc); ok {
					// a spilled parameter: first store is the parameter
					if rs := a.Referrers(); rs != nil {
						for _, r := range *rs {
							if st, ok := r.(*ssa.Store); ok && st.Addr == a {
								if p, ok := st.Val.(*ssa.Parameter); ok {
									return "param:" + p.Name()
								}
							}
						}
					}
					return "alloc:" + a.Comment
				}
				return mc.Bindings[i].Name()
			}
		}
	}
	return ""
}

// closureFreeInit returns the values stored, in the parent, into the local a
// closure's free variable is bound to (name-independent identification of
// captured variables by what they are initialised with).
func closureFreeInit(parent, closure *ssa.Function, freeName string) []ssa.Value {
	var out []ssa.Value
	if a := holderAllocOf(parent, closure, freeName); a != nil {
		return structFieldInit(a, freeName)
	}
	if envMethods[closure] != nil {
		bnd := envBinding(parent, closure)
		if bnd == nil {
			return nil
		}
		return structFieldInit(bnd, freeName)
	}
	for _, b := range parent.Blocks {
		for _, in := range b.Instrs {
			mc, ok := in.(*ssa.MakeClosure)
			if !ok || mc.Fn != closure {
				continue
			}
			for i, fv := range closure.FreeVars {
				if fv.Name() != freeName || i >= len(mc.Bindings) {
					continue
				}
				a, ok := mc.Bindings[i].(*ssa.Alloc)
				if !ok {
					out = append(out, mc.Bindings[i])
					continue
				}
				if rs := a.Referrers(); rs != nil {
					for _, r := range *rs {
						if st, ok := r.(*ssa.Store); ok && st.Addr == ssa.Value(a) {
							out = append(out, st.Val)
						}
					}
				}
			}
		}
	}
	return out
}

// findMakeClosure: the MakeClosure of the function with this qualified name in
// fn or in a helper extracted from it.
func findMakeClosure(fn *ssa.Function, qual string) *ssa.MakeClosure {
	var find func(f *ssa.Function, d int) *ssa.MakeClosure
	find = func(f *ssa.Function, d int) *ssa.MakeClosure {
		for _, b := range f.Blocks {
			for _, in := range b.Instrs {
				if mc, ok := in.(*ssa.MakeClosure); ok {
					if cf, ok := mc.Fn.(*ssa.Function); ok && calleeName(cf) == qual {
						return mc
					}
				}
				if call, ok := in.(ssa.CallInstruction); ok && d < 3 {
					if sc := call.Common().StaticCallee(); sc != nil && unknownHelper(sc, d+1) {
						if r := find(sc, d+1); r != nil {
							return r
						}
					}
				}
			}
		}
		return nil
	}
	return find(fn, 0)
}

// envBinding: the receiver value parent binds to the method that stands for a
// closure: the binding of the method value, or the receiver argument of a
// direct `defer x.m()` / `go x.m()`.
func envBinding(parent, m *ssa.Function) ssa.Value {
	if mc := envMakeClosure(parent, m); mc != nil && len(mc.Bindings) == 1 {
		return mc.Bindings[0]
	}
	if parent == nil {
		if ei := envMethods[m]; ei != nil {
			parent = ei.parent
		}
	}
	if parent == nil {
		return nil
	}
	for _, b := range parent.Blocks {
		for _, in := range b.Instrs {
			switch x := in.(type) {
			case *ssa.Defer:
				if x.Call.StaticCallee() == m && len(x.Call.Args) > 0 {
					return x.Call.Args[0]
				}
			case *ssa.Go:
				if x.Call.StaticCallee() == m && len(x.Call.Args) > 0 {
					return x.Call.Args[0]
				}
			}
		}
	}
	return nil
}

// envMakeClosure: where parent binds the method that stands for a closure.
func envMakeClosure(parent, m *ssa.Function) *ssa.MakeClosure {
	if parent == nil {
		if ei := envMethods[m]; ei != nil {
			parent = ei.parent
		}
	}
	if parent == nil {
		return nil
	}
	for _, b := range parent.Blocks {
		for _, in := range b.Instrs {
			mc, ok := in.(*ssa.MakeClosure)
			if !ok {
				continue
			}
			f, _ := mc.Fn.(*ssa.Function)
			if f == nil || !strings.HasSuffix(f.Name(), "$bound") {
				continue
			}
			if obj, ok := f.Object().(*types.Func); ok && parent.Prog.FuncValue(obj) == m {
				return mc
			}
		}
	}
	return nil
}

// structFieldInit: the values stored into the named field of the struct value
// (or pointer to a fresh struct) v, built by a composite literal.
func structFieldInit(v ssa.Value, field string) []ssa.Value {
	if ld, ok := v.(*ssa.UnOp); ok && ld.Op == token.MUL {
		v = ld.X
	}
	al, ok := v.(*ssa.Alloc)
	if !ok || al.Referrers() == nil {
		return nil
	}
	var out []ssa.Value
	for _, r := range *al.Referrers() {
		// the variable assigned from a composite literal built in a temporary
		if st, ok := r.(*ssa.Store); ok && st.Addr == ssa.Value(al) {
			if ld, ok := st.Val.(*ssa.UnOp); ok && ld.Op == token.MUL {
				if tmp, ok := ld.X.(*ssa.Alloc); ok && tmp != al {
					out = append(out, structFieldInit(tmp, field)...)
				}
			}
			continue
		}
		fa, ok := r.(*ssa.FieldAddr)
		if !ok || fa.Referrers() == nil {
			continue
		}
		st, ok := fa.X.Type().Underlying().(*types.Pointer).Elem().Underlying().(*types.Struct)
		if !ok || st.Field(fa.Field).Name() != field {
			continue
		}
		for _, fr := range *fa.Referrers() {
			if s, ok := fr.(*ssa.Store); ok && s.Addr == ssa.Value(fa) {
				out = append(out, s.Val)
			}
		}
	}
	return out
}

// freeVarsWhere lists the closure's free variables whose parent-side initial
// values satisfy pred.
func freeVarsWhere(parent, closure *ssa.Function, pred func(v ssa.Value) bool) []string {
	var out []string
	if ei := envMethods[closure]; ei != nil {
		for i := 0; i < ei.st.NumFields(); i++ {
			for _, v := range closureFreeInit(parent, closure, ei.st.Field(i).Name()) {
				if pred(v) {
					out = append(out, ei.st.Field(i).Name())
					break
				}
			}
		}
		return out
	}
	for _, fv := range closure.FreeVars {
		for _, v := range closureFreeInit(parent, closure, fv.Name()) {
			if pred(v) {
				out = append(out, fv.Name())
				break
			}
		}
	}
	return out
}

// renderAddr renders a simple access path (parameter, field chain, loads).
func renderAddr(v ssa.Value) string {
	switch x := v.(type) {
	case *ssa.Parameter:
		return x.Name()
	case *ssa.FreeVar:
		return "free:" + x.Name()
	case *ssa.Global:
		return "global:" + x.Name()
	case *ssa.UnOp:
		return renderAddr(x.X)
	case *ssa.FieldAddr:
		return renderAddr(x.X) + "." + fieldName(x.X.Type(), x.Field)
	case *ssa.Field:
		return renderAddr(x.X) + "." + fieldName(x.X.Type(), x.Field)
	case *ssa.Alloc:
		// a spilled parameter
		if rs := x.Referrers(); rs != nil {
			for _, r := range *rs {
				if st, ok := r.(*ssa.Store); ok && st.Addr == ssa.Value(x) {
					if p, ok := st.Val.(*ssa.Parameter); ok {
						return p.Name()
					}
				}
			}
		}
		return "local:" + x.Comment
	case *ssa.Call:
		if callee := x.Common().StaticCallee(); callee != nil {
			return "call:" + calleeName(callee)
		}
	}
	return v.Name()
}

// C03-R1 CAPTURE-BEFORE-PROJECT.
func ruleCaptureBeforeProject(c *Check, rule string) {
	fn, paths := c.walkFn(rule, fnLoadTxn, WalkConfig{})
	if paths == nil {
		return
	}
	parent := c.P.Func(fnLoadOnce)
	pos := c.P.Pos(fn.Pos())
	txn := param(fn, 0)
	n, bad := 0, 0
	roles := loadRoles(c)
	if !roles.ok {
		c.Undecided(rule, fnLoadTxn+"/captured", "cannot identify the captured watermark and mode flag of the transaction body", pos)
		return
	}
	var lcAtom *Atom
	for i := range paths {
		p := &paths[i]
		for _, s2m := range callsOf(p, fnShToMain) {
			n++
			idx := eventIndex(p, s2m)
			captured := false
			for _, m := range callsOf(p, fnMainToSh) {
				if eventIndex(p, m) < idx && len(m.Args) == 4 && m.Args[2] == txn && s2m.Args[2] == txn {
					captured = true
				}
			}
			// localChanged == false ?
			unchanged := false
			for _, cd := range p.Conds() {
				a := cd.Atom
				if a.Kind == "cmp" && a.A == roles.lastTxnID && strings.HasSuffix(a.B, " - const:1)") && strings.HasPrefix(a.B, "((*lmdb.Txn).ID@") {
					aa := a
					lcAtom = &aa
					if p.State.RelOf("int", a.A, a.B)&LT == 0 {
						unchanged = true
					}
				}
			}
			if !captured && !unchanged {
				bad++
				c.Bad(rule, fnLoadTxn+"/capture-before-project", "shadowToMain (which rewrites the application DBIs from the shadow state) is reached on a path where local changes may exist (lastTxnID < txn.ID()-1 not excluded) and mainToShadow was not run first in the same transaction", evPos(c, s2m), describe(c, p))
			}
		}
	}
	// the projection is unconditional in shadow mode: a successful end of the
	// transaction body without shadowToMain leaves the merged data in the shadow
	// DBIs only (the application never sees it, and the transaction commits)
	nProj := 0
	for i := range paths {
		p := &paths[i]
		if p.End != "return" || !retIsNilErr(p) {
			continue
		}
		native, f := boolCond(p, roles.native, -1)
		if f && native {
			continue
		}
		nProj++
		if len(callsOf(p, fnShToMain)) == 0 {
			bad++
			c.Bad(rule, fnLoadTxn+"/project-unconditional", "shadow mode: the transaction body ends successfully without running shadowToMain: what was merged into the shadow DBIs is not projected into the application's DBIs although the load is reported as done", c.pathPos(p), describe(c, p))
		}
	}
	c.Floor(rule, nProj, 1, "successful shadow-mode ends of the load body")
	if bad == 0 {
		c.Ok(rule, fnLoadTxn+"/capture-before-project", fmt.Sprintf("all %d paths reaching shadowToMain either ran mainToShadow on the same txn before, or took the edge localChanged == false; every successful shadow-mode end ran shadowToMain", n), pos)
	}
	c.Floor(rule, n, 2, "paths reaching shadowToMain")
	// localChanged ≡ lastTxnID < txn.ID() - 1, with lastTxnID the parameter of LoadOnce
	if lcAtom == nil {
		c.Undecided(rule, fnLoadTxn+"/localChanged-definition", "the local-change test lastTxnID < txn.ID()-1 was not found in the conditions guarding the capture", pos)
	} else {
		b := closureBinding(parent, fn, strings.TrimPrefix(roles.lastTxnID, "*free:"))
		want := ""
		if parent != nil && len(parent.Params) >= 6 {
			want = "param:" + parent.Params[5].Name()
		}
		c.Expect(b == want && want != "", rule, fnLoadTxn+"/localChanged-definition",
			"localChanged is computed as lastTxnID < txn.ID() - 1 with lastTxnID the caller's watermark parameter and txn.ID() of this write transaction",
			fmt.Sprintf("lastTxnID in the local-change test is bound to %q, expected LoadOnce's lastTxnID parameter %q", b, want), pos)
	}
	// the capture is guarded exactly by !schemaTracksChanges ∧ localChanged and stamps the detection time taken in the txn
	nm := 0
	for i := range paths {
		p := &paths[i]
		for _, m := range callsOf(p, fnMainToSh) {
			nm++
			if !strings.HasPrefix(m.Args[3], "lmdbenv/header.TimestampFromTime(time.Now@") {
				c.Bad(rule, fnLoadTxn+"/capture-time", "mainToShadow is not stamped with a time taken inside the write transaction: "+m.Args[3], evPos(c, m), nil)
			}
		}
	}
	c.Floor(rule, nm, 1, "mainToShadow calls in LoadOnce body")
}

// C03-R2 WATERMARK-ATOMIC (reports F9).
func ruleWatermarkAtomic(c *Check, rule string) {
	for _, name := range []string{fnLoadOnce, fnSendOnce} {
		fn, paths := c.walkFn(rule, name, WalkConfig{Memo: true,
			KeepEvent: func(e *Event) bool {
				return e.Kind == "ret" || e.Kind == "call" && (strings.Contains(e.Callee, "lmdb.Env") || strings.Contains(e.Callee, "$bound"))
			},
			KeepAtom: func(a Atom) bool {
				return strings.Contains(a.String(), "Info@") || strings.Contains(a.String(), "isnil((*lmdb.Env)")
			},
		})
		if paths == nil {
			continue
		}
		found := false
		var at *Path
		for i := range paths {
			p := &paths[i]
			if p.End != "return" || !retIsNilErr(p) {
				continue
			}
			if strings.Contains(p.Rets[0], "(*lmdb.Env).Info@") {
				// Info called after the transaction ended?
				var txnIdx, infoIdx = -1, -1
				for j, e := range p.Events {
					if e.Kind == "call" && (strings.HasSuffix(e.Callee, ".Update") || strings.HasSuffix(e.Callee, "$bound")) && txnIdx < 0 {
						txnIdx = j
					}
					if e.Kind == "call" && e.Callee == "(*lmdb.Env).Info" {
						infoIdx = j
					}
				}
				if txnIdx >= 0 && infoIdx > txnIdx {
					found = true
					at = p
				}
			}
		}
		short := strings.TrimPrefix(name, "syncer.(*Syncer).")
		if found {
			c.Bad(rule, name+"/txnid-from-Info-after-txn", short+" returns, as the transaction id it considers synced, a value read from env.Info() after its own LMDB transaction has ended (check-then-act across the release of the write lock: an application commit in between reuses the id of an empty transaction)", c.pathPos(at), describe(c, at))
		} else {
			c.Ok(rule, name+"/txnid-from-Info-after-txn", short+" never returns a transaction id read from env.Info() after its transaction ended", c.P.Pos(fn.Pos()))
		}
	}
}

// C03-R4 NATIVE-WRITES-ONLY-BY-MERGE.
func ruleNativeWrites(c *Check, rule string) {
	fn, paths := c.walkFn(rule, fnLoadTxn, WalkConfig{})
	if paths == nil {
		return
	}
	forbidden := []string{fnMainToSh, fnShToMain, fnIterUpd, fnEmptyPut, "(*lmdb.Txn).Drop", "(*lmdb.Txn).Put", "(*lmdb.Txn).Del", "(*lmdb.Cursor).Put", "(*lmdb.Cursor).Del"}
	n, bad := 0, 0
	for i := range paths {
		p := &paths[i]
		st, f := boolCond(p, loadRoles(c).native, -1)
		if !f || !st {
			continue
		}
		n++
		for _, e := range callsOf(p, forbidden...) {
			bad++
			c.Bad(rule, fnLoadTxn+"/native-mutators", "with schema_tracks_changes (native mode) the load transaction calls "+e.Callee+": application data may only be written through the merge decision (strategy.Update)", evPos(c, e), describe(c, p))
		}
	}
	if bad == 0 {
		c.Ok(rule, fnLoadTxn+"/native-mutators", fmt.Sprintf("%d native-mode paths of the load transaction: the only mutating callees are strategy.Update and OpenDBI(Create); no mirror pass, IterUpdate, EmptyPut, Drop or direct Put/Del", n), c.P.Pos(fn.Pos()))
	}
	c.Floor(rule, n, 3, "native-mode paths of LoadOnce body")
	// SendOnce: read-only transaction exactly in native mode
	sfn, sp := c.walkFn(rule, fnSendOnce, WalkConfig{Memo: true,
		KeepEvent: func(e *Event) bool {
			return e.Kind == "ret" || e.Kind == "call" && strings.Contains(e.Callee, "$bound")
		},
		KeepAtom: func(a Atom) bool { return strings.Contains(a.String(), "SchemaTracksChanges") }})
	if sp == nil {
		return
	}
	ns, bads := 0, 0
	for i := range sp {
		p := &sp[i]
		st, f := condTruth(p, "SchemaTracksChanges", -1)
		for _, e := range p.Calls(func(s string) bool { return strings.HasSuffix(s, "$bound") }) {
			ns++
			want := "(*lmdb.Env).Update$bound"
			if f && st {
				want = "(*lmdb.Env).View$bound"
			}
			if !f || e.Callee != want {
				bads++
				c.Bad(rule, fnSendOnce+"/txn-kind", fmt.Sprintf("SendOnce runs its dump in %s; expected %s (read-only view exactly when the schema tracks changes)", e.Callee, want), evPos(c, e), nil)
			}
		}
	}
	if bads == 0 {
		c.Ok(rule, fnSendOnce+"/txn-kind", fmt.Sprintf("%d paths: the dump runs in env.View when the schema tracks changes and in env.Update otherwise", ns), c.P.Pos(sfn.Pos()))
	}
	c.Floor(rule, ns, 2, "transaction runner calls in SendOnce")
}

// sendPaths walks SendOnce with the events relevant to the store rules.
func sendPaths(c *Check, rule string) (*ssa.Function, []Path) {
	return c.walkFn(rule, fnSendOnce, WalkConfig{Memo: true,
		KeepEvent: func(e *Event) bool {
			if e.Kind == "ret" {
				return true
			}
			if e.Kind != "call" {
				return false
			}
			for _, s := range []string{"Interface.Store", "SetCommitted", "$bound", "SleepContext", "(*lmdb.Env).Info", "DumpData", "BuildName", "dyn:"} {
				if strings.Contains(e.Callee, s) {
					return true
				}
			}
			return false
		},
		KeepAtom: func(a Atom) bool {
			s := a.String()
			for _, k := range []string{"Interface.Store@", "ReceiveOnly", "loop:", "StorageRetry", "SleepContext@", "DumpData@", "$bound@", "Info@", "dyn:"} {
				if strings.Contains(s, k) {
					return true
				}
			}
			return false
		}})
}

// C05-R4 STORE-OR-FAIL, C05-R5 COMMITTED-AFTER-STORE, C12-R7 (Store under !ReceiveOnly).
func ruleStoreOrFail(c *Check, ruleStore, ruleCommitted, ruleRO string) {
	fn, paths := sendPaths(c, ruleStore)
	if paths == nil {
		return
	}
	pos := c.P.Pos(fn.Pos())
	storeName := "iface:simpleblob.Interface.Store"
	nOK, nRO, nExh, bad := 0, 0, 0, 0
	nStore, badRO := 0, 0
	nCommit, badCommit := 0, 0
	// the loop-carried error variable(s): what the exit paths test as isnil(loop:<name>@..)
	loopErrNames := map[string]bool{}
	nCarried := 0
	for i := range paths {
		for _, cd := range paths[i].Conds() {
			if a := cd.Atom.A; cd.Atom.Kind == "bool" && strings.HasPrefix(a, "isnil(loop:") {
				nm := strings.TrimPrefix(a, "isnil(loop:")
				if at := strings.Index(nm, "@"); at > 0 {
					loopErrNames[nm[:at]] = true
				}
			}
		}
	}
	for i := range paths {
		p := &paths[i]
		stores := callsOf(p, storeName)
		for _, s := range stores {
			nStore++
			ro, f := condTruth(p, "ReceiveOnly", eventIndex(p, s))
			if !f || ro {
				badRO++
				c.Bad(ruleRO, fnSendOnce+"/store-under-receive-only", "Store is reached on a path that has not established !ReceiveOnly", evPos(c, s), describe(c, p))
			}
		}
		succeeded := false
		for _, s := range stores {
			if tr, f := boolCond(p, "isnil("+s.Res+")", -1); f && tr {
				succeeded = true
			}
		}
		for _, sc := range callsOf(p, "syncer/cleaner.(*Worker).SetCommitted") {
			nCommit++
			if le, lf := condTruth(p, "isnil(loop:", -1); lf && le && len(stores) == 0 {
				continue // zero-iteration exit of the retry loop, excluded by Config.Check (checked under the store-or-fail rule)
			}
			if !succeeded || len(sc.Args) != 2 || !strings.HasSuffix(sc.Args[1], ".lastByInstance") {
				badCommit++
				c.Bad(ruleCommitted, fnSendOnce+"/committed-after-store", "cleaner.SetCommitted is called on a path without a successful Store (or not with the syncer's lastByInstance map): the cleaner would consider snapshots merged-and-republished that are in no uploaded snapshot", evPos(c, sc), describe(c, p))
			}
		}
		if strings.HasPrefix(p.End, "backedge:") {
			// the error tested after the loop ("giving up") is, on every retry,
			// the failure of this round's Store: otherwise the loop can run out
			// of retries with a nil error and SendOnce reports success
			if len(stores) >= 1 {
				carried := append([]string{}, p.Rets...)
				for nm := range loopErrNames {
					// a variable kept in memory (a named result spilled by a defer)
					if backedgeVal(p, nm) != "" {
						continue
					}
					for k, v := range p.Store {
						if k == "&alloc:"+nm || strings.HasPrefix(k, "&alloc:"+nm+".t") && !strings.Contains(k[len("&alloc:"+nm)+1:], ".") {
							carried = append(carried, nm+"="+v)
						}
					}
				}
				for _, r := range carried {
					eq := strings.Index(r, "=")
					if eq <= 0 {
						continue
					}
					name, val := r[:eq], r[eq+1:]
					if !loopErrNames[name] {
						continue
					}
					nCarried++
					if isNil, f := boolCond(p, "isnil("+val+")", -1); !(f && !isNil) {
						bad++
						c.Bad(ruleStore, fnSendOnce+"/retry-carries-error", "a retry of the store loop carries "+val+" as the error that is tested after the loop, which is not known to be the (non-nil) Store failure: when the retries are used up SendOnce reports success without having stored anything (the watermark advances and the cleaner is told the merged snapshots were re-published)", c.pathPos(p), describe(c, p))
					}
				}
			}
			// retry: only after a failed Store, and through a cancellable sleep
			if len(stores) == 1 {
				tr, f := boolCond(p, "isnil("+stores[0].Res+")", -1)
				if !f || tr || len(callsOf(p, "utils.SleepContext")) == 0 {
					bad++
					c.Bad(ruleStore, fnSendOnce+"/retry-shape", "the store loop repeats on a path where the Store did not fail, or without the cancellable retry sleep", c.pathPos(p), describe(c, p))
				}
			}
			continue
		}
		if p.End != "return" || !retIsNilErr(p) {
			continue
		}
		ro, f := condTruth(p, "ReceiveOnly", -1)
		switch {
		case f && ro:
			nRO++
		case succeeded:
			nOK++
		default:
			// loop left by its condition: only legal continuation is err != nil
			le, lf := condTruth(p, "isnil(loop:", -1)
			if lf && le {
				nExh++ // zero-iteration exit with err == nil: excluded by Config.Check (retry count >= 1), checked below
				continue
			}
			bad++
			c.Bad(ruleStore, fnSendOnce+"/store-or-fail", "SendOnce returns success on a path that neither stored the snapshot successfully nor is the receive-only exit", c.pathPos(p), describe(c, p))
		}
	}
	if bad == 0 {
		c.Ok(ruleStore, fnSendOnce+"/store-or-fail", fmt.Sprintf("nil-error returns: %d after a successful Store, %d receive-only exits, %d via the zero-iteration exit of the retry loop (excluded by configuration validation, see below); the loop repeats only after a failed Store and a cancellable sleep", nOK, nRO, nExh), pos)
	}
	c.Floor(ruleStore, nOK, 1, "successful-store return paths")
	c.Floor(ruleStore, nCarried, 1, "retries carrying the loop's error variable")
	if badRO == 0 {
		c.Ok(ruleRO, fnSendOnce+"/store-under-receive-only", fmt.Sprintf("all %d paths reaching Store pass the false edge of ReceiveOnly", nStore), pos)
	}
	if badCommit == 0 {
		c.Ok(ruleCommitted, fnSendOnce+"/committed-after-store", fmt.Sprintf("all %d paths calling cleaner.SetCommitted(s.lastByInstance) have a successful Store before", nCommit), pos)
	}
	c.Floor(ruleCommitted, nCommit, 1, "SetCommitted call paths")
	// zero-iteration exclusion: Config.Check rejects StorageRetryCount < 1
	cf, cp := c.walkFn(ruleStore, "config.(Config).Check", WalkConfig{Memo: true,
		KeepEvent: func(e *Event) bool { return e.Kind == "ret" },
		KeepAtom:  func(a Atom) bool { return strings.Contains(a.String(), "StorageRetryCount") }})
	if cp != nil {
		okc := false
		for i := range cp {
			p := &cp[i]
			for _, cd := range p.Conds() {
				if strings.HasSuffix(cd.Atom.A, ".StorageRetryCount") && p.State.RelOf("int", cd.Atom.A, "const:1") == LT {
					if p.End == "return" && !retIsNilErr(p) {
						okc = true
					} else {
						okc = false
						c.Bad(ruleStore, "config.(Config).Check/retry-count", "a storage_retry_count below 1 is not rejected", c.pathPos(p), nil)
					}
				}
			}
		}
		c.Expect(okc, ruleStore, "config.(Config).Check/retry-count", "configuration validation rejects storage_retry_count < 1, so the store loop runs at least once", "Config.Check no longer rejects storage_retry_count < 1: SendOnce could report success without storing", c.P.Pos(cf.Pos()))
	}
	// SetCommitted callers; lastByInstance writers
	for _, cl := range staticCallers(c.P, "syncer/cleaner.(*Worker).SetCommitted") {
		if cl != fnSendOnce {
			c.Bad(ruleCommitted, "caller:"+cl, "cleaner.SetCommitted is called from "+cl+", not only after a successful upload in SendOnce", "", nil)
		}
	}
	ruleLastByInstanceWriters(c, ruleCommitted)
}

// fieldWriters finds map updates / stores through a struct field.
func fieldWriters(p *Program, typeName, field string) map[string][]ssa.Instruction {
	out := map[string][]ssa.Instruction{}
	for _, fn := range p.RepoFuncs() {
		for _, b := range fn.Blocks {
			for _, in := range b.Instrs {
				var base ssa.Value
				switch x := in.(type) {
				case *ssa.MapUpdate:
					base = x.Map
				case *ssa.Store:
					base = x.Addr
				default:
					continue
				}
				// base is load of FieldAddr (map) or FieldAddr itself (store)
				if u, ok := base.(*ssa.UnOp); ok {
					base = u.X
				}
				fa, ok := base.(*ssa.FieldAddr)
				if !ok {
					continue
				}
				fv := fieldVar(fa.X.Type(), fa.Field)
				if fv == nil || fv.Name() != field {
					continue
				}
				t := fa.X.Type()
				if pt, ok := t.Underlying().(*types.Pointer); ok {
					t = pt.Elem()
				}
				if n, ok := t.(*types.Named); ok && n.Obj().Name() == typeName {
					out[QualName(fn)] = append(out[QualName(fn)], in)
				}
			}
		}
	}
	return out
}

func ruleLastByInstanceWriters(c *Check, rule string) {
	ws := fieldWriters(c.P, "Syncer", "lastByInstance")
	n := 0
	for fnName, ins := range ws {
		for _, in := range ins {
			if fnName == "syncer.New" {
				continue // constructor
			}
			n++
			if fnName != fnLoadOnce {
				c.Bad(rule, "writer:"+fnName, "Syncer.lastByInstance (what the cleaner will treat as merged) is written in "+fnName+", outside LoadOnce", c.P.InstrPos(in), nil)
				continue
			}
		}
	}
	// in LoadOnce: the write happens only after env.Update returned nil
	_, paths := c.walkFn(rule, fnLoadOnce, WalkConfig{Memo: true,
		KeepEvent: func(e *Event) bool {
			return e.Kind == "ret" || e.Kind == "mapupdate" && strings.HasSuffix(e.Addr, ".lastByInstance") || e.Kind == "call" && strings.Contains(e.Callee, "lmdb.Env")
		},
		KeepAtom: func(a Atom) bool { return strings.Contains(a.String(), "(*lmdb.Env).Update@") }})
	nw, bad := 0, 0
	for i := range paths {
		p := &paths[i]
		for _, e := range p.Events {
			if e.Kind == "mapupdate" {
				nw++
				tr, f := condTruth(p, "isnil((*lmdb.Env).Update@", -1)
				if !f || !tr || !strings.HasSuffix(e.Val, ".NameInfo.Timestamp") || e.Key != param(c.P.Func(fnLoadOnce), 3) {
					bad++
					c.Bad(rule, fnLoadOnce+"/lastByInstance-after-commit", "lastByInstance is updated on a path where the merge transaction did not commit successfully, or not with (instance, update.NameInfo.Timestamp)", c.P.InstrPos(e.Instr), describe(c, p))
				}
			}
		}
	}
	if bad == 0 && nw > 0 {
		c.Ok(rule, fnLoadOnce+"/lastByInstance-after-commit", fmt.Sprintf("lastByInstance[instance] = update.NameInfo.Timestamp is written only in LoadOnce, on %d paths all after env.Update returned nil", nw), "")
	}
	c.Floor(rule, nw, 1, "lastByInstance writes in LoadOnce")
}

// reachable returns the repository functions reachable from roots through
// static calls and closures created in them.
func reachable(p *Program, roots ...string) map[*ssa.Function]bool {
	seen := map[*ssa.Function]bool{}
	var stack []*ssa.Function
	for _, r := range roots {
		if f := p.Func(r); f != nil {
			stack = append(stack, f)
		}
	}
	for len(stack) > 0 {
		f := stack[len(stack)-1]
		stack = stack[:len(stack)-1]
		if seen[f] || f.Blocks == nil {
			continue
		}
		seen[f] = true
		for _, b := range f.Blocks {
			for _, in := range b.Instrs {
				if ci, ok := in.(ssa.CallInstruction); ok {
					if cal := ci.Common().StaticCallee(); cal != nil && strings.HasPrefix(fnPkgPath(cal), modPath) {
						if cal.Blocks == nil {
							if f2 := p.Func(QualName(cal)); f2 != nil {
								cal = f2
							}
						}
						stack = append(stack, cal)
					}
				}
				for _, op := range in.Operands(nil) {
					if mc, ok := (*op).(*ssa.MakeClosure); ok {
						stack = append(stack, mc.Fn.(*ssa.Function))
					}
					if fv, ok := (*op).(*ssa.Function); ok && strings.HasPrefix(fnPkgPath(fv), modPath) {
						stack = append(stack, fv)
					}
				}
			}
		}
	}
	return seen
}

var txnStarters = []string{"(*lmdb.Env).View", "(*lmdb.Env).Update", "(*lmdb.Env).UpdateLocked", "(*lmdb.Env).BeginTxn", "(*lmdb.Env).RunTxn", "(*lmdb.Txn).Sub"}

func callsIn(fn *ssa.Function, names []string) []ssa.Instruction {
	var out []ssa.Instruction
	for _, b := range fn.Blocks {
		for _, in := range b.Instrs {
			ci, ok := in.(ssa.CallInstruction)
			if !ok {
				continue
			}
			cc := ci.Common()
			var nm string
			if f := cc.StaticCallee(); f != nil {
				nm = QualName(f)
			}
			for _, n := range names {
				if nm == n || nm == n+"$bound" {
					out = append(out, in)
				}
			}
			// bound method values used later: MakeClosure of View$bound
			for _, op := range in.Operands(nil) {
				if mc, ok := (*op).(*ssa.MakeClosure); ok {
					cn := QualName(mc.Fn.(*ssa.Function))
					for _, n := range names {
						if cn == n+"$bound" {
							out = append(out, in)
						}
					}
				}
			}
		}
	}
	return out
}

// ruleOneTxn: exactly one transaction holds all reads/writes of fnOuter
// (C06-R1 for SendOnce, C18-R1 for LoadOnce).
func ruleOneTxn(c *Check, rule, outer, closure string, txnUsers []string) {
	of := c.P.Func(outer)
	cf := c.P.Func(closure)
	if of == nil || cf == nil {
		c.Undecided(rule, outer, "anchor function not found", "")
		return
	}
	c.UseFunc(outer, closure)
	// no transaction is started from inside the closure or anything it reaches
	inner := reachable(c.P, closure)
	nf := 0
	bad := 0
	for f := range inner {
		nf++
		for _, in := range callsIn(f, txnStarters) {
			bad++
			c.Bad(rule, closure+"/nested-txn:"+QualName(f), "a further LMDB transaction is started in "+QualName(f)+", reachable from the transaction body of "+outer+": the operation would no longer be one transaction", c.P.InstrPos(in), nil)
		}
	}
	if bad == 0 {
		c.Ok(rule, closure+"/no-nested-txn", fmt.Sprintf("%d functions reachable from the transaction body through static calls: none starts another LMDB transaction", nf), c.P.Pos(cf.Pos()))
	}
	// the outer function runs exactly one transaction on every path that gets past it
	_, paths := c.walkFn(rule, outer, WalkConfig{Memo: true,
		KeepEvent: func(e *Event) bool {
			if e.Kind == "ret" {
				return true
			}
			if e.Kind != "call" {
				return false
			}
			for _, t := range txnStarters {
				if e.Callee == t || e.Callee == t+"$bound" {
					return true
				}
			}
			return false
		},
		KeepAtom: func(a Atom) bool { return false }})
	n1, badn := 0, 0
	for i := range paths {
		p := &paths[i]
		n := 0
		for _, e := range p.Events {
			if e.Kind == "call" {
				n++
				if len(e.Args) == 0 || e.Args[len(e.Args)-1] != "closure:"+closure {
					badn++
					c.Bad(rule, outer+"/txn-body", "the transaction started in "+outer+" does not run the expected body "+closure+": "+fmtList(e.Args), evPos(c, &e), nil)
				}
			}
		}
		if n > 1 {
			badn++
			c.Bad(rule, outer+"/one-txn", fmt.Sprintf("%d LMDB transactions on one path of %s", n, outer), c.pathPos(p), nil)
		}
		if n == 1 {
			n1++
		}
	}
	if badn == 0 {
		c.Ok(rule, outer+"/one-txn", fmt.Sprintf("every path of %s runs at most one LMDB transaction, with body %s (%d path classes)", outer, closure, n1), c.P.Pos(of.Pos()))
	}
	c.Floor(rule, n1, 1, "paths with the transaction")
	// every txn-using callee in the body gets the body's own txn
	_, cps := c.walkFn(rule, closure, WalkConfig{})
	txn := param(cf, 0)
	nu, badu := 0, 0
	for i := range cps {
		p := &cps[i]
		for _, e := range callsOf(p, txnUsers...) {
			nu++
			has := false
			for _, a := range e.Args {
				if a == txn {
					has = true
				}
			}
			if !has {
				badu++
				c.Bad(rule, closure+"/txn-passed:"+e.Callee, e.Callee+" is not given the transaction of this body: "+fmtList(e.Args), evPos(c, e), nil)
			}
		}
	}
	if badu == 0 {
		c.Ok(rule, closure+"/txn-passed", fmt.Sprintf("%d calls that read or write LMDB inside the body all receive the body's own txn", nu), c.P.Pos(cf.Pos()))
	}
	c.Floor(rule, nu, 2, "txn-using calls in "+closure)
}

// errIndex returns the index of the error result of a call instruction (-1 none;
// -2 when the call has a single error result).
func errIndex(in ssa.Instruction) int {
	cv, ok := in.(*ssa.Call)
	if !ok {
		return -1
	}
	t := cv.Type()
	isErr := func(t types.Type) bool {
		return types.Identical(t, types.Universe.Lookup("error").Type())
	}
	if tup, ok := t.(*types.Tuple); ok {
		for i := 0; i < tup.Len(); i++ {
			if isErr(tup.At(i).Type()) {
				return i
			}
		}
		return -1
	}
	if isErr(t) {
		return -2
	}
	return -1
}

// ruleErrFlow (ERRFLOW): in the named functions every error result of a call
// is tested and a non-nil error leaves the function as a non-nil error
// (tolerated: lmdb.IsNotFound / io.EOF idioms, which are explicit in the path).
func ruleErrFlow(c *Check, rule string, names ...string) {
	for _, name := range names {
		fn, paths := c.walkFn(rule, name, WalkConfig{})
		name = strings.TrimPrefix(name, "?")
		if paths == nil {
			continue
		}
		nTested, bad := 0, 0
		for i := range paths {
			p := &paths[i]
			for j := range p.Events {
				e := &p.Events[j]
				if e.Kind != "call" || e.Defd || e.Inl || isLogCall(e.Callee) {
					continue // an inlined helper's own calls are examined in place
				}
				k := errIndex(e.Instr)
				if k == -1 {
					continue
				}
				errv := e.Res
				if k >= 0 {
					errv = fmt.Sprintf("%s#%d", e.Res, k)
				}
				tr, found := boolCond(p, "isnil("+errv+")", -1)
				if !found {
					// returned directly, or the path ended before the test?
					direct := false
					for _, r := range p.Rets {
						if r == errv {
							direct = true
						}
					}
					// path ended (return/backedge/panic) between call and test
					endedEarly := p.End != "return" || j == len(p.Events)-1
					if direct || endedEarly {
						continue
					}
					// is there any later event on this path? if the error value is never looked at: dropped
					used := false
					for _, cd := range p.Conds() {
						if strings.Contains(cd.Atom.String(), errv) {
							used = true
						}
					}
					for _, ev := range p.Events[j+1:] {
						for _, a := range ev.Args {
							if strings.Contains(a, errv) {
								used = true
							}
						}
						if strings.Contains(ev.Val, errv) {
							used = true
						}
					}
					if !used {
						bad++
						c.Bad(rule, name+"/error-dropped:"+e.Callee, "the error result of "+e.Callee+" is neither tested nor returned on this path", evPos(c, e), describe(c, p))
					}
					continue
				}
				nTested++
				if tr {
					continue
				}
				// non-nil: must leave with a non-nil error, unless tolerated explicitly
				tol := false
				for _, cd := range p.Conds() {
					s := cd.Atom.String()
					if cd.Truth && (strings.Contains(s, "lmdb.IsNotFound("+errv+")") || strings.Contains(s, errv) && strings.Contains(s, "io.EOF")) {
						tol = true
					}
				}
				if tol {
					continue
				}
				if p.End == "return" && !retIsNilErr(p) || p.End == "panic" {
					continue
				}
				if strings.HasPrefix(p.End, "backedge:") && name == "syncer/sweeper.(*Sweeper).sweep" {
					continue
				}
				bad++
				c.Bad(rule, name+"/error-swallowed:"+e.Callee, "a failing "+e.Callee+" does not make "+name+" return an error on this path (end: "+p.End+")", evPos(c, e), describe(c, p))
			}
		}
		if bad == 0 {
			c.Ok(rule, name+"/errors-propagate", fmt.Sprintf("%d tested error results on %d paths: every non-nil error leaves the function as a non-nil error (IsNotFound / io.EOF tolerances are explicit conditions)", nTested, len(paths)), c.P.Pos(fn.Pos()))
		}
	}
}

// fieldReaders finds functions that take the address of / read a struct field.
func fieldReaders(p *Program, typeName, field string) map[string]bool {
	out := map[string]bool{}
	for _, fn := range p.RepoFuncs() {
		for _, b := range fn.Blocks {
			for _, in := range b.Instrs {
				var t types.Type
				var idx int
				switch x := in.(type) {
				case *ssa.FieldAddr:
					t, idx = x.X.Type(), x.Field
				case *ssa.Field:
					t, idx = x.X.Type(), x.Field
				default:
					continue
				}
				fv := fieldVar(t, idx)
				if fv == nil || fv.Name() != field {
					continue
				}
				if pt, ok := t.Underlying().(*types.Pointer); ok {
					t = pt.Elem()
				}
				if n, ok := t.(*types.Named); ok && n.Obj().Name() == typeName {
					out[QualName(fn)] = true
				}
			}
		}
	}
	return out
}

// C10-R4b LOCAL-CHANGE-ONLY-BY-TXNID: LoadOnce reports "the application changed
// something since the last sync" to the sync loop, which then keeps the old
// watermark and uploads a snapshot. That report is the transaction-id test
// lastTxnID < txn.ID()-1 and nothing else: every assignment of the variable the
// test is stored in is that comparison (or false). Any further source of
// "true" (entry counts that differ, a heuristic, a configuration flag) makes a
// pure merge of remote data look like a local change: the instance uploads an
// echo snapshot for every snapshot it receives.
func ruleLocalChangeOnlyByTxnID(c *Check, rule string) {
	fn, paths := c.walkFn(rule, fnLoadTxn, WalkConfig{Memo: true,
		KeepEvent: func(e *Event) bool { return e.Kind == "ret" || e.Kind == "store" },
		KeepAtom:  func(a Atom) bool { return false }})
	if paths == nil {
		return
	}
	pos := c.P.Pos(fn.Pos())
	roles := loadRoles(c)
	if !roles.ok {
		c.Undecided(rule, fnLoadTxn+"/captured", "cannot identify the captured watermark of the transaction body", pos)
		return
	}
	isTest := func(v string) bool {
		return strings.HasPrefix(v, "("+roles.lastTxnID+" < ((*lmdb.Txn).ID@") && strings.HasSuffix(v, " - const:1))")
	}
	// the variable the test is stored in
	addr := ""
	for i := range paths {
		for _, e := range paths[i].Events {
			if e.Kind == "store" && isTest(e.Val) {
				if addr != "" && addr != e.Addr {
					c.Undecided(rule, fnLoadTxn+"/local-change-variable", "the local-change test is stored into more than one variable: "+addr+", "+e.Addr, pos)
					return
				}
				addr = e.Addr
			}
		}
	}
	if addr == "" {
		c.Undecided(rule, fnLoadTxn+"/local-change-variable", "the local-change test lastTxnID < txn.ID()-1 is not stored into a variable of LoadOnce", pos)
		return
	}
	n, bad := 0, 0
	seen := map[string]bool{}
	for i := range paths {
		p := &paths[i]
		for j := range p.Events {
			e := &p.Events[j]
			if e.Kind != "store" || e.Addr != addr {
				continue
			}
			key := c.P.InstrPos(e.Instr) + "|" + e.Val
			if seen[key] {
				continue
			}
			seen[key] = true
			n++
			if isTest(e.Val) || e.Val == "const:false" {
				continue
			}
			bad++
			c.Bad(rule, fnLoadTxn+"/local-change-only-by-txnid", "the local-change result of LoadOnce ("+addr+") is also set to "+e.Val+": a load is then reported as a local change for a reason other than an application transaction since the last sync, the watermark is not advanced and an echo snapshot is uploaded", evPos(c, e), describe(c, p))
		}
	}
	// outside the transaction body the result is only reset
	if parent := c.P.Func(fnLoadOnce); parent != nil && strings.HasPrefix(addr, "free:") {
		for _, st := range capturedVarStores(parent, fn, strings.TrimPrefix(addr, "free:")) {
			n++
			if k, ok := st.Val.(*ssa.Const); ok && (k.Value == nil || k.Value.ExactString() == "false") {
				continue
			}
			if ld, ok := st.Val.(*ssa.UnOp); ok && ld.Op == token.MUL && ld.X == st.Addr {
				continue // "return txnID, localChanged, nil": the named result copied onto itself
			}
			bad++
			c.Bad(rule, fnLoadOnce+"/local-change-only-by-txnid", "LoadOnce assigns its local-change result outside the transaction body from something other than false", c.P.InstrPos(st), nil)
		}
	}
	if bad == 0 {
		c.Ok(rule, fnLoadTxn+"/local-change-only-by-txnid", fmt.Sprintf("%d assignment(s) of the local-change result %s: the test lastTxnID < txn.ID()-1 (or false) only", n, addr), pos)
	}
	c.Floor(rule, n, 1, "assignments of LoadOnce's local-change result")
}
