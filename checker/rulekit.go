package main

import (
	"fmt"
	"strings"

	"golang.org/x/tools/go/ssa"
)

// walkFn walks a repository function and reports failures as undecided.
func (c *Check) walkFn(rule, name string, cfg WalkConfig) (*ssa.Function, []Path) {
	fn := c.P.Func(name)
	if fn == nil || fn.Blocks == nil {
		c.Undecided(rule, name, "anchor function not found in the current tree", "")
		return nil, nil
	}
	c.UseFunc(name)
	w := Walk(c.P, fn, cfg)
	if w.Err != nil {
		c.Undecided(rule, name, "path walk failed: "+w.Err.Error(), c.P.Pos(fn.Pos()))
		return fn, nil
	}
	c.Evaluations += len(w.Paths)
	return fn, w.Paths
}

func param(fn *ssa.Function, i int) string {
	if fn == nil || i >= len(fn.Params) {
		return "param:?"
	}
	return "param:" + fn.Params[i].Name()
}

// callsOf returns call events (non-deferred-declaration) with one of the names.
func callsOf(p *Path, names ...string) []*Event {
	var out []*Event
	for i := range p.Events {
		e := &p.Events[i]
		if e.Kind != "call" {
			continue
		}
		for _, n := range names {
			if e.Callee == n {
				out = append(out, e)
			}
		}
	}
	return out
}

func eventIndex(p *Path, e *Event) int {
	for i := range p.Events {
		if &p.Events[i] == e {
			return i
		}
	}
	return -1
}

// condTruth finds the (last) condition on the path, before event index
// `before` (or anywhere when before < 0), whose rendering contains sub.
func condTruth(p *Path, sub string, before int) (truth bool, found bool) {
	for i := range p.Events {
		if before >= 0 && i >= before {
			break
		}
		e := &p.Events[i]
		if e.Kind == "cond" && strings.Contains(e.Cond.Atom.String(), sub) {
			truth, found = e.Cond.Truth, true
		}
	}
	return
}

// boolCond finds a boolean condition with exactly this atom.
func boolCond(p *Path, atom string, before int) (truth bool, found bool) {
	for i := range p.Events {
		if before >= 0 && i >= before {
			break
		}
		e := &p.Events[i]
		if e.Kind == "cond" && e.Cond.Atom.Kind == "bool" && e.Cond.Atom.A == atom {
			truth, found = e.Cond.Truth, true
		}
	}
	return
}

func retIsNilErr(p *Path) bool {
	return p.End == "return" && len(p.Rets) > 0 && p.Rets[len(p.Rets)-1] == "nil"
}

func (c *Check) pathPos(p *Path) string { return c.P.InstrPos(p.EndPos) }

func evPos(c *Check, e *Event) string {
	if e == nil {
		return ""
	}
	return c.P.InstrPos(e.Instr)
}

// litField extracts "name: value" from a rendered struct literal {a: x; b: y}.
func litField(lit, name string) (string, bool) {
	l := strings.TrimPrefix(lit, "&")
	if !strings.HasPrefix(l, "{") || !strings.HasSuffix(l, "}") {
		return "", false
	}
	l = l[1 : len(l)-1]
	depth := 0
	start := 0
	var parts []string
	for i := 0; i < len(l); i++ {
		switch l[i] {
		case '(', '[', '{':
			depth++
		case ')', ']', '}':
			depth--
		case ';':
			if depth == 0 {
				parts = append(parts, strings.TrimSpace(l[start:i]))
				start = i + 1
			}
		}
	}
	parts = append(parts, strings.TrimSpace(l[start:]))
	for _, p := range parts {
		if strings.HasPrefix(p, name+": ") {
			return strings.TrimPrefix(p, name+": "), true
		}
	}
	return "", false
}

func litFieldNames(lit string) []string {
	l := strings.TrimPrefix(lit, "&")
	if !strings.HasPrefix(l, "{") {
		return nil
	}
	l = l[1 : len(l)-1]
	var names []string
	depth, start := 0, 0
	for i := 0; i <= len(l); i++ {
		if i == len(l) || (l[i] == ';' && depth == 0) {
			seg := strings.TrimSpace(l[start:i])
			if j := strings.Index(seg, ": "); j > 0 {
				names = append(names, seg[:j])
			}
			start = i + 1
			continue
		}
		switch l[i] {
		case '(', '[', '{':
			depth++
		case ')', ']', '}':
			depth--
		}
	}
	return names
}

func describe(c *Check, p *Path) any { return p.Describe(c.P) }

func fmtList(xs []string) string { return fmt.Sprintf("%v", xs) }

// constValue returns the value of a package-level constant as exact string.
func (c *Check) constValue(pkgRel, name string) (string, bool) {
	tp := c.P.TypesPkg(pkgRel)
	if tp == nil {
		return "", false
	}
	obj := tp.Scope().Lookup(name)
	if obj == nil {
		return "", false
	}
	k, ok := obj.(interface {
		Val() interface{ ExactString() string }
	})
	_ = k
	_ = ok
	return constOf(obj)
}

// constValue2 reads a constant of any loaded package (by import path).
func (c *Check) constValue2(pkgPath, name string) (string, bool) {
	pk, ok := c.P.pkgOf[pkgPath]
	if !ok {
		return "", false
	}
	obj := pk.Types.Scope().Lookup(name)
	if obj == nil {
		return "", false
	}
	return constOf(obj)
}

// phiInitOf returns the constant a loop-carried variable enters its loop with.
func phiInitOf(fn *ssa.Function, name string) string {
	for _, b := range fn.Blocks {
		for _, in := range b.Instrs {
			phi, ok := in.(*ssa.Phi)
			if !ok {
				break
			}
			if phi.Comment != name {
				continue
			}
			for i, e := range phi.Edges {
				if b.Dominates(b.Preds[i]) {
					continue // back edge
				}
				if k, ok := e.(*ssa.Const); ok {
					return constStr(k)
				}
				return e.Name()
			}
		}
	}
	return ""
}
