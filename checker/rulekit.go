package main

import (
	"fmt"
	"go/token"
	"go/types"
	"strings"

	"golang.org/x/tools/go/ssa"
)

// walkFn walks a repository function and reports failures as undecided.
// A name starting with "?" is an optional anchor: a private helper that is
// only ever called from other analysed functions; when a refactoring folded it
// into its callers, those are still analysed and nothing is lost.
func (c *Check) walkFn(rule, name string, cfg WalkConfig) (*ssa.Function, []Path) {
	optional := strings.HasPrefix(name, "?")
	name = strings.TrimPrefix(name, "?")
	fn := c.P.Func(name)
	if optional && (fn == nil || fn.Blocks == nil) {
		c.Notes = append(c.Notes, "optional helper "+name+" does not exist in this tree (folded into its callers, which are analysed)")
		return nil, nil
	}
	if fn == nil || fn.Blocks == nil {
		c.Undecided(rule, name, "anchor function not found in the current tree", "")
		return nil, nil
	}
	c.UseFunc(name)
	w := Walk(c.P, fn, cfg)
	if w.Err != nil {
		c.Undecided(rule, name, "path walk failed: "+w.Err.Error(), c.P.Pos(fn.Pos()))
		return fn, nil
	}
	c.Evaluations += len(w.Paths)
	return fn, w.Paths
}

// freeOfType: the name of the closure's free variable whose variable type
// satisfies pred ("" if none or several): captured variables are identified by
// role, not by their source name.
func freeOfType(cl *ssa.Function, pred func(types.Type) bool) string {
	if cl == nil {
		return ""
	}
	name, n := "", 0
	if ei := envMethods[cl]; ei != nil {
		// a method standing for the closure: the receiver's fields
		for i := 0; i < ei.st.NumFields(); i++ {
			t := ei.st.Field(i).Type()
			if pt, ok := t.Underlying().(*types.Pointer); ok && pred(pt.Elem()) || pred(t) {
				name = ei.st.Field(i).Name()
				n++
			}
		}
		if n != 1 {
			return ""
		}
		return name
	}
	for _, fv := range cl.FreeVars {
		if stt := holderFree[fv]; stt != nil {
			// a captured holder struct: its fields
			for i := 0; i < stt.NumFields(); i++ {
				t := stt.Field(i).Type()
				if pt, ok := t.Underlying().(*types.Pointer); ok && pred(pt.Elem()) || pred(t) {
					name = stt.Field(i).Name()
					n++
				}
			}
			continue
		}
		t := fv.Type()
		if pt, ok := t.Underlying().(*types.Pointer); ok {
			t = pt.Elem()
		}
		if pt, ok := t.Underlying().(*types.Pointer); ok && pred(pt.Elem()) {
			name = fv.Name()
			n++
			continue
		}
		if pred(t) {
			name = fv.Name()
			n++
		}
	}
	if n != 1 {
		return ""
	}
	return name
}

// namedIs: t is the named (non-pointer) type whose qualified name ends in suffix.
func namedIs(t types.Type, suffix string) bool {
	n, ok := t.(*types.Named)
	return ok && strings.HasSuffix(types.TypeString(n, nil), suffix)
}

// allocOfType: the source name (SSA comment) of the unique local of fn whose
// type satisfies pred.
func allocOfType(fn *ssa.Function, pred func(types.Type) bool) string {
	name, n := "", 0
	for _, b := range fn.Blocks {
		for _, in := range b.Instrs {
			a, ok := in.(*ssa.Alloc)
			if !ok {
				continue
			}
			switch a.Comment {
			case "complit", "varargs", "slicelit", "makeslice", "":
				continue // compiler temporaries
			}
			if pred(a.Type().Underlying().(*types.Pointer).Elem()) {
				name = a.Comment
				n++
			}
		}
	}
	if n != 1 {
		return ""
	}
	return name
}

// freeInitSuffix: the closure's free variable whose initial value in the
// parent is an access path ending in suffix (e.g. ".SchemaTracksChanges").
func freeInitSuffix(parent, cl *ssa.Function, suffix string) string {
	if parent == nil || cl == nil {
		return ""
	}
	vs := freeVarsWhere(parent, cl, func(v ssa.Value) bool { return strings.HasSuffix(renderAddr(v), suffix) })
	if len(vs) != 1 {
		return ""
	}
	return vs[0]
}

// localFeedingField: the local of fn whose loaded value is stored into field
// fieldName of a struct of type typeSuffix.
func localFeedingField(fn *ssa.Function, typeSuffix, fieldName string) string {
	for _, b := range fn.Blocks {
		for _, in := range b.Instrs {
			st, ok := in.(*ssa.Store)
			if !ok {
				continue
			}
			fa, ok := st.Addr.(*ssa.FieldAddr)
			if !ok || fieldName != fieldNameOf(fa) || !strings.HasSuffix(structTypeName(fa.X.Type()), typeSuffix) {
				continue
			}
			if ld, ok := st.Val.(*ssa.UnOp); ok {
				if a, ok := ld.X.(*ssa.Alloc); ok {
					return a.Comment
				}
				// a field of a callback environment struct (see envInfo)
				if efa, ok := ld.X.(*ssa.FieldAddr); ok {
					if a, ok := efa.X.(*ssa.Alloc); ok && envAllocs[a] {
						return fieldNameOf(efa)
					}
				}
			}
		}
	}
	return ""
}

func fieldNameOf(fa *ssa.FieldAddr) string { return fieldName(fa.X.Type(), fa.Field) }

// varNameOf: the source variable behind an SSA value (a phi of a loop-carried
// variable, or a load of a local).
func varNameOf(v ssa.Value) string {
	switch x := v.(type) {
	case *ssa.Phi:
		return x.Comment
	case *ssa.UnOp:
		if a, ok := x.X.(*ssa.Alloc); ok {
			return a.Comment
		}
	case *ssa.Convert:
		return varNameOf(x.X)
	case *ssa.ChangeType:
		return varNameOf(x.X)
	}
	return ""
}

// callArgVar: the variable passed at argument position argIdx of the first
// call in fn accepted by match whose argument is a variable.
func callArgVar(fn *ssa.Function, match func(cc *ssa.CallCommon) bool, argIdx int) string {
	if fn == nil {
		return ""
	}
	for _, b := range fn.Blocks {
		for _, in := range b.Instrs {
			ci, ok := in.(ssa.CallInstruction)
			if !ok || !match(ci.Common()) || argIdx >= len(ci.Common().Args) {
				continue
			}
			if n := varNameOf(ci.Common().Args[argIdx]); n != "" {
				return n
			}
		}
	}
	return ""
}

// callArgVarAny: like callArgVar, looking at every matching call until one
// passes a variable at argIdx.
func callArgVarAny(fn *ssa.Function, match func(cc *ssa.CallCommon) bool, argIdx int) string {
	return callArgVar(fn, match, argIdx)
}

func calleeIs(name string) func(cc *ssa.CallCommon) bool {
	return func(cc *ssa.CallCommon) bool {
		f := cc.StaticCallee()
		return f != nil && (QualName(f) == name || calleeName(f) == name)
	}
}

// loopPhiOfType: the unique loop-carried variable (phi at a loop header) of fn
// whose type satisfies pred.
func loopPhiOfType(fn *ssa.Function, pred func(types.Type) bool) string {
	names := map[string]bool{}
	for _, b := range fn.Blocks {
		if !isLoopHeader(b) {
			continue
		}
		for _, in := range b.Instrs {
			phi, ok := in.(*ssa.Phi)
			if !ok {
				break
			}
			if phi.Comment != "" && phi.Comment != "rangeindex" && pred(phi.Type()) {
				names[phi.Comment] = true
			}
		}
	}
	if len(names) != 1 {
		return ""
	}
	for n := range names {
		return n
	}
	return ""
}

// capturedVarAlloc: the local of parent behind the callback's captured
// variable: the captured local itself (closure form) or the environment struct
// that holds it as a field (method form, see envInfo).
// holderAllocOf: the parent's holder struct variable one of whose fields is name.
func holderAllocOf(parent, cl *ssa.Function, name string) *ssa.Alloc {
	if cl == nil || parent == nil {
		return nil
	}
	for i, fv := range cl.FreeVars {
		stt := holderFree[fv]
		if stt == nil {
			continue
		}
		has := false
		for k := 0; k < stt.NumFields(); k++ {
			if stt.Field(k).Name() == name {
				has = true
			}
		}
		if !has {
			continue
		}
		for _, b := range parent.Blocks {
			for _, in := range b.Instrs {
				if mc, ok := in.(*ssa.MakeClosure); ok && mc.Fn == ssa.Value(cl) && i < len(mc.Bindings) {
					if a, ok := mc.Bindings[i].(*ssa.Alloc); ok {
						return a
					}
				}
			}
		}
	}
	return nil
}

func capturedVarAlloc(parent, cl *ssa.Function, name string) *ssa.Alloc {
	if a := holderAllocOf(parent, cl, name); a != nil {
		return a
	}
	if envMethods[cl] != nil {
		if bnd := envBinding(parent, cl); bnd != nil {
			a, _ := bnd.(*ssa.Alloc)
			return a
		}
		return nil
	}
	var found *ssa.Alloc
	for _, b := range parent.Blocks {
		for _, in := range b.Instrs {
			if a, ok := in.(*ssa.Alloc); ok && a.Comment == name {
				if found != nil {
					return nil
				}
				found = a
			}
		}
	}
	return found
}

// capturedVarStores: the stores in parent that assign the captured variable.
func capturedVarStores(parent, cl *ssa.Function, name string) []*ssa.Store {
	var out []*ssa.Store
	if envMethods[cl] != nil || holderAllocOf(parent, cl, name) != nil {
		a := capturedVarAlloc(parent, cl, name)
		if a == nil {
			return nil
		}
		var visit func(al *ssa.Alloc, d int)
		visit = func(al *ssa.Alloc, d int) {
			if al.Referrers() == nil || d > 2 {
				return
			}
			for _, r := range *al.Referrers() {
				switch x := r.(type) {
				case *ssa.Store:
					if x.Addr == ssa.Value(al) {
						if ld, ok := x.Val.(*ssa.UnOp); ok && ld.Op == token.MUL {
							if tmp, ok := ld.X.(*ssa.Alloc); ok && tmp != al {
								visit(tmp, d+1)
							}
						}
					}
				case *ssa.FieldAddr:
					if fieldName(x.X.Type(), x.Field) != name || x.Referrers() == nil {
						continue
					}
					for _, fr := range *x.Referrers() {
						if st, ok := fr.(*ssa.Store); ok && st.Addr == ssa.Value(x) {
							out = append(out, st)
						}
					}
				}
			}
		}
		visit(a, 0)
		return out
	}
	for _, b := range parent.Blocks {
		for _, in := range b.Instrs {
			if st, ok := in.(*ssa.Store); ok {
				if a, ok := st.Addr.(*ssa.Alloc); ok && a.Comment == name {
					out = append(out, st)
				}
			}
		}
	}
	return out
}

// fixedOutsideLoops: is the value computed once, outside every loop of its
// function (so that every use, also inside loops, sees the same value)?
func fixedOutsideLoops(v ssa.Value, d int) bool {
	switch x := v.(type) {
	case *ssa.Const, *ssa.Parameter:
		return true
	case *ssa.UnOp:
		if x.Op == token.MUL {
			if a, ok := x.X.(*ssa.Alloc); ok && d < 3 && a.Referrers() != nil {
				n := 0
				for _, r := range *a.Referrers() {
					switch y := r.(type) {
					case *ssa.Store:
						if y.Addr != ssa.Value(a) || blockInLoop(y.Block()) || !fixedOutsideLoops(y.Val, d+1) {
							return false
						}
						n++
					case *ssa.UnOp, *ssa.DebugRef:
					default:
						return false
					}
				}
				return n == 1
			}
		}
	}
	if in, ok := v.(ssa.Instruction); ok && in.Block() != nil {
		return !blockInLoop(in.Block())
	}
	return false
}

// hostOf: the function that contains the static call to callee (full name as
// printed by ssa): fn itself, or a helper extracted from it after the rules
// were confirmed (unknownHelper), up to three levels down.
func hostOf(fn *ssa.Function, callee string) *ssa.Function {
	var find func(f *ssa.Function, d int) *ssa.Function
	find = func(f *ssa.Function, d int) *ssa.Function {
		var helpers []*ssa.Function
		for _, b := range f.Blocks {
			for _, in := range b.Instrs {
				call, ok := in.(ssa.CallInstruction)
				if !ok {
					continue
				}
				sc := call.Common().StaticCallee()
				if sc == nil {
					continue
				}
				if sc.String() == callee {
					return f
				}
				if unknownHelper(sc, d+1) {
					helpers = append(helpers, sc)
				}
			}
		}
		if d < 3 {
			for _, h := range helpers {
				if r := find(h, d+1); r != nil {
					return r
				}
			}
		}
		return nil
	}
	if r := find(fn, 0); r != nil {
		return r
	}
	return fn
}

func param(fn *ssa.Function, i int) string {
	if fn != nil && envMethods[fn] != nil {
		i++ // a method standing for a closure: its receiver is the environment, not a parameter
	}
	if fn == nil || i >= len(fn.Params) {
		return "param:?"
	}
	return "param:" + fn.Params[i].Name()
}

// callsOf returns call events (non-deferred-declaration) with one of the names.
func callsOf(p *Path, names ...string) []*Event {
	var out []*Event
	for i := range p.Events {
		e := &p.Events[i]
		if e.Kind != "call" {
			continue
		}
		for _, n := range names {
			if e.Callee == n {
				out = append(out, e)
			}
		}
	}
	return out
}

func eventIndex(p *Path, e *Event) int {
	for i := range p.Events {
		if &p.Events[i] == e {
			return i
		}
	}
	return -1
}

// condTruth finds the (last) condition on the path, before event index
// `before` (or anywhere when before < 0), whose rendering contains sub.
func condTruth(p *Path, sub string, before int) (truth bool, found bool) {
	for i := range p.Events {
		if before >= 0 && i >= before {
			break
		}
		e := &p.Events[i]
		if e.Kind == "cond" && strings.Contains(e.Cond.Atom.String(), sub) {
			truth, found = e.Cond.Truth, true
		}
	}
	return
}

// boolCond finds a boolean condition with exactly this atom.
func boolCond(p *Path, atom string, before int) (truth bool, found bool) {
	for i := range p.Events {
		if before >= 0 && i >= before {
			break
		}
		e := &p.Events[i]
		if e.Kind == "cond" && e.Cond.Atom.Kind == "bool" && e.Cond.Atom.A == atom {
			truth, found = e.Cond.Truth, true
		}
	}
	return
}

func retIsNilErr(p *Path) bool {
	return p.End == "return" && len(p.Rets) > 0 && p.Rets[len(p.Rets)-1] == "nil"
}

func (c *Check) pathPos(p *Path) string { return c.P.InstrPos(p.EndPos) }

func evPos(c *Check, e *Event) string {
	if e == nil {
		return ""
	}
	return c.P.InstrPos(e.Instr)
}

// litField extracts "name: value" from a rendered struct literal {a: x; b: y}.
func litField(lit, name string) (string, bool) {
	l := strings.TrimPrefix(lit, "&")
	if !strings.HasPrefix(l, "{") || !strings.HasSuffix(l, "}") {
		return "", false
	}
	l = l[1 : len(l)-1]
	depth := 0
	start := 0
	var parts []string
	for i := 0; i < len(l); i++ {
		switch l[i] {
		case '(', '[', '{':
			depth++
		case ')', ']', '}':
			depth--
		case ';':
			if depth == 0 {
				parts = append(parts, strings.TrimSpace(l[start:i]))
				start = i + 1
			}
		}
	}
	parts = append(parts, strings.TrimSpace(l[start:]))
	for _, p := range parts {
		if strings.HasPrefix(p, name+": ") {
			return strings.TrimPrefix(p, name+": "), true
		}
	}
	return "", false
}

func litFieldNames(lit string) []string {
	l := strings.TrimPrefix(lit, "&")
	if !strings.HasPrefix(l, "{") {
		return nil
	}
	l = l[1 : len(l)-1]
	var names []string
	depth, start := 0, 0
	for i := 0; i <= len(l); i++ {
		if i == len(l) || (l[i] == ';' && depth == 0) {
			seg := strings.TrimSpace(l[start:i])
			if j := strings.Index(seg, ": "); j > 0 {
				names = append(names, seg[:j])
			}
			start = i + 1
			continue
		}
		switch l[i] {
		case '(', '[', '{':
			depth++
		case ')', ']', '}':
			depth--
		}
	}
	return names
}

func describe(c *Check, p *Path) any { return p.Describe(c.P) }

func fmtList(xs []string) string { return fmt.Sprintf("%v", xs) }

// constValue returns the value of a package-level constant as exact string.
func (c *Check) constValue(pkgRel, name string) (string, bool) {
	tp := c.P.TypesPkg(pkgRel)
	if tp == nil {
		return "", false
	}
	obj := tp.Scope().Lookup(name)
	if obj == nil {
		return "", false
	}
	k, ok := obj.(interface {
		Val() interface{ ExactString() string }
	})
	_ = k
	_ = ok
	return constOf(obj)
}

// constValue2 reads a constant of any loaded package (by import path).
func (c *Check) constValue2(pkgPath, name string) (string, bool) {
	pk, ok := c.P.pkgOf[pkgPath]
	if !ok {
		return "", false
	}
	obj := pk.Types.Scope().Lookup(name)
	if obj == nil {
		return "", false
	}
	return constOf(obj)
}

// phiInitOf returns the constant a loop-carried variable enters its loop with.
func phiInitOf(fn *ssa.Function, name string) string {
	for _, b := range fn.Blocks {
		for _, in := range b.Instrs {
			phi, ok := in.(*ssa.Phi)
			if !ok {
				break
			}
			if phi.Comment != name {
				continue
			}
			for i, e := range phi.Edges {
				if b.Dominates(b.Preds[i]) {
					continue // back edge
				}
				if k, ok := e.(*ssa.Const); ok {
					return constStr(k)
				}
				return e.Name()
			}
		}
	}
	return ""
}

// immutableField: is the field (of a struct type the repository declares) never
// written outside constructor context (the object allocated in the writing
// function)? Configuration structs filled by the YAML decoder count as
// immutable: nothing in the repository writes them afterwards.
func (p *Program) immutableField(t types.Type, idx int) bool {
	n, ok := sfNamedStruct(t)
	if !ok {
		return false
	}
	fv := fieldVar(t, idx)
	if fv == nil {
		return false
	}
	if p.mutFields == nil {
		p.mutFields = map[string]bool{}
		for _, fn := range p.RepoFuncs() {
			for _, b := range fn.Blocks {
				for _, in := range b.Instrs {
					fa, ok := in.(*ssa.FieldAddr)
					if !ok {
						continue
					}
					nn, ok := sfNamedStruct(fa.X.Type())
					if !ok {
						continue
					}
					f := fieldVar(fa.X.Type(), fa.Field)
					if f == nil || sfFresh(fa.X, 0) || !sfIsWrite(fa, 0) {
						continue
					}
					p.mutFields[nn.Obj().Pkg().Path()+"."+nn.Obj().Name()+"."+f.Name()] = true
				}
			}
		}
	}
	return !p.mutFields[n.Obj().Pkg().Path()+"."+n.Obj().Name()+"."+fv.Name()]
}

// freeAlias: "*free:<p>.<immutable field path>" for a captured variable whose
// only assignment in the parent is a read of that path from the parent's
// parameter p, which the closure captures too; "" otherwise.
func freeAlias(p *Program, cl *ssa.Function, fv *ssa.FreeVar) string {
	parent := cl.Parent()
	if parent == nil {
		return ""
	}
	key := cl.String() + "#" + fv.Name()
	if p.aliasCache == nil {
		p.aliasCache = map[string]string{}
	}
	if v, ok := p.aliasCache[key]; ok {
		return v
	}
	res := ""
	defer func() { p.aliasCache[key] = res }()
	// never assigned in the closure (or its siblings: the binding has one store)
	vals := closureFreeInit(parent, cl, fv.Name())
	if len(vals) != 1 {
		return ""
	}
	if rs := fv.Referrers(); rs != nil {
		for _, r := range *rs {
			if st, ok := r.(*ssa.Store); ok && st.Addr == ssa.Value(fv) {
				return ""
			}
		}
	}
	// the value: loads of immutable fields down from a parameter of the parent
	path := ""
	v := vals[0]
	var root *ssa.Parameter
	for d := 0; d < 8 && root == nil; d++ {
		switch x := v.(type) {
		case *ssa.UnOp:
			if x.Op != token.MUL {
				return ""
			}
			v = x.X
		case *ssa.FieldAddr:
			if !p.immutableField(x.X.Type(), x.Field) {
				return ""
			}
			path = "." + fieldName(x.X.Type(), x.Field) + path
			v = x.X
		case *ssa.Field:
			if !p.immutableField(x.X.Type(), x.Field) {
				return ""
			}
			path = "." + fieldName(x.X.Type(), x.Field) + path
			v = x.X
		case *ssa.Alloc:
			// a spilled parameter
			var prm *ssa.Parameter
			n := 0
			if rs := x.Referrers(); rs != nil {
				for _, r := range *rs {
					if st, ok := r.(*ssa.Store); ok && st.Addr == ssa.Value(x) {
						n++
						prm, _ = st.Val.(*ssa.Parameter)
					}
				}
			}
			if n != 1 || prm == nil {
				return ""
			}
			root = prm
		case *ssa.Parameter:
			root = x
		default:
			return ""
		}
	}
	if root == nil || path == "" {
		return ""
	}
	// the closure must capture that parameter as well
	for _, ofv := range cl.FreeVars {
		for _, iv := range closureFreeInit(parent, cl, ofv.Name()) {
			if iv == ssa.Value(root) {
				res = "*free:" + ofv.Name() + path
				return res
			}
		}
	}
	return ""
}

// freeCanon: how the walker names a read of the closure's captured variable.
func freeCanon(p *Program, cl *ssa.Function, name string) string {
	if cl == nil || name == "" {
		return ""
	}
	for _, fv := range cl.FreeVars {
		if fv.Name() == name {
			if al := freeAlias(p, cl, fv); al != "" {
				return al
			}
		}
	}
	return "*free:" + name
}
