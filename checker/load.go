package main

import (
	"fmt"
	"go/token"
	"go/types"
	"os"
	"sort"
	"strings"

	"golang.org/x/tools/go/callgraph"
	"golang.org/x/tools/go/packages"
	"golang.org/x/tools/go/ssa"
	"golang.org/x/tools/go/ssa/ssautil"
)

const modPath = "github.com/PowerDNS/lightningstream"

// Program is the loaded, type-checked and SSA-converted repository.
type Program struct {
	Dir   string
	Fset  *token.FileSet
	Pkgs  []*packages.Package // all packages (including deps) in load order
	Repo  []*packages.Package // packages of the repository itself
	SSA   *ssa.Program
	byPkg map[string]*ssa.Package // import path -> ssa package
	pkgOf map[string]*packages.Package

	funcs map[string]*ssa.Function // qualified name -> function (repo only, incl. anon)

	mutGlobals map[string]bool
	mutFields  map[string]bool
	aliasCache map[string]string
	vta        *callgraph.Graph
	tabCache   map[*ssa.Global]*constTab
	tabMutable map[*ssa.Global]bool
}

// MutableGlobal: is the package-level variable (named "<pkg>.<name>") stored
// to outside package initialisation?
func (p *Program) MutableGlobal(name string) bool {
	if p.mutGlobals == nil {
		p.mutGlobals = map[string]bool{}
		for _, fn := range p.RepoFuncs() {
			if fn.Name() == "init" || strings.HasPrefix(fn.Name(), "init#") {
				continue
			}
			for _, b := range fn.Blocks {
				for _, in := range b.Instrs {
					if st, ok := in.(*ssa.Store); ok {
						if g, ok := st.Addr.(*ssa.Global); ok && g.Pkg != nil {
							p.mutGlobals[shortPkg(g.Pkg.Pkg.Path())+"."+g.Name()] = true
						}
					}
				}
			}
		}
	}
	return p.mutGlobals[name]
}

func goEnv() []string {
	env := []string{}
	for _, e := range os.Environ() {
		k := strings.SplitN(e, "=", 2)[0]
		switch k {
		case "PATH", "GOFLAGS", "GOPROXY", "GOSUMDB", "GOTOOLCHAIN", "GOWORK":
			continue
		}
		env = append(env, e)
	}
	path := os.Getenv("PATH")
	if !strings.HasPrefix(path, "/opt/veriftools/go1.26.8/bin:") {
		path = "/opt/veriftools/go1.26.8/bin:" + path
		// go/packages looks the go command up through the process PATH
		os.Setenv("PATH", path)
	}
	env = append(env,
		"PATH="+path,
		"GOTOOLCHAIN=local",
		"GOFLAGS=-mod=mod",
		"GOPROXY=off",
		"GOSUMDB=off",
		"GOWORK=off",
		"CGO_ENABLED=1",
	)
	return env
}

// Load loads the repository at dir. overlay may replace file contents
// (used by the mutant self-test only).
func Load(dir string, overlay map[string][]byte) (*Program, error) {
	cfg := &packages.Config{
		Mode:    packages.LoadAllSyntax,
		Dir:     dir,
		Env:     goEnv(),
		Tests:   false,
		Overlay: overlay,
	}
	pkgs, err := packages.Load(cfg, "./...")
	if err != nil {
		return nil, fmt.Errorf("packages.Load: %w", err)
	}
	if len(pkgs) == 0 {
		return nil, fmt.Errorf("no packages loaded from %s", dir)
	}
	var errs []string
	packages.Visit(pkgs, nil, func(p *packages.Package) {
		for _, e := range p.Errors {
			errs = append(errs, e.Error())
		}
	})
	if len(errs) > 0 {
		sort.Strings(errs)
		if len(errs) > 10 {
			errs = errs[:10]
		}
		return nil, fmt.Errorf("type-check errors:\n  %s", strings.Join(errs, "\n  "))
	}
	prog, _ := ssautil.AllPackages(pkgs, ssa.InstantiateGenerics)
	prog.Build()

	p := &Program{
		Dir:   dir,
		Fset:  pkgs[0].Fset,
		SSA:   prog,
		byPkg: map[string]*ssa.Package{},
		pkgOf: map[string]*packages.Package{},
		funcs: map[string]*ssa.Function{},
	}
	packages.Visit(pkgs, nil, func(pk *packages.Package) {
		p.Pkgs = append(p.Pkgs, pk)
		p.pkgOf[pk.PkgPath] = pk
		if sp := prog.Package(pk.Types); sp != nil {
			p.byPkg[pk.PkgPath] = sp
		}
	})
	for _, pk := range pkgs {
		if strings.HasPrefix(pk.PkgPath, modPath) {
			p.Repo = append(p.Repo, pk)
		}
	}
	sort.Slice(p.Repo, func(i, j int) bool { return p.Repo[i].PkgPath < p.Repo[j].PkgPath })
	if len(p.Repo) < 20 {
		return nil, fmt.Errorf("only %d repository packages loaded (expected >= 20)", len(p.Repo))
	}
	// index functions of the repository (twice when functions were renamed: the
	// second pass names them, and their closures, after the known function they
	// replace)
	index := func() {
		p.funcs = map[string]*ssa.Function{}
		for fn := range ssautil.AllFunctions(prog) {
			if fn.Pkg == nil && fn.Origin() == nil {
				// synthetic wrappers etc. of non-generic origin
				if fn.Object() == nil {
					continue
				}
			}
			pkg := fnPkgPath(fn)
			if !strings.HasPrefix(pkg, modPath) {
				continue
			}
			if fn.Synthetic != "" && fn.Origin() == nil && fn.Synthetic != "package initializer" {
				continue // wrappers, bound methods, thunks
			}
			name := QualName(fn)
			if old, ok := p.funcs[name]; ok {
				// prefer instantiation with body
				if old.Blocks != nil {
					continue
				}
			}
			p.funcs[name] = fn
		}
		// methods of (possibly generic) named types that nothing instantiates
		for _, pk := range p.Repo {
			sc := pk.Types.Scope()
			for _, n := range sc.Names() {
				tn, ok := sc.Lookup(n).(*types.TypeName)
				if !ok {
					continue
				}
				named, ok := tn.Type().(*types.Named)
				if !ok {
					continue
				}
				for i := 0; i < named.NumMethods(); i++ {
					f := prog.FuncValue(named.Method(i))
					if f == nil || f.Blocks == nil {
						continue
					}
					var add func(f *ssa.Function)
					add = func(f *ssa.Function) {
						name := QualName(f)
						if old, ok := p.funcs[name]; !ok || old.Blocks == nil {
							p.funcs[name] = f
						}
						for _, af := range f.AnonFuncs {
							add(af)
						}
					}
					add(f)
				}
			}
		}

	}
	index()
	if resolveRenames(p) {
		anonRoleCache = map[*ssa.Function]string{}
		index()
	}
	if resolveCallbacks(p) {
		anonRoleCache = map[*ssa.Function]string{}
		index()
	}
	detectHolders(p)
	curProgram = p
	return p, nil
}

func fnPkgPath(fn *ssa.Function) string {
	if fn.Pkg != nil {
		return fn.Pkg.Pkg.Path()
	}
	if o := fn.Origin(); o != nil && o.Pkg != nil {
		return o.Pkg.Pkg.Path()
	}
	if fn.Parent() != nil {
		return fnPkgPath(fn.Parent())
	}
	if fn.Object() != nil && fn.Object().Pkg() != nil {
		return fn.Object().Pkg().Path()
	}
	return ""
}

func shortPkg(path string) string {
	if path == modPath {
		return "."
	}
	return strings.TrimPrefix(path, modPath+"/")
}

// funcAlias: functions of the current tree that stand for a known function
// under a new name (see resolveRenames).
var funcAlias = map[*ssa.Function]string{}

// sigKey renders a signature without parameter names.
func sigKey(sig *types.Signature) string {
	var b strings.Builder
	for i := 0; i < sig.Params().Len(); i++ {
		b.WriteString(types.TypeString(sig.Params().At(i).Type(), nil) + ",")
	}
	if sig.Variadic() {
		b.WriteString("...")
	}
	b.WriteString("->")
	for i := 0; i < sig.Results().Len(); i++ {
		b.WriteString(types.TypeString(sig.Results().At(i).Type(), nil) + ",")
	}
	return b.String()
}

// extCallees: the sorted external callees (and builtins) of a function: a
// fingerprint that does not change when repository functions are renamed.
func extCallees(fn *ssa.Function) string {
	set := map[string]bool{}
	for _, b := range fn.Blocks {
		for _, in := range b.Instrs {
			ci, ok := in.(ssa.CallInstruction)
			if !ok {
				continue
			}
			cc := ci.Common()
			if bi, ok := cc.Value.(*ssa.Builtin); ok {
				set["builtin:"+bi.Name()] = true
				continue
			}
			if cc.IsInvoke() {
				set["invoke:"+cc.Method.Name()] = true
				continue
			}
			if f := cc.StaticCallee(); f != nil && !strings.HasPrefix(fnPkgPath(f), modPath) {
				set[shortenExt(f.String())] = true
			}
		}
	}
	var ks []string
	for k := range set {
		ks = append(ks, k)
	}
	sort.Strings(ks)
	return strings.Join(ks, ";")
}

// funcKey: what is recorded per known function: signature # external callees.
func funcKey(fn *ssa.Function) string {
	if fn.Signature == nil {
		return ""
	}
	return sigKey(fn.Signature) + "#" + extCallees(fn)
}

// resolveRenames: a known function that no longer exists and a new function
// with the same package, receiver and signature — exactly one of each — are the
// same function under a new name; it keeps its known name for the rules.
func resolveRenames(p *Program) bool {
	prefixOf := func(name string) string {
		if i := strings.LastIndex(name, "."); i >= 0 {
			return name[:i+1]
		}
		return ""
	}
	sigOf := func(key string) string {
		if i := strings.Index(key, "#"); i >= 0 {
			return key[:i]
		}
		return key
	}
	type cand struct {
		name string
		key  string
		fn   *ssa.Function
	}
	missing := map[string][]cand{} // prefix|sig -> known names without function
	for name, key := range knownFuncs {
		if strings.Contains(name, "$") || key == "" {
			continue
		}
		if _, ok := p.funcs[name]; !ok {
			k := prefixOf(name) + "|" + sigOf(key)
			missing[k] = append(missing[k], cand{name: name, key: key})
		}
	}
	if len(missing) == 0 {
		return false
	}
	fresh := map[string][]cand{}
	for name, fn := range p.funcs {
		if fn.Parent() != nil || fn.Signature == nil {
			continue
		}
		if _, known := knownFuncs[name]; known {
			continue
		}
		k := prefixOf(name) + "|" + sigKey(fn.Signature)
		fresh[k] = append(fresh[k], cand{name: name, key: funcKey(fn), fn: fn})
	}
	found := false
	for k, ms := range missing {
		fs := fresh[k]
		usedF := map[int]bool{}
		usedM := map[int]bool{}
		// first by identical fingerprint (unique on both sides), then what is left
		for mi, m := range ms {
			match, n := -1, 0
			for fi, f := range fs {
				if !usedF[fi] && f.key == m.key {
					match, n = fi, n+1
				}
			}
			if n == 1 {
				dup := 0
				for _, m2 := range ms {
					if m2.key == m.key {
						dup++
					}
				}
				if dup == 1 {
					funcAlias[fs[match].fn] = m.name
					usedF[match], usedM[mi] = true, true
					found = true
				}
			}
		}
		var restM, restF []int
		for mi := range ms {
			if !usedM[mi] {
				restM = append(restM, mi)
			}
		}
		for fi := range fs {
			if !usedF[fi] {
				restF = append(restF, fi)
			}
		}
		if len(restM) == 1 && len(restF) == 1 {
			funcAlias[fs[restF[0]].fn] = ms[restM[0]].name
			found = true
		}
	}
	return found
}

// resolveCallbacks: a known closure P$role no longer exists, but P now passes
// a method value (or a named function) that did not exist before in the same
// role (the closure was turned into a method on a small state struct): that
// function stands for the closure, its receiver's fields for the captured
// variables (see cbEnv).
func resolveCallbacks(p *Program) bool {
	found := false
	parents := map[string]bool{}
	for name := range knownFuncs {
		i := strings.LastIndex(name, "$")
		if i < 0 || strings.Contains(name[:i], "$") {
			continue
		}
		if _, ok := p.funcs[name]; !ok {
			parents[name[:i]] = true
		}
	}
	for parentName := range parents {
		parent := p.funcs[parentName]
		if parent == nil || parent.Blocks == nil {
			continue
		}
		// the same numbering as anonRole: the n-th function in a role is
		// "role", "role2", ... whether it is a closure or a method value
		count := map[string]int{}
		closureOf := func(v ssa.Value) bool {
			for {
				if ct, ok := v.(*ssa.ChangeType); ok {
					v = ct.X
					continue
				}
				break
			}
			if mc, ok := v.(*ssa.MakeClosure); ok {
				f, _ := mc.Fn.(*ssa.Function)
				return f != nil && f.Parent() == parent
			}
			return false
		}
		consider := func(base string, m *ssa.Function) {
			count[base]++
			role := base
			if count[base] > 1 {
				role = fmt.Sprintf("%s%d", base, count[base])
			}
			name := parentName + "$" + role
			if _, isKnown := knownFuncs[name]; !isKnown {
				return
			}
			if _, exists := p.funcs[name]; exists {
				return
			}
			if _, known := knownFuncs[QualName(m)]; known || !strings.HasPrefix(fnPkgPath(m), modPath) {
				return
			}
			if _, done := funcAlias[m]; done {
				return
			}
			funcAlias[m] = name
			found = true
			registerEnv(p, parent, m)
		}
		for _, b := range parent.Blocks {
			for _, in := range b.Instrs {
				switch x := in.(type) {
				case *ssa.Go:
					if closureOf(x.Call.Value) {
						count["go"]++
					} else if m := x.Call.StaticCallee(); m != nil && m.Parent() == nil && m.Synthetic == "" {
						if _, known := knownFuncs[QualName(m)]; !known && strings.HasPrefix(fnPkgPath(m), modPath) {
							consider("go", m)
						}
					}
				case *ssa.Defer:
					if closureOf(x.Call.Value) {
						count["defer"]++
					} else if m := x.Call.StaticCallee(); m != nil && m.Parent() == nil && m.Synthetic == "" {
						if _, known := knownFuncs[QualName(m)]; !known && strings.HasPrefix(fnPkgPath(m), modPath) {
							consider("defer", m)
						}
					}
				case *ssa.Call:
					base := roleOfCallee(&x.Call)
					if base == "" {
						continue
					}
					for _, a := range x.Call.Args {
						if closureOf(a) {
							count[base]++
						} else if m := callbackTarget(p.SSA, a); m != nil {
							consider(base, m)
						}
					}
				}
			}
		}
	}
	return found
}

// registerEnv: a method that stands for a closure: its receiver's struct is
// the callback's environment.
func registerEnv(p *Program, parent, m *ssa.Function) {
	if m.Signature == nil || m.Signature.Recv() == nil {
		return
	}
	t := m.Signature.Recv().Type()
	ptr := false
	if pt, ok := t.(*types.Pointer); ok {
		t, ptr = pt.Elem(), true
	}
	n, ok := t.(*types.Named)
	if !ok {
		return
	}
	stt, ok := n.Underlying().(*types.Struct)
	if !ok {
		return
	}
	// only a type introduced together with the method (a holder for what the
	// closure captured): a type the rules already know keeps its own reading
	if nn, _ := newStructType(n); nn == nil {
		return
	}
	envMethods[m] = &envInfo{parent: parent, named: n, st: stt, ptrRecv: ptr}
	envStructs[n.Obj()] = true
	// the parent's variable(s) bound as the receiver
	for _, b := range parent.Blocks {
		for _, in := range b.Instrs {
			switch x := in.(type) {
			case *ssa.MakeClosure:
				if len(x.Bindings) == 1 && callbackTarget(p.SSA, x) == m {
					if al, ok := x.Bindings[0].(*ssa.Alloc); ok {
						envAllocs[al] = true
					}
				}
			case *ssa.Go:
				if x.Call.StaticCallee() == m && len(x.Call.Args) > 0 {
					if al, ok := x.Call.Args[0].(*ssa.Alloc); ok {
						envAllocs[al] = true
					}
				}
			case *ssa.Defer:
				if x.Call.StaticCallee() == m && len(x.Call.Args) > 0 {
					if al, ok := x.Call.Args[0].(*ssa.Alloc); ok {
						envAllocs[al] = true
					}
				}
			}
		}
	}
}

// curProgram: the program being analysed (one per process).
var curProgram *Program

// newStructType: a named struct type that the functions the rules were
// confirmed on do not mention (introduced by a later refactoring).
func newStructType(t types.Type) (*types.Named, *types.Struct) {
	n, ok := t.(*types.Named)
	if !ok || n.Obj().Pkg() == nil || !strings.HasPrefix(n.Obj().Pkg().Path(), modPath) {
		return nil, nil
	}
	stt, ok := n.Underlying().(*types.Struct)
	if !ok {
		return nil, nil
	}
	tn := n.Obj().Name()
	for k, v := range knownFuncs {
		if strings.Contains(k, "."+tn+")") || strings.Contains(k, "(*"+tn+")") || strings.Contains(v, "."+tn+",") {
			return nil, nil
		}
	}
	return n, stt
}

// holderFree: captured variables of a new struct type that bundle what used to
// be separate captured variables (`var pos sweepPosition` instead of `last` and
// `limitReached`): their fields read like separate captured variables, in the
// closure ("free:<field>") and in the function that declares the variable
// ("alloc:<field>"), as for envInfo.
var holderFree = map[*ssa.FreeVar]*types.Struct{}

func detectHolders(p *Program) {
	for _, fn := range p.funcs {
		if fn.Blocks == nil {
			continue
		}
		for _, b := range fn.Blocks {
			for _, in := range b.Instrs {
				mc, ok := in.(*ssa.MakeClosure)
				if !ok {
					continue
				}
				cl, _ := mc.Fn.(*ssa.Function)
				if cl == nil || cl.Parent() != fn {
					continue
				}
				for i, bnd := range mc.Bindings {
					al, ok := bnd.(*ssa.Alloc)
					if !ok || i >= len(cl.FreeVars) || al.Comment == "" {
						continue
					}
					pt, ok := al.Type().Underlying().(*types.Pointer)
					if !ok {
						continue
					}
					n, stt := newStructType(pt.Elem())
					if n == nil {
						continue
					}
					envStructs[n.Obj()] = true
					envAllocs[al] = true
					holderFree[cl.FreeVars[i]] = stt
				}
			}
		}
	}
}

// envInfo: a method that stands for a closure (resolveCallbacks). The fields
// of its receiver play the part of the closure's captured variables: the
// walker names them like free variables inside the method and like separate
// locals in the function that builds the struct, so that the rules written for
// the closure form read both forms alike.
type envInfo struct {
	parent  *ssa.Function
	named   *types.Named
	st      *types.Struct
	ptrRecv bool
}

var envMethods = map[*ssa.Function]*envInfo{}
var envStructs = map[*types.TypeName]bool{}
var envAllocs = map[*ssa.Alloc]bool{}

// envStructPtr: is t a pointer to a callback environment struct?
func envStructPtr(t types.Type) *types.Struct {
	if len(envStructs) == 0 {
		return nil
	}
	pt, ok := t.Underlying().(*types.Pointer)
	if !ok {
		return nil
	}
	n, ok := pt.Elem().(*types.Named)
	if !ok || !envStructs[n.Obj()] {
		return nil
	}
	stt, _ := n.Underlying().(*types.Struct)
	return stt
}

// envRecv: is v the receiver parameter of a callback method?
func envRecv(v ssa.Value) bool {
	p, ok := v.(*ssa.Parameter)
	if !ok || len(envMethods) == 0 {
		return false
	}
	fn := p.Parent()
	return fn != nil && envMethods[fn] != nil && len(fn.Params) > 0 && fn.Params[0] == p
}

// callbackTarget: the method behind a method value, or the named function,
// passed as a function argument.
func callbackTarget(prog *ssa.Program, v ssa.Value) *ssa.Function {
	for {
		if ct, ok := v.(*ssa.ChangeType); ok {
			v = ct.X
			continue
		}
		break
	}
	switch x := v.(type) {
	case *ssa.MakeClosure:
		f, ok := x.Fn.(*ssa.Function)
		if !ok || f.Parent() != nil || !strings.HasSuffix(f.Name(), "$bound") {
			return nil
		}
		if obj, ok := f.Object().(*types.Func); ok {
			return prog.FuncValue(obj)
		}
	case *ssa.Function:
		if x.Parent() == nil && x.Synthetic == "" {
			return x
		}
	}
	return nil
}

// QualName gives a stable, position-free name: "<pkg-rel-path>.<RelString>",
// e.g. "syncer.(*NativeIterator).Merge", "syncer.(*Syncer).LoadOnce$update".
// Generic instantiations are named after their origin.
func QualName(fn *ssa.Function) string {
	if fn.Parent() != nil {
		// anonymous function: parent name + $role, the role being how the parent
		// uses the closure (stable when other closures are added or removed);
		// falls back to the positional index
		parent := fn.Parent()
		return QualName(parent) + "$" + anonRole(parent, fn)
	}
	f := fn
	if o := fn.Origin(); o != nil {
		f = o
	}
	if a, ok := funcAlias[f]; ok {
		return a
	}
	pkg := fnPkgPath(f)
	var tp *types.Package
	if f.Pkg != nil {
		tp = f.Pkg.Pkg
	}
	rel := f.RelString(tp)
	if strings.HasPrefix(pkg, modPath) {
		return shortPkg(pkg) + "." + rel
	}
	return shortenExt(f.String())
}

var extShort = strings.NewReplacer(
	"github.com/PowerDNS/lmdb-go/lmdbscan", "lmdbscan",
	"github.com/PowerDNS/lmdb-go/lmdb", "lmdb",
	"github.com/PowerDNS/simpleblob", "simpleblob",
	"github.com/CrowdStrike/csproto", "csproto",
	"github.com/sirupsen/logrus", "logrus",
)

func shortenExt(s string) string { return extShort.Replace(s) }

// Func returns the repository function with the given qualified name.
func (p *Program) Func(name string) *ssa.Function {
	fn := p.funcs[name]
	if fn != nil && fn.Blocks == nil {
		// generic origin without body: find an instantiation
		for f := range ssautil.AllFunctions(p.SSA) {
			if f.Origin() == fn && f.Blocks != nil {
				return f
			}
		}
	}
	return fn
}

func (p *Program) Pos(pos token.Pos) string {
	if !pos.IsValid() {
		return "-"
	}
	ps := p.Fset.Position(pos)
	f := strings.TrimPrefix(ps.Filename, p.Dir+"/")
	return fmt.Sprintf("%s:%d", f, ps.Line)
}

// InstrPos returns the best known position for an instruction.
func (p *Program) InstrPos(in ssa.Instruction) string {
	if in == nil {
		return "-"
	}
	if in.Pos().IsValid() {
		return p.Pos(in.Pos())
	}
	// fall back to other instructions in the block, then the function
	if b := in.Block(); b != nil {
		for _, o := range b.Instrs {
			if o.Pos().IsValid() {
				return p.Pos(o.Pos()) + "~"
			}
		}
		if b.Parent() != nil {
			return p.Pos(b.Parent().Pos()) + "~"
		}
	}
	return "-"
}

func (p *Program) TypesPkg(rel string) *types.Package {
	path := modPath
	if rel != "." && rel != "" {
		path = modPath + "/" + rel
	}
	if pk, ok := p.pkgOf[path]; ok {
		return pk.Types
	}
	return nil
}

func (p *Program) Package(rel string) *packages.Package {
	path := modPath
	if rel != "." && rel != "" {
		path = modPath + "/" + rel
	}
	return p.pkgOf[path]
}

// RepoFuncs returns all repository functions with bodies, sorted by name.
func (p *Program) RepoFuncs() []*ssa.Function {
	var out []*ssa.Function
	for _, f := range p.funcs {
		if f.Blocks != nil {
			out = append(out, f)
		}
	}
	sort.Slice(out, func(i, j int) bool { return QualName(out[i]) < QualName(out[j]) })
	return out
}

// roleOfCallee: the role a function argument of this call plays ("update" for
// the body of a write transaction, ...).
func roleOfCallee(c *ssa.CallCommon) string {
	name := ""
	if f := c.StaticCallee(); f != nil {
		name = f.String()
		if a, ok := funcAlias[f]; ok {
			name = a // a renamed repository function keeps its known name
		}
	}
	switch {
	case strings.HasSuffix(name, "lmdb.Env).Update") || strings.HasSuffix(name, "Update$bound"):
		return "update"
	case strings.HasSuffix(name, "lmdb.Env).View") || strings.HasSuffix(name, "View$bound"):
		return "view"
	case strings.HasSuffix(name, "slices.SortFunc") || strings.Contains(name, "slices.SortFunc["):
		return "sort"
	case strings.Contains(name, "lo.Filter"):
		return "filter"
	case strings.HasSuffix(name, "strategy.iterBoth"):
		return "callback"
	case strings.HasSuffix(name, "DBI).Map"):
		return "map"
	case name == "":
		return "txn" // dynamic call through a function value (e.g. inTxn)
	}
	return ""
}

var anonRoleCache = map[*ssa.Function]string{}

// anonRole names an anonymous function by its use in the parent.
func anonRole(parent, fn *ssa.Function) string {
	if r, ok := anonRoleCache[fn]; ok {
		return r
	}
	roles := map[*ssa.Function]string{}
	count := map[string]int{}
	assign := func(f *ssa.Function, base string) {
		if _, done := roles[f]; done {
			return
		}
		count[base]++
		if count[base] == 1 {
			roles[f] = base
		} else {
			roles[f] = fmt.Sprintf("%s%d", base, count[base])
		}
	}
	closureOf := func(v ssa.Value) *ssa.Function {
		for {
			if ct, ok := v.(*ssa.ChangeType); ok {
				v = ct.X
				continue
			}
			if mi, ok := v.(*ssa.MakeInterface); ok {
				v = mi.X
				continue
			}
			break
		}
		switch x := v.(type) {
		case *ssa.MakeClosure:
			if f, ok := x.Fn.(*ssa.Function); ok && f.Parent() == parent {
				return f
			}
		case *ssa.Function:
			if x.Parent() == parent {
				return x
			}
		}
		return nil
	}
	calleeBase := roleOfCallee
	for _, b := range parent.Blocks {
		for _, in := range b.Instrs {
			switch x := in.(type) {
			case *ssa.Go:
				if f := closureOf(x.Call.Value); f != nil {
					assign(f, "go")
				}
			case *ssa.Defer:
				if f := closureOf(x.Call.Value); f != nil {
					assign(f, "defer")
				}
			case *ssa.Call:
				base := calleeBase(&x.Call)
				for _, a := range x.Call.Args {
					if f := closureOf(a); f != nil && base != "" {
						assign(f, base)
					} else if base != "" && callbackTarget(parent.Prog, a) != nil {
						count[base]++ // a method value in this role takes a number too (resolveCallbacks)
					}
				}
			case *ssa.Store:
				if f := closureOf(x.Val); f != nil {
					if fa, ok := x.Addr.(*ssa.FieldAddr); ok {
						if pt, ok := fa.X.Type().Underlying().(*types.Pointer); ok {
							if st, ok := pt.Elem().Underlying().(*types.Struct); ok && fa.Field < st.NumFields() {
								assign(f, st.Field(fa.Field).Name())
							}
						}
					}
				}
			}
		}
	}
	for i, af := range parent.AnonFuncs {
		if _, ok := roles[af]; !ok {
			roles[af] = fmt.Sprint(i + 1)
		}
	}
	for f, r := range roles {
		anonRoleCache[f] = r
	}
	return anonRoleCache[fn]
}
