package main

import (
	"fmt"
	"go/types"
	"strings"

	"golang.org/x/tools/go/ssa"
)

// Rules on the snapshot cleaner (C12, C05-R7) and on who may mutate the bucket.

const (
	fnCleanerRun = "syncer/cleaner.(*Worker).RunOnce"
	blobDelete   = "iface:simpleblob.Interface.Delete"
	blobStore    = "iface:simpleblob.Interface.Store"
	blobList     = "iface:simpleblob.Interface.List"
	blobLoad     = "iface:simpleblob.Interface.Load"
)

// invokeSites lists repository call sites of an interface method.
func invokeSites(p *Program, ifaceSuffix, method string) map[string][]ssa.Instruction {
	out := map[string][]ssa.Instruction{}
	for _, fn := range p.RepoFuncs() {
		for _, b := range fn.Blocks {
			for _, in := range b.Instrs {
				ci, ok := in.(ssa.CallInstruction)
				if !ok {
					continue
				}
				cc := ci.Common()
				if !cc.IsInvoke() || cc.Method.Name() != method {
					continue
				}
				if strings.HasSuffix(typeShort(cc.Value.Type()), ifaceSuffix) {
					out[QualName(fn)] = append(out[QualName(fn)], in)
				}
			}
		}
	}
	return out
}

// offlineCLI: commands that operate on the bucket on explicit operator request
// and are not reachable from Syncer.Sync.
func offlineCLI(fn string) bool {
	return strings.HasPrefix(fn, "cmd/lightningstream/commands.")
}

// C12-R1 WHO may Delete / Store.
func ruleWhoMutatesBucket(c *Check, rule string) {
	del := invokeSites(c.P, "simpleblob.Interface", "Delete")
	sto := invokeSites(c.P, "simpleblob.Interface", "Store")
	nd, ns, bad := 0, 0, 0
	var cli []string
	// a new helper (a function that did not exist when the rules were confirmed)
	// counts as part of the known function(s) it is called from
	del = attributeToOwners(c.P, del)
	sto = attributeToOwners(c.P, sto)
	for fn, ins := range del {
		switch {
		case fn == fnCleanerRun:
			nd += len(ins)
		case offlineCLI(fn):
			cli = append(cli, fn)
		default:
			bad++
			c.Bad(rule, "delete-site:"+fn, "simpleblob Delete is called from "+fn+"; only the cleaner's RunOnce may delete blobs (offline CLI commands excepted)", c.P.InstrPos(ins[0]), nil)
		}
	}
	for fn, ins := range sto {
		switch {
		case fn == fnSendOnce:
			ns += len(ins)
		case offlineCLI(fn):
			cli = append(cli, fn)
		default:
			bad++
			c.Bad(rule, "store-site:"+fn, "simpleblob Store is called from "+fn+"; only SendOnce may store blobs (offline CLI commands excepted)", c.P.InstrPos(ins[0]), nil)
		}
	}
	// the CLI commands must not be reachable from the sync loop
	reach := reachable(c.P, "syncer.(*Syncer).Sync", "syncer/cleaner.(*Worker).Run", "syncer/receiver.(*Receiver).Run", "syncer/sweeper.(*Sweeper).Run")
	for f := range reach {
		if offlineCLI(QualName(f)) {
			bad++
			c.Bad(rule, "cli-reachable:"+QualName(f), "an offline CLI function is reachable from the sync loop", c.P.Pos(f.Pos()), nil)
		}
	}
	if bad == 0 {
		sortStrings(cli)
		c.Ok(rule, "bucket-mutators", fmt.Sprintf("Delete is called at %d sites, all in the cleaner's RunOnce; Store at %d site(s), in SendOnce; offline CLI commands (explicit allow-list, not reachable from Sync): %v; %d functions reachable from the sync loop examined", nd, ns, dedupS(cli), len(reach)), "")
	}
	c.Floor(rule, nd, 2, "Delete sites in cleaner.RunOnce")
	c.Floor(rule, ns, 1, "Store sites in SendOnce")
}

func dedupS(xs []string) []string {
	m := map[string]bool{}
	var out []string
	for _, x := range xs {
		if !m[x] {
			m[x] = true
			out = append(out, x)
		}
	}
	return out
}

func cleanerPaths(c *Check, rule string) (*ssa.Function, []Path) {
	return c.walkFn(rule, fnCleanerRun, WalkConfig{Memo: true,
		KeepEvent: func(e *Event) bool {
			switch e.Kind {
			case "ret":
				return true
			case "mapupdate", "store":
				return !strings.Contains(e.Addr, "makemap") && !strings.Contains(e.Addr, "varargs")
			case "call":
				for _, s := range []string{"Interface.", "ParseName", "BlobList).Names", "lo.Filter", "SortFunc", "builtin:append", "GetCommitted", "(time.Time)", "builtin:delete"} {
					if strings.Contains(e.Callee, s) {
						return true
					}
				}
			}
			return false
		},
		KeepAtom: func(a Atom) bool {
			s := a.String()
			for _, k := range []string{"Enabled", "Interface.", "ParseName@", "Kind", "ignoredFilenames", "(time.Time)", "rangeindex", "seen"} {
				if strings.Contains(s, k) {
					return true
				}
			}
			return false
		}})
}

// C12-R2..R6 on RunOnce and its closures.
func ruleCleanerDeletes(c *Check, rWhat, rKeep, rNewest, rStale, rErrors, rDisabled string) {
	fn, paths := cleanerPaths(c, rWhat)
	if paths == nil {
		return
	}
	pos := c.P.Pos(fn.Pos())
	w := param(fn, 0)
	nDel1, nDel2, bad := 0, 0, 0
	badErr, badStale := 0, 0
	nAppend := 0
	// roles, discovered from the calls (not from source names): the candidate
	// list is what is sorted; the comparator and the two filters are the
	// function arguments of SortFunc / lo.Filter in call order
	candVar, sortFn, filter1, filter2 := "", "", "", ""
	for i := range paths {
		p := &paths[i]
		fl := callsOf(p, "github.com/samber/lo.Filter")
		so := callsOf(p, "slices.SortFunc")
		if len(fl) == 2 && len(so) == 1 && len(so[0].Args) == 2 {
			candVar = so[0].Args[0]
			sortFn = strings.TrimPrefix(strings.TrimPrefix(so[0].Args[1], "func:"), "closure:")
			filter1 = strings.TrimPrefix(fl[0].Args[1], "closure:")
			filter2 = strings.TrimPrefix(fl[1].Args[1], "closure:")
		}
	}
	if candVar == "" || c.P.Func(sortFn) == nil || c.P.Func(filter1) == nil || c.P.Func(filter2) == nil {
		c.Undecided(rWhat, fnCleanerRun+"/chain", "expected sort(candidates) followed by two lo.Filter calls with function arguments", pos)
		return
	}
	// the stale list: the slice of NameInfo that the second filter appends to
	tooOld := freeOfType(c.P.Func(filter2), func(t types.Type) bool {
		sl, ok := t.Underlying().(*types.Slice)
		return ok && strings.HasSuffix(types.TypeString(sl.Elem(), nil), "snapshot.NameInfo")
	})
	seenInst := freeOfType(c.P.Func(filter2), func(t types.Type) bool {
		_, ok := t.Underlying().(*types.Map)
		return ok
	})
	for i := range paths {
		p := &paths[i]
		en, ef := condTruth(p, ".conf.Enabled", -1)
		calls := p.Calls(func(s string) bool { return strings.HasPrefix(s, "iface:simpleblob.Interface.") })
		if ef && !en {
			if len(calls) != 0 || !(p.End == "return" && retIsNilErr(p)) {
				c.Bad(rDisabled, fnCleanerRun+"/disabled", "a disabled cleaner touches the storage", c.pathPos(p), describe(c, p))
			} else {
				c.Ok(rDisabled, fnCleanerRun+"/disabled", "with Cleanup.Enabled == false RunOnce returns before any storage call", c.pathPos(p))
			}
			continue
		}
		lists := callsOf(p, blobList)
		if len(lists) == 0 && len(calls) == 0 && p.End == "return" && len(p.Rets) > 0 && !retIsNilErr(p) {
			continue // refused before any storage call (a defensive check): nothing can be deleted
		}
		if len(lists) != 1 || lists[0].Args[2] != w+".prefix" {
			bad++
			c.Bad(rWhat, fnCleanerRun+"/listing", "the cleaner does not list exactly its own prefix w.prefix once", c.pathPos(p), nil)
			continue
		}
		L := lists[0]
		lok, lf := boolCond(p, "isnil("+L.Res+"#1)", -1)
		dels := callsOf(p, blobDelete)
		if lf && !lok {
			if len(dels) != 0 || !(p.End == "return" && !retIsNilErr(p)) {
				badErr++
				c.Bad(rErrors, fnCleanerRun+"/list-error", "a failing List does not end the run before any Delete", c.pathPos(p), describe(c, p))
			}
			continue
		}
		// candidates: appended only for parsed snapshot names of the listing
		for _, ap := range callsOf(p, "builtin:append") {
			if ap.Args[0] != candVar {
				continue
			}
			nAppend++
			pn := callsOf(p, "snapshot.ParseName")
			nm := callsOf(p, "(simpleblob.BlobList).Names")
			ok := len(pn) == 1 && len(nm) == 1 && nm[0].Args[0] == L.Res+"#0" && strings.HasPrefix(pn[0].Args[0], nm[0].Res+"[") && ap.Args[1] == "["+pn[0].Res+"#0]"
			if ok {
				perr, f1 := boolCond(p, "isnil("+pn[0].Res+"#1)", -1)
				kind := p.State.RelOf("str", pn[0].Res+"#0.Kind", "const:\"snapshot\"")
				ok = f1 && perr && kind == EQ
			}
			if !ok {
				bad++
				c.Bad(rWhat, fnCleanerRun+"/candidate", "a removal candidate is added that is not the successfully parsed NameInfo, of kind snapshot, of a name in this cleaner's own listing", evPos(c, ap), describe(c, p))
			}
		}
		for _, d := range dels {
			arg := d.Args[2]
			switch {
			case strings.HasPrefix(arg, "github.com/samber/lo.Filter@"):
				nDel1++
				// chain: Filter($3) of Filter($2) of the sorted candidates
				fl := callsOf(p, "github.com/samber/lo.Filter")
				so := callsOf(p, "slices.SortFunc")
				ok := len(fl) == 2 && len(so) == 1 &&
					strings.HasPrefix(arg, fl[1].Res+"[") && strings.HasSuffix(arg, "].FullName") &&
					fl[1].Args[0] == fl[0].Res && fl[0].Args[0] == candVar && strings.HasPrefix(candVar, "loop:") &&
					so[0].Args[0] == fl[0].Args[0] &&
					eventIndex(p, so[0]) < eventIndex(p, fl[0]) && eventIndex(p, fl[0]) < eventIndex(p, fl[1])
				if !ok {
					bad++
					c.Bad(rWhat, fnCleanerRun+"/superseded-delete", "the first Delete does not delete the FullName of an element of Filter(newest-protected) ∘ Filter(keep-interval) ∘ sort(newest first) of the candidates", evPos(c, d), describe(c, p))
				}
			case tooOld != "" && strings.HasPrefix(arg, "local:"+tooOld+"["):
				nDel2++
				elem := strings.TrimSuffix(arg, ".FullName")
				gc := callsOf(p, "syncer/cleaner.(*Worker).GetCommitted")
				ok := len(gc) == 1 && gc[0].Args[1] == elem+".InstanceID"
				if ok {
					after, f := boolCond(p, "(time.Time).After("+elem+".Timestamp, "+gc[0].Res+")", eventIndex(p, d))
					ok = f && !after
				}
				if !ok {
					badStale++
					c.Bad(rStale, fnCleanerRun+"/stale-delete", "the newest snapshot of a stale instance is deleted on a path that has not established !snapshot.Timestamp.After(GetCommitted(instance)) for that same snapshot: it may not have been merged and re-published yet", evPos(c, d), describe(c, p))
				}
			default:
				bad++
				c.Bad(rWhat, fnCleanerRun+"/delete-origin", "Delete of "+arg+": not the FullName of a filtered candidate or of a stale-instance entry", evPos(c, d), describe(c, p))
			}
			// a Delete error only counts; nothing else changes
			if dok, f := boolCond(p, "isnil("+d.Res+")", -1); f && !dok {
				for _, e := range p.Events[eventIndex(p, d):] {
					if (e.Kind == "store" || e.Kind == "mapupdate") && !strings.Contains(e.Addr, "nError") {
						badErr++
						c.Bad(rErrors, fnCleanerRun+"/delete-error", "a failing Delete modifies cleaner state ("+e.Addr+")", c.P.InstrPos(e.Instr), nil)
					}
				}
				if !strings.HasPrefix(p.End, "backedge:") {
					badErr++
					c.Bad(rErrors, fnCleanerRun+"/delete-error-continues", "a failing Delete does not simply continue with the next candidate", c.pathPos(p), nil)
				}
			}
		}
	}
	if bad == 0 {
		c.Ok(rWhat, fnCleanerRun+"/what-is-deleted", fmt.Sprintf("%d candidate appends: only successfully parsed NameInfos of kind snapshot from List(ctx, w.prefix); %d superseded-snapshot Delete paths delete FullName of Filter(newest-protection)∘Filter(keep-interval)∘sort(newest first) of those candidates; %d stale-instance Delete paths delete FullName of a tooOld entry", nAppend, nDel1, nDel2), pos)
	}
	c.Floor(rWhat, nDel1, 1, "superseded-snapshot Delete paths")
	c.Floor(rWhat, nAppend, 1, "candidate appends")
	if badStale == 0 {
		c.Ok(rStale, fnCleanerRun+"/stale-delete", fmt.Sprintf("all %d stale-instance Delete paths pass the false edge of ni.Timestamp.After(GetCommitted(ni.InstanceID)) for the same entry", nDel2), pos)
	}
	c.Floor(rStale, nDel2, 1, "stale-instance Delete paths")
	if badErr == 0 {
		c.Ok(rErrors, fnCleanerRun+"/errors-safe", "a List error returns before any Delete; a Delete error only increments the error counter and continues", pos)
	}
	// prefix
	nf, np := c.walkFn(rWhat, "syncer/cleaner.New", WalkConfig{})
	if np != nil {
		okp := false
		for _, p := range np {
			for k, v := range p.Store {
				if strings.HasSuffix(k, ".prefix") && v == "("+param(nf, 0)+" + const:\"__\")" {
					okp = true
				}
			}
		}
		c.Expect(okp, rWhat, "syncer/cleaner.New/prefix", "the cleaner's prefix is its database name + \"__\"", "the cleaner's listing prefix is not name + \"__\"", c.P.Pos(nf.Pos()))
	}

	// closure tables
	// $1 comparator: newest first
	c1n := sortFn
	f1, p1 := c.walkFn(rNewest, c1n, WalkConfig{})
	if p1 != nil {
		a, b := param(f1, 0), param(f1, 1)
		aft, bef := "(time.Time).After("+a+".Timestamp, "+b+".Timestamp)", "(time.Time).Before("+a+".Timestamp, "+b+".Timestamp)"
		okc := len(p1) == 3
		if len(p1) == 1 && len(p1[0].Rets) == 1 {
			// the library's three-way comparison with the operands swapped:
			// b.Timestamp.Compare(a.Timestamp) is −1 when a is after b
			for _, e := range callsOf(&p1[0], "(time.Time).Compare") {
				if e.Res == p1[0].Rets[0] && len(e.Args) == 2 && e.Args[0] == b+".Timestamp" && e.Args[1] == a+".Timestamp" {
					okc = true
					p1 = nil
				}
			}
		}
		for i := range p1 {
			p := &p1[i]
			at, af := boolCond(p, aft, -1)
			bt, bf := boolCond(p, bef, -1)
			switch {
			case af && at:
				okc = okc && p.Rets[0] == "const:-1"
			case af && !at && bf && bt:
				okc = okc && p.Rets[0] == "const:1"
			case af && !at && bf && !bt:
				okc = okc && p.Rets[0] == "const:0"
			default:
				okc = false
			}
		}
		c.Expect(okc, rNewest, c1n, "the sort comparator orders candidates newest first at full timestamp resolution: a after b ⇒ −1, a before b ⇒ +1, otherwise 0", "the sort comparator is not 'newest first' on the full timestamps (After ⇒ −1, Before ⇒ +1, else 0): the entry treated as an instance's newest would be wrong", c.P.Pos(f1.Pos()))
	}
	// $2 keep interval
	c2n := filter1
	f2, p2 := c.walkFn(rKeep, c2n, WalkConfig{})
	if p2 != nil {
		ni := param(f2, 0)
		ok2 := true
		nTrue := 0
		wF := "*free:" + freeOfType(f2, func(t types.Type) bool { return strings.HasSuffix(types.TypeString(t, nil), "cleaner.Worker") })
		nowF := "*free:" + freeOfType(f2, func(t types.Type) bool { return types.TypeString(t, nil) == "time.Time" })
		for i := range p2 {
			p := &p2[i]
			lk := ""
			for _, e := range p.Events {
				if e.Kind == "cond" && strings.HasPrefix(e.Cond.Atom.A, "lookup("+wF+".snapFirstSeen,"+ni+".FullName)@") {
					lk = strings.TrimSuffix(e.Cond.Atom.A, "#1")
				}
			}
			exists, ef := boolCond(p, lk+"#1", -1)
			age := "(time.Time).Sub(" + nowF + ", " + lk + "#0)"
			r := p.State.RelOf("int", age, wF+".conf.MustKeepInterval")
			ret := p.Rets[0]
			switch {
			case lk == "" || !ef:
				ok2 = false
			case !exists:
				// first seen now; never deletable in this run
				set := false
				for _, e := range p.Events {
					if e.Kind == "mapupdate" && e.Addr == wF+".snapFirstSeen" && e.Key == ni+".FullName" && e.Val == nowF {
						set = true
					}
				}
				ok2 = ok2 && ret == "const:false" && set
			case r == GT:
				nTrue++
				ok2 = ok2 && ret == "const:true"
			case r&GT == 0:
				ok2 = ok2 && ret == "const:false"
			default:
				ok2 = false
			}
		}
		c.Expect(ok2 && nTrue == 1, rKeep, c2n, "a candidate passes the keep-interval filter only when it was already in snapFirstSeen and now − firstSeen > MustKeepInterval (strictly); a name seen for the first time is recorded with 'now' and kept", "the keep-interval filter lets a candidate through that was not first seen strictly more than MustKeepInterval ago (or does not record the first-seen time)", c.P.Pos(f2.Pos()))
	}
	// $3 newest protected
	c3n := filter2
	f3, p3 := c.walkFn(rNewest, c3n, WalkConfig{})
	if p3 != nil {
		ni := param(f3, 0)
		ok3 := true
		nPass, nOld := 0, 0
		wF := "*free:" + freeOfType(f3, func(t types.Type) bool { return strings.HasSuffix(types.TypeString(t, nil), "cleaner.Worker") })
		nowF := "*free:" + freeOfType(f3, func(t types.Type) bool { return types.TypeString(t, nil) == "time.Time" })
		for i := range p3 {
			p := &p3[i]
			seenT, sf := condTruth(p, "lookup(*free:"+seenInst+","+ni+".InstanceID)@", -1)
			ret := p.Rets[0]
			if !sf {
				ok3 = false
				continue
			}
			if seenT {
				nPass++
				ok3 = ok3 && ret == "const:true"
				continue
			}
			marked := false
			for _, e := range p.Events {
				if e.Kind == "mapupdate" && e.Addr == "*free:"+seenInst && e.Key == ni+".InstanceID" && e.Val == "const:true" {
					marked = true
				}
			}
			ok3 = ok3 && ret == "const:false" && marked
			for _, e := range p.Events {
				if e.Kind == "store" && e.Addr == "free:"+tooOld {
					nOld++
					r := p.State.RelOf("int", "(time.Time).Sub("+nowF+", "+ni+".Timestamp)", wF+".conf.RemoveOldInstancesInterval")
					ap := callsOf(p, "builtin:append")
					ok3 = ok3 && r == GT && len(ap) == 1 && ap[0].Args[1] == "["+ni+"]" && ap[0].Args[0] == "*free:"+tooOld
				}
			}
		}
		c.Expect(ok3 && nPass == 1 && nOld == 1, rNewest, c3n, "an entry passes the second filter (becomes deletable) only when a newer entry of the same instance was already seen in this newest-first pass; the first (newest) entry of an instance is kept and enters the stale list only when now − timestamp > RemoveOldInstancesInterval", "the newest-protection filter lets an instance's first (newest) entry through, or files entries as stale without the age test", c.P.Pos(f3.Pos()))
	}
	// tooOld writers: only $3
	for _, f := range c.P.RepoFuncs() {
		if !strings.HasPrefix(QualName(f), fnCleanerRun) || QualName(f) == c3n {
			continue
		}
		for _, b := range f.Blocks {
			for _, in := range b.Instrs {
				if st, ok := in.(*ssa.Store); ok {
					if a, ok := st.Addr.(*ssa.Alloc); ok && a.Comment == tooOld && a.Parent() == fn {
						if k, isK := st.Val.(*ssa.Const); isK && k.Value == nil {
							continue // initial nil
						}
						c.Bad(rStale, QualName(f)+"/tooOld-writer", "the stale-instance list is written outside the newest-protection filter", c.P.InstrPos(in), nil)
					}
				}
			}
		}
	}
}

// C12-R7 RECEIVE-ONLY: the cleaner is disabled in receive-only mode.
func ruleReceiveOnlyCleaner(c *Check, rule string) {
	name := "syncer.New"
	fn, paths := c.walkFn(rule, name, WalkConfig{Memo: true,
		KeepEvent: func(e *Event) bool {
			return e.Kind == "ret" || e.Kind == "call" && strings.Contains(e.Callee, "cleaner.New") || e.Kind == "store" && strings.Contains(e.Addr, ".Enabled")
		},
		KeepAtom: func(a Atom) bool { return strings.Contains(a.String(), "ReceiveOnly") }})
	if paths == nil {
		return
	}
	n, bad := 0, 0
	for i := range paths {
		p := &paths[i]
		for _, cn := range callsOf(p, "syncer/cleaner.New") {
			n++
			ro, f := condTruth(p, "ReceiveOnly", eventIndex(p, cn))
			conf := cn.Args[2]
			if !f {
				bad++
				c.Bad(rule, name+"/cleaner-conf", "the cleaner is constructed without looking at ReceiveOnly", evPos(c, cn), nil)
				continue
			}
			if ro {
				en, _ := litField(conf, "Enabled")
				if !(conf == "{Enabled: const:false}" || en == "const:false" && !strings.Contains(conf, "param:")) {
					bad++
					c.Bad(rule, name+"/cleaner-disabled-receive-only", "in receive-only mode the cleaner is constructed with "+conf+" instead of a disabled configuration: a receive-only instance could delete snapshots", evPos(c, cn), describe(c, p))
				}
			} else if !strings.Contains(conf, "Storage.Cleanup") {
				bad++
				c.Bad(rule, name+"/cleaner-conf-normal", "outside receive-only mode the cleaner does not get the configured Storage.Cleanup: "+conf, evPos(c, cn), nil)
			}
		}
	}
	if bad == 0 && n >= 2 {
		c.Ok(rule, name+"/cleaner-disabled-receive-only", fmt.Sprintf("%d construction paths: receive-only ⇒ Cleanup{Enabled:false}; otherwise the configured Storage.Cleanup", n), c.P.Pos(fn.Pos()))
	}
	c.Floor(rule, n, 2, "cleaner construction paths")
	// cleaner.Run waits for cancellation when disabled
	rn := "syncer/cleaner.(*Worker).Run"
	rf, rp := c.walkFn(rule, rn, WalkConfig{})
	if rp != nil {
		okr := false
		for i := range rp {
			p := &rp[i]
			if en, f := condTruth(p, ".conf.Enabled", -1); f && !en {
				okr = len(callsOf(p, fnCleanerRun)) == 0 && p.End == "return"
			}
		}
		c.Expect(okr, rule, rn+"/disabled", "a disabled cleaner's Run only waits for cancellation", "a disabled cleaner's Run does more than wait for cancellation", c.P.Pos(rf.Pos()))
	}
}

// attributeToOwners re-keys call sites found in unknown helpers to the known
// functions that (transitively, through unknown helpers only) call them; a
// site reached from several call sites of its owner counts once per call site.
func attributeToOwners(p *Program, sites map[string][]ssa.Instruction) map[string][]ssa.Instruction {
	out := map[string][]ssa.Instruction{}
	var owners func(fn *ssa.Function, depth int) []*ssa.Function
	owners = func(fn *ssa.Function, depth int) []*ssa.Function {
		if fn == nil || depth > 5 || !unknownHelper(fn, 0) {
			return []*ssa.Function{fn}
		}
		var res []*ssa.Function
		for _, g := range p.RepoFuncs() {
			for _, b := range g.Blocks {
				for _, in := range b.Instrs {
					if ci, ok := in.(ssa.CallInstruction); ok && ci.Common().StaticCallee() == fn {
						res = append(res, owners(g, depth+1)...)
					}
				}
			}
		}
		if len(res) == 0 {
			return []*ssa.Function{fn}
		}
		return res
	}
	for name, ins := range sites {
		fn := p.Func(name)
		for _, o := range owners(fn, 0) {
			key := name
			if o != nil {
				key = QualName(o)
			}
			out[key] = append(out[key], ins...)
		}
	}
	return out
}
