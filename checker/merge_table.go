package main

import (
	"fmt"
	"sort"
	"strings"

	"golang.org/x/tools/go/ssa"
)

// ---------------------------------------------------------------------------
// T-MERGE / T-CLEAN: the decision tables of (*NativeIterator).Merge and Clean
// (with addHeader and the small flag helpers inlined), and their evaluation on
// representative versions.
// ---------------------------------------------------------------------------

// Ver is the logical content of a stored entry.
type Ver struct {
	Present bool
	TS      uint64
	Del     bool
	Val     string
}

func (v Ver) String() string {
	if !v.Present {
		return "⊥"
	}
	d := "live"
	if v.Del {
		d = "del"
	}
	return fmt.Sprintf("(ts=%d,%s,%q)", v.TS, d, v.Val)
}

// In is an incoming snapshot entry together with the per-merge configuration.
type In struct {
	TS    uint64
	Flags uint64 // raw KV.Flags
	Val   string
	FV    uint64 // snapshot format version
}

func (i In) String() string {
	return fmt.Sprintf("in(ts=%d,flags=%d,%q,fv=%d)", i.TS, i.Flags, i.Val, i.FV)
}

// Logical gives the logical version an incoming entry denotes under the
// documented meaning: deleted flag (bit 0), and in format version 1 an empty
// value denotes a deletion; a deleted entry has no value.
func (i In) Logical(ts uint64) Ver {
	del := i.Flags&1 != 0 || (i.FV < 2 && len(i.Val) == 0)
	v := Ver{Present: true, TS: ts, Del: del, Val: i.Val}
	if del {
		v.Val = ""
	}
	return v
}

type MCfg struct {
	DefTS  uint64
	Cutoff uint64
	Pad    bool
	CapBuf uint64
}

type Outcome struct {
	Kind string // KEEP, TAKE, DROP, ERR, NONE(no path), AMBIG
	Ver  Ver    // TAKE: what is written
	TxID string // TAKE: origin of the txn id written
	Path int
}

type MergeTable struct {
	Fn      *ssa.Function
	Name    string
	Paths   []Path
	recv    string // "param:it"
	old     string // "param:oldval"
	parse   string
	memo    map[string]Outcome
	Lookups int
	consts  map[string][]int64 // role kind -> constants compared with it
}

func inlineSmall(names ...string) func(*ssa.Function, int) bool {
	set := map[string]bool{}
	for _, n := range names {
		set[n] = true
	}
	return func(f *ssa.Function, depth int) bool {
		return depth <= 3 && set[QualName(f)]
	}
}

// mergeInline: inline every small loop-free repository helper (so that the
// table does not depend on how the routine is split into helper functions),
// except the header codec, which is an effect/opaque pure function here.
func mergeInline(f *ssa.Function, depth int) bool {
	if depth > 4 || f.Blocks == nil || len(f.Blocks) > 60 {
		return false
	}
	if !strings.HasPrefix(fnPkgPath(f), modPath) {
		return false
	}
	switch QualName(f) {
	case "lmdbenv/header.PutBasic", "lmdbenv/header.Parse", "lmdbenv/header.Skip", "syncer.(*NativeIterator).logDebugValue":
		return false
	}
	for _, b := range f.Blocks {
		for _, s := range b.Succs {
			if s.Dominates(b) {
				return false // loops are not inlined
			}
		}
	}
	return true
}

func BuildMergeTable(c *Check, fname string) *MergeTable {
	fn := c.P.Func(fname)
	if fn == nil || fn.Blocks == nil {
		c.Undecided("T-MERGE", fname, "function not found", "")
		return nil
	}
	c.UseFunc(fname, "syncer.(*NativeIterator).addHeader", "snapshot.(*KV).MaskedFlags", "lmdbenv/header.(Flags).Masked", "lmdbenv/header.(Flags).IsDeleted")
	w := Walk(c.P, fn, WalkConfig{Inline: mergeInline})
	if w.Err != nil {
		c.Undecided("T-MERGE", fname, "path walk failed: "+w.Err.Error(), c.P.Pos(fn.Pos()))
		return nil
	}
	c.Evaluations += len(w.Paths)
	if len(fn.Params) < 2 {
		c.Undecided("T-MERGE", fname, "unexpected signature", c.P.Pos(fn.Pos()))
		return nil
	}
	t := &MergeTable{Fn: fn, Name: fname, Paths: w.Paths, memo: map[string]Outcome{}, consts: map[string][]int64{}}
	t.recv = "param:" + fn.Params[0].Name()
	t.old = "param:" + fn.Params[1].Name()
	t.parse = "lmdbenv/header.Parse(" + t.old + ")"
	// constants the table compares role quantities with: they extend the universe
	for _, p := range t.Paths {
		for _, cd := range p.Conds() {
			a := cd.Atom
			if a.Kind != "cmp" || a.Dom != "int" {
				continue
			}
			for _, pr := range [][2]string{{a.A, a.B}, {a.B, a.A}} {
				if k, ok := constInt(pr[1]); ok {
					switch {
					case strings.Contains(pr[0], "Timestamp") || strings.Contains(pr[0], "Cutoff"):
						t.consts["ts"] = append(t.consts["ts"], k)
					case strings.HasPrefix(pr[0], "len("):
						t.consts["len"] = append(t.consts["len"], k)
					case strings.Contains(pr[0], "FormatVersion"):
						t.consts["fv"] = append(t.consts["fv"], k)
					}
				}
			}
		}
	}
	return t
}

func (t *MergeTable) bindings(st Ver, in In, cfg MCfg) Bindings {
	b := Bindings{}
	r := t.recv
	if st.Present {
		// a faithful stored value: documented 24-byte header + application value
		hdr := make([]byte, 24, 24+len(st.Val))
		for i := 0; i < 8; i++ {
			hdr[i] = byte(st.TS >> (8 * (7 - i)))
		}
		hdr[15] = 9 // txn id of an earlier transaction
		if st.Del {
			hdr[17] = 1
		}
		b[t.old] = Bv(append(hdr, st.Val...))
		b[t.parse+"#0.Timestamp"] = U(st.TS)
		fl := uint64(0)
		if st.Del {
			fl = 1
		}
		b[t.parse+"#0.Flags"] = U(fl)
		b[t.parse+"#1"] = Bv([]byte(st.Val))
		b[t.parse+"#2"] = TVal{K: "b", B: nil}
	} else {
		b[t.old] = TVal{K: "b", B: nil}
	}
	b[r+".curKV.TimestampNano"] = U(in.TS)
	b[r+".curKV.Value"] = Bv([]byte(in.Val))
	if in.Val == "" {
		b[r+".curKV.Value"] = Bv([]byte{})
	}
	b[r+".curKV.Flags"] = U(in.Flags)
	b[r+".curKV.Key"] = Bv([]byte("k"))
	b[r+".DefaultTimestampNano"] = U(cfg.DefTS)
	b[r+".DeletedCutoff"] = U(cfg.Cutoff)
	b[r+".FormatVersion"] = U(in.FV)
	b[r+".HeaderPaddingBlock"] = Tv(cfg.Pad)
	b[r+".TxnID"] = U(777)
	b["cap("+r+".buf)"] = U(cfg.CapBuf)
	return b
}

// Apply looks the decision for (stored, incoming, cfg) up in the table.
func (t *MergeTable) Apply(st Ver, in In, cfg MCfg) (Outcome, error) {
	key := fmt.Sprintf("%v|%v|%v", st, in, cfg)
	if o, ok := t.memo[key]; ok {
		return o, nil
	}
	t.Lookups++
	bind := t.bindings(st, in, cfg)
	idx, err := SelectPaths(t.Paths, bind)
	if err != nil {
		return Outcome{}, err
	}
	var o Outcome
	switch len(idx) {
	case 0:
		o = Outcome{Kind: "NONE", Path: -1}
	case 1:
		o, err = t.outcome(idx[0], bind)
		if err != nil {
			return o, err
		}
	default:
		o = Outcome{Kind: "AMBIG", Path: idx[0]}
	}
	t.memo[key] = o
	return o, nil
}

func (t *MergeTable) outcome(i int, bind Bindings) (Outcome, error) {
	p := &t.Paths[i]
	o := Outcome{Path: i}
	if p.End != "return" || len(p.Rets) != 2 {
		o.Kind = "ERR"
		if p.End == "panic" {
			o.Kind = "PANIC"
		}
		return o, nil
	}
	if p.Rets[1] != "nil" {
		o.Kind = "ERR"
		return o, nil
	}
	switch p.Rets[0] {
	case t.old:
		o.Kind = "KEEP"
		return o, nil
	case "nil":
		o.Kind = "DROP"
		return o, nil
	}
	// TAKE: header fields from the PutBasic call, value from the last append
	var put *Event
	var lastAppend *Event
	for j := range p.Events {
		e := &p.Events[j]
		if e.Kind != "call" {
			continue
		}
		if e.Callee == "lmdbenv/header.PutBasic" {
			if put != nil {
				return o, fmt.Errorf("path %d: more than one PutBasic", i)
			}
			put = e
		}
		if e.Callee == "builtin:append" {
			lastAppend = e
		}
	}
	if put == nil || lastAppend == nil || len(put.Args) != 4 || len(lastAppend.Args) != 2 {
		return o, fmt.Errorf("path %d returns %s: not the parameter, nil, or an assembled header+value", i, p.Rets[0])
	}
	if lastAppend.Res != p.Rets[0] {
		return o, fmt.Errorf("path %d: returned value %s is not the result of the final append", i, p.Rets[0])
	}
	ts, err := EvalTerm(put.Args[1], bind)
	if err != nil {
		return o, err
	}
	fl, err := EvalTerm(put.Args[3], bind)
	if err != nil {
		return o, err
	}
	val, err := EvalTerm(lastAppend.Args[1], bind)
	if err != nil {
		return o, err
	}
	if ts.K != "u" || fl.K != "u" || val.K != "b" {
		return o, fmt.Errorf("path %d: unexpected kinds in assembly", i)
	}
	o.Kind = "TAKE"
	o.Ver = Ver{Present: true, TS: ts.U, Del: fl.U&1 != 0, Val: string(val.B)}
	o.TxID = put.Args[2]
	if fl.U&^1 != 0 {
		o.Kind = "TAKE-BADFLAGS"
	}
	return o, nil
}

// Result gives the stored version after the merge decision is applied the way
// strategy.Update/setNewVal applies it (nil => delete, same => untouched).
func (o Outcome) Result(st Ver) Ver {
	switch o.Kind {
	case "KEEP":
		return st
	case "TAKE":
		return o.Ver
	case "DROP":
		return Ver{}
	}
	return st
}

// Universe construction -----------------------------------------------------

func dedupU(xs []uint64) []uint64 {
	m := map[uint64]bool{}
	var out []uint64
	for _, x := range xs {
		if !m[x] {
			m[x] = true
			out = append(out, x)
		}
	}
	sort.Slice(out, func(i, j int) bool { return out[i] < out[j] })
	return out
}

// tsUniverse: a few ordered timestamps realising every ordering of pairs and
// triples, plus every constant the table compares a timestamp with (±1).
func (t *MergeTable) tsUniverse(n uint64) []uint64 {
	var ts []uint64
	for i := uint64(0); i < n; i++ {
		ts = append(ts, i)
	}
	for _, k := range t.consts["ts"] {
		for _, d := range []int64{-1, 0, 1} {
			if k+d >= 0 {
				ts = append(ts, uint64(k+d))
			}
		}
	}
	return dedupU(ts)
}

func (t *MergeTable) valUniverse(extra bool) []string {
	vals := []string{"", "a", "b"}
	if extra {
		vals = append(vals, "ab", "\x00")
	}
	seen := map[int]bool{0: true, 1: true, 2: true}
	for _, k := range t.consts["len"] {
		for _, d := range []int64{-1, 0, 1} {
			n := int(k + d)
			if n >= 0 && n <= 4096 && !seen[n] {
				seen[n] = true
				vals = append(vals, strings.Repeat("z", n))
			}
		}
	}
	return vals
}

func (t *MergeTable) fvUniverse() []uint64 {
	fv := []uint64{1, 2, 3}
	for _, k := range t.consts["fv"] {
		for _, d := range []int64{-1, 0, 1} {
			if k+d >= 1 {
				fv = append(fv, uint64(k+d))
			}
		}
	}
	return dedupU(fv)
}
