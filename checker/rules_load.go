package main

import (
	"fmt"
	"go/types"
	"strings"

	"golang.org/x/tools/go/ssa"
)

// Rules on the load transaction body (LoadOnce$1), NewNativeIterator,
// ValidateTransform and the cutoff computations.

type loadIter struct {
	p      *Path
	elem   string // snapshot DBI message of this iteration
	name   string // its Name()
	native bool
	nk     bool // native known
}

// loadRoles: the captured variables of LoadOnce's transaction body, identified
// by what they are initialised with in LoadOnce (not by their names).
type loadRolesT struct {
	snap, native, t0, lastTxnID string // as "*free:<name>"
	ok                          bool
}

func loadRoles(c *Check) loadRolesT {
	parent, cl := c.P.Func(fnLoadOnce), c.P.Func(fnLoadTxn)
	var r loadRolesT
	if parent == nil || cl == nil {
		return r
	}
	f := func(n string) string { return freeCanon(c.P, cl, n) }
	r.snap = f(freeInitSuffix(parent, cl, ".Snapshot"))
	r.native = f(freeInitSuffix(parent, cl, ".SchemaTracksChanges"))
	r.t0 = f(freeInitSuffix(parent, cl, "call:time.Now"))
	if len(parent.Params) >= 6 {
		r.lastTxnID = f(freeInitSuffix(parent, cl, parent.Params[5].Name()))
	}
	r.ok = r.snap != "" && r.native != "" && r.t0 != "" && r.lastTxnID != ""
	return r
}

// loadIterations classifies the paths of LoadOnce$1 that are inside an
// iteration over snap.Databases.
func loadIterations(c *Check, paths []Path) []loadIter {
	var out []loadIter
	roles := loadRoles(c)
	for i := range paths {
		p := &paths[i]
		for _, cd := range p.Conds() {
			a := cd.Atom.A
			if cd.Atom.Kind == "bool" && strings.HasPrefix(a, "strings.HasPrefix(snapshot.(*DBI).Name("+roles.snap+".Databases[") && strings.HasSuffix(a, ", const:\"_sync\")") {
				name := strings.TrimSuffix(strings.TrimPrefix(a, "strings.HasPrefix("), ", const:\"_sync\")")
				elem := strings.TrimSuffix(strings.TrimPrefix(name, "snapshot.(*DBI).Name("), ")")
				it := loadIter{p: p, elem: elem, name: name}
				// schemaTracksChanges as tested after the prefix test
				seen := false
				for _, e := range p.Events {
					if e.Kind == "cond" && e.Cond.Atom.A == a {
						seen = true
					}
					if seen && e.Kind == "cond" && e.Cond.Atom.Kind == "bool" && e.Cond.Atom.A == roles.native {
						it.native, it.nk = e.Cond.Truth, true
					}
				}
				out = append(out, it)
				break
			}
		}
	}
	return out
}

// C01-R4 APPLY-ALL + C14-R5/C04-R6 iterator arguments + C18-R5/R6/R7.
func ruleLoadBody(c *Check, rApply, rIterArgs, rValidate, rPreV3, rCancel string) {
	fn, paths := c.walkFn(rApply, fnLoadTxn, WalkConfig{})
	if paths == nil {
		return
	}
	pos := c.P.Pos(fn.Pos())
	txn := param(fn, 0)
	its := loadIterations(c, paths)
	roles := loadRoles(c)
	if !roles.ok {
		c.Undecided(rApply, fnLoadTxn+"/captured", "cannot identify the captured snapshot, mode flag, start time and watermark of the transaction body", pos)
		return
	}
	nSkip, nUpd, nErr, bad := 0, 0, 0, 0
	badArgs, nArgs := 0, 0
	badVal, nTouch := 0, 0
	badV3, nCreate := 0, 0
	for _, it := range its {
		p := it.p
		private, _ := boolCond(p, "strings.HasPrefix("+it.name+", const:\"_sync\")", -1)
		touch := callsOf(p, "lmdbenv.DBIExists", "(*lmdb.Txn).OpenDBI", fnStratUpd, fnNewNative)
		if private {
			nSkip++
			if len(touch) != 0 {
				bad++
				c.Bad(rValidate, fnLoadTxn+"/private-ignored", "a DBI with the private prefix found in a snapshot is touched ("+touch[0].Callee+")", evPos(c, touch[0]), describe(c, p))
			}
			continue
		}
		// validation precedes the first touch
		vt := callsOf(p, "snapshot.(*DBI).ValidateTransform")
		for _, t := range touch {
			nTouch++
			ok := len(vt) == 1 && eventIndex(p, vt[0]) < eventIndex(p, t) && vt[0].Args[0] == it.elem && vt[0].Args[1] == roles.snap+".FormatVersion" && vt[0].Args[2] == roles.native
			if ok {
				tr, f := boolCond(p, "isnil("+vt[0].Res+")", eventIndex(p, t))
				ok = f && tr
			}
			if !ok {
				badVal++
				c.Bad(rValidate, fnLoadTxn+"/validate-before-touch", t.Callee+" is reached for a snapshot DBI before ValidateTransform(formatVersion, schemaTracksChanges) of that DBI succeeded", evPos(c, t), describe(c, p))
				break
			}
		}
		// creating the application DBI from a pre-v3 snapshot
		for _, od := range callsOf(p, "(*lmdb.Txn).OpenDBI") {
			if od.Args[1] == it.name && strings.Contains(od.Args[2], "const:262144") && it.nk && !it.native {
				nCreate++
				old, f1 := condTruth(p, roles.snap+".FormatVersion < const:3", eventIndex(p, od))
				_ = old
				fvRel := p.State.RelOf("int", roles.snap+".FormatVersion", "const:3")
				ovNil, f2 := condTruth(p, ".OverrideCreateFlags)", eventIndex(p, od))
				okk := f1 && (fvRel&LT == 0 || (f2 && !ovNil))
				if !okk {
					badV3++
					c.Bad(rPreV3, fnLoadTxn+"/pre-v3-create", "the application DBI is created from the snapshot's flags on a path where the snapshot may be older than format version 3 and no override_create_flags is configured (those snapshots carry the shadow DBI's flags)", evPos(c, od), describe(c, p))
				}
			}
		}
		upd := callsOf(p, fnStratUpd)
		switch {
		case len(upd) == 1:
			nUpd++
			u := upd[0]
			ni := callsOf(p, fnNewNative)
			var target *Event
			for _, od := range callsOf(p, "(*lmdb.Txn).OpenDBI") {
				if od.Res+"#0" == u.Args[1] {
					target = od
				}
			}
			wantName := it.name
			if it.nk && !it.native {
				wantName = "(const:\"_sync_shadow_\" + " + it.name + ")"
			}
			ok := len(ni) == 1 && u.Args[0] == txn && u.Args[2] == ni[0].Res+"#0" && target != nil && target.Args[1] == wantName && target.Args[2] == "const:0" && ni[0].Args[2] == it.elem
			if !ok {
				bad++
				c.Bad(rApply, fnLoadTxn+"/merge-target", fmt.Sprintf("strategy.Update is not applied to (txn, DBI %s, NewNativeIterator(.., this snapshot DBI, ..))", wantName), evPos(c, u), describe(c, p))
			}
			if len(ni) == 1 {
				nArgs++
				a := ni[0].Args
				idOK := false
				for _, idc := range callsOf(p, "(*lmdb.Txn).ID") {
					if idc.Res == a[4] && idc.Args[0] == txn {
						idOK = true
					}
				}
				cutOK := false
				for _, dc := range callsOf(p, "syncer.(*Syncer).deletedCutoff") {
					if dc.Res == a[5] && dc.Args[1] == roles.t0 {
						cutOK = true
					}
				}
				if !(a[0] == roles.snap+".FormatVersion" && a[1] == roles.snap+".CompatVersion" && a[3] == "const:0" && idOK && cutOK) {
					badArgs++
					c.Bad(rIterArgs, fnLoadTxn+"/iterator-args", fmt.Sprintf("NewNativeIterator%v: expected (snap.FormatVersion, snap.CompatVersion, dbiMsg, 0 = no default timestamp, txn.ID() of this write transaction, deletedCutoff(t0))", a), evPos(c, ni[0]), nil)
				}
			}
		case p.End == "return" && !retIsNilErr(p):
			nErr++
		case strings.HasPrefix(p.End, "backedge:"):
			bad++
			c.Bad(rApply, fnLoadTxn+"/dbi-skipped", "an application DBI of the snapshot is passed over without strategy.Update and without an error", c.pathPos(p), describe(c, p))
		case p.End == "return" && retIsNilErr(p):
			bad++
			c.Bad(rApply, fnLoadTxn+"/early-success", "the load body returns success in the middle of a DBI", c.pathPos(p), describe(c, p))
		}
	}
	if bad == 0 {
		c.Ok(rApply, fnLoadTxn+"/apply-all", fmt.Sprintf("%d iteration paths: %d skip a private DBI untouched, %d reach strategy.Update(txn, target DBI (shadow name in shadow mode), iterator over this snapshot DBI), %d leave with an error; none passes a DBI over", len(its), nSkip, nUpd, nErr), pos)
	}
	c.Floor(rApply, nUpd, 4, "merging iteration paths in LoadOnce body")
	if badArgs == 0 {
		c.Ok(rIterArgs, fnLoadTxn+"/iterator-args", fmt.Sprintf("%d iterator constructions get the snapshot's versions, no default timestamp, txn.ID() of this transaction and deletedCutoff(t0)", nArgs), pos)
	}
	if badVal == 0 {
		c.Ok(rValidate, fnLoadTxn+"/validate-before-touch", fmt.Sprintf("%d LMDB-touching calls in DBI iterations are all preceded by the private-prefix test and a successful ValidateTransform of that DBI", nTouch), pos)
	}
	c.Floor(rValidate, nTouch, 8, "touching calls in LoadOnce body")
	if badV3 == 0 {
		c.Ok(rPreV3, fnLoadTxn+"/pre-v3-create", fmt.Sprintf("%d paths creating the application DBI: format version >= 3 or an explicit override_create_flags", nCreate), pos)
	}
	c.Floor(rPreV3, nCreate, 1, "application-DBI creation paths")
	// cancellation
	nc, badc := 0, 0
	for i := range paths {
		p := &paths[i]
		for _, ic := range callsOf(p, "utils.IsCanceled") {
			if tr, f := boolCond(p, ic.Res, -1); f && tr {
				nc++
				if !(p.End == "return" && len(p.Rets) == 1 && p.Rets[0] == "global:context.Canceled") {
					badc++
					c.Bad(rCancel, fnLoadTxn+"/cancel", "a cancelled context does not abort the load transaction with context.Canceled", evPos(c, ic), nil)
				}
			}
		}
	}
	if badc == 0 {
		c.Ok(rCancel, fnLoadTxn+"/cancel", fmt.Sprintf("%d cancelled paths return context.Canceled from the transaction body (aborting it)", nc), pos)
	}
	c.Floor(rCancel, nc, 1, "cancellation exits in LoadOnce body")
}

// C18-R3 VERSION-GATES.
func ruleVersionGates(c *Check, rule string) {
	fn, paths := c.walkFn(rule, fnNewNative, WalkConfig{})
	if paths == nil {
		return
	}
	cur, _ := c.constValue("snapshot", "CurrentFormatVersion")
	compat, _ := c.constValue("snapshot", "CompatFormatVersion")
	wcompat, _ := c.constValue("snapshot", "WriteCompatFormatVersion")
	var curN, compatN, wcN uint64
	fmt.Sscan(cur, &curN)
	fmt.Sscan(compat, &compatN)
	fmt.Sscan(wcompat, &wcN)
	pos := c.P.Pos(fn.Pos())
	c.Expect(compatN >= 1 && compatN <= wcN && wcN <= curN, rule, "snapshot.FormatVersions", fmt.Sprintf("CompatFormatVersion %d <= WriteCompatFormatVersion %d <= CurrentFormatVersion %d", compatN, wcN, curN), fmt.Sprintf("format version constants out of order: compat %d, write-compat %d, current %d", compatN, wcN, curN), "")
	n, bad := 0, 0
	for fv := uint64(0); fv <= curN+2; fv++ {
		for cv := uint64(0); cv <= curN+2; cv++ {
			for _, tx := range []uint64{0, 1, 7} {
				b := Bindings{param(fn, 0): U(fv), param(fn, 1): U(cv), param(fn, 4): U(tx), param(fn, 3): U(0), param(fn, 5): U(0)}
				idx, err := SelectPaths(paths, b)
				if err != nil || len(idx) != 1 {
					c.Undecided(rule, fnNewNative+"/table", fmt.Sprintf("cannot evaluate the gate table for fv=%d cv=%d txn=%d: %v (%d paths)", fv, cv, tx, err, len(idx)), pos)
					return
				}
				n++
				p := &paths[idx[0]]
				accepted := p.End == "return" && retIsNilErr(p)
				want := fv != 0 && cv <= curN && fv >= compatN && tx != 0
				if accepted != want {
					bad++
					c.Bad(rule, fmt.Sprintf("%s/gate:fv=%d,cv=%d,txn=%d", fnNewNative, fv, cv, tx), fmt.Sprintf("formatVersion %d, compatVersion %d, txn id %d: accepted=%v, expected %v (refuse format 0, compat newer than this build's %d, formats older than %d, missing txn id)", fv, cv, tx, accepted, want, curN, compatN), c.pathPos(p), nil)
				}
				if accepted {
					// the iterator carries the versions and ids it was given
					if !strings.Contains(p.Rets[0], "alloc:") && !strings.HasPrefix(p.Rets[0], "&") {
						_ = p
					}
				}
			}
		}
	}
	c.Evaluations += n
	if bad == 0 {
		c.Ok(rule, fnNewNative+"/gates", fmt.Sprintf("%d (formatVersion, compatVersion, txnID) cells over 0..%d: accepted exactly when fv != 0 ∧ fv >= %d ∧ cv <= %d ∧ txnID != 0", n, curN+2, compatN, curN), pos)
	}
	// the iterator's fields are the arguments
	okFields := false
	for i := range paths {
		p := &paths[i]
		if p.End == "return" && retIsNilErr(p) {
			want := map[string]string{"DBIMsg": param(fn, 2), "DefaultTimestampNano": param(fn, 3), "TxnID": param(fn, 4), "FormatVersion": param(fn, 0), "DeletedCutoff": param(fn, 5)}
			okFields = true
			for f, v := range want {
				got := ""
				for k, sv := range p.Store {
					if strings.HasSuffix(k, "."+f) {
						got = sv
					}
				}
				if got != v {
					okFields = false
					c.Bad(rule, fnNewNative+"/field:"+f, fmt.Sprintf("iterator field %s is set from %q, expected the argument %s", f, got, v), c.pathPos(p), nil)
				}
			}
		}
	}
	if okFields {
		c.Ok(rule, fnNewNative+"/fields", "the iterator's DBIMsg, DefaultTimestampNano, TxnID, FormatVersion and DeletedCutoff are exactly the corresponding arguments", pos)
	}
}

// ValidateTransform table (C18-R5b, C20-R5b).
func ruleValidateTransformTable(c *Check, rule string) {
	name := "snapshot.(*DBI).ValidateTransform"
	fn, paths := c.walkFn(rule, name, WalkConfig{Inline: func(f *ssa.Function, d int) bool { return d <= 2 && QualName(f) == "snapshot.TransformSupported" }})
	if paths == nil {
		return
	}
	pos := c.P.Pos(fn.Pos())
	d := param(fn, 0)
	hack, _ := c.constValue("snapshot", "TransformDupSortHackV1")
	dupsort, _ := c.constValue2("github.com/PowerDNS/lmdb-go/lmdb", "DupSort")
	var ds uint64
	fmt.Sscan(dupsort, &ds)
	n, bad := 0, 0
	for _, tr := range []string{"", hack, "other", hack + "x"} {
		for _, fl := range []uint64{0, ds, 8, ds | 8} {
			for fv := uint64(1); fv <= 5; fv++ {
				for _, native := range []bool{false, true} {
					b := Bindings{
						"snapshot.(*DBI).Transform(" + d + ")": Bv([]byte(tr)),
						"snapshot.(*DBI).Flags(" + d + ")":     U(fl),
						"snapshot.(*DBI).Name(" + d + ")":      Bv([]byte("n")),
						param(fn, 1):                           U(fv),
						param(fn, 2):                           Tv(native),
					}
					idx, err := SelectPaths(paths, b)
					if err != nil || len(idx) != 1 {
						c.Undecided(rule, name+"/table", fmt.Sprintf("cannot evaluate the transform table (transform %q flags %d fv %d native %v): %v (%d paths)", tr, fl, fv, native, err, len(idx)), pos)
						return
					}
					n++
					p := &paths[idx[0]]
					okv := p.End == "return" && retIsNilErr(p)
					supported := tr == "" || tr == hack
					want := supported && !(native && tr != "") && !(fv >= 3 && ((fl&ds != 0) != (tr == hack)))
					if okv != want {
						bad++
						c.Bad(rule, fmt.Sprintf("%s/cell:%q,flags=%d,fv=%d,native=%v", name, tr, fl, fv, native), fmt.Sprintf("transform %q, DBI flags %d, format %d, native %v: accepted=%v, expected %v (unsupported transform ⇒ error; native schema ∧ transform ⇒ error; format >= 3: dupsort flag ⇔ dupsort transform)", tr, fl, fv, native, okv, want), c.pathPos(p), nil)
					}
				}
			}
		}
	}
	c.Evaluations += n
	if bad == 0 {
		c.Ok(rule, name+"/table", fmt.Sprintf("%d cells (transform × DBI flags × format version × native): accepted exactly per the documented rules", n), pos)
	}
}

// C04-R6 CUTOFF-PROVENANCE.
func ruleCutoffProvenance(c *Check, rule string) {
	name := "syncer.(*Syncer).deletedCutoff"
	fn, paths := c.walkFn(rule, name, WalkConfig{})
	if paths == nil {
		return
	}
	pos := c.P.Pos(fn.Pos())
	now := param(fn, 1)
	nDis, nEn, bad := 0, 0, 0
	for i := range paths {
		p := &paths[i]
		en, f := condTruth(p, "Sweeper.Enabled", -1)
		if !f || p.End != "return" {
			bad++
			c.Bad(rule, name+"/enabled-test", "the cutoff is computed without testing Sweeper.Enabled", c.pathPos(p), nil)
			continue
		}
		if !en {
			nDis++
			if p.Rets[0] != "const:0" {
				bad++
				c.Bad(rule, name+"/disabled-zero", "with the sweeper disabled the stale-marker cutoff is "+p.Rets[0]+" instead of 0: deletion markers would be dropped although nothing sweeps them", c.pathPos(p), nil)
			}
			continue
		}
		nEn++
		want := "lmdbenv/header.TimestampFromTime((time.Time).Add(" + now + ", -config.(Sweeper).RetentionDurationMinusCutoff(param:s.c.Sweeper)))"
		if p.Rets[0] != want {
			bad++
			c.Bad(rule, name+"/enabled-cutoff", "with the sweeper enabled the cutoff is "+p.Rets[0]+"; expected now − RetentionDurationMinusCutoff()", c.pathPos(p), nil)
		}
	}
	if bad == 0 && nDis > 0 && nEn > 0 {
		c.Ok(rule, name, "the load cutoff is 0 when the sweeper is disabled and TimestampFromTime(now.Add(−RetentionDurationMinusCutoff())) when enabled", pos)
	} else if bad == 0 {
		c.Undecided(rule, name, "expected an enabled and a disabled path", pos)
	}
}

// C04-R7 CUTOFF-ORDER: RetentionDurationMinusCutoff() ∈ [0, RetentionDuration()].
func ruleCutoffOrder(c *Check, rule string) {
	name := "config.(Sweeper).RetentionDurationMinusCutoff"
	fn, paths := c.walkFn(rule, name, WalkConfig{})
	if paths == nil {
		return
	}
	pos := c.P.Pos(fn.Pos())
	R := "config.(Sweeper).RetentionDuration(" + param(fn, 0) + ")"
	bad := 0
	for i := range paths {
		p := &paths[i]
		if p.End != "return" || len(p.Rets) != 1 {
			continue
		}
		r := p.Rets[0]
		pre := "(" + R + " - "
		if !strings.HasPrefix(r, pre) || !strings.HasSuffix(r, ")") {
			bad++
			c.Bad(rule, name+"/shape", "the result "+r+" is not of the form retention − buffer", c.pathPos(p), nil)
			continue
		}
		buf := r[len(pre) : len(r)-1]
		if why := boundedBy(buf, R, p); why != "" {
			bad++
			c.Bad(rule, name+"/buffer-bounded", "on this path the amount subtracted from the retention, "+buf+", is not provably within [0, retention] for every configuration with retention >= 0 ("+why+"): the load cutoff could be older than the sweeper's cutoff, so swept markers would be re-created", c.pathPos(p), describe(c, p))
		}
	}
	if bad == 0 {
		c.Ok(rule, name, fmt.Sprintf("on all %d paths the result is retention − buffer with 0 <= buffer <= retention provable from the path conditions and the arithmetic shape (divide before multiply; positive, capped configured cutoff), for every configuration incl. zero, negative and oversized retention_load_cutoff_duration", len(paths)), pos)
	}
}

// boundedBy proves 0 <= e <= R for R >= 0 from the expression shape and the
// path's relational state; returns "" when proved, else the reason.
func boundedBy(e, R string, p *Path) string {
	if e == R {
		return ""
	}
	for _, bn := range []string{"builtin:min(", "builtin:max("} {
		if !strings.HasPrefix(e, bn) || !strings.HasSuffix(e, ")") {
			continue
		}
		args := splitTop(e[len(bn) : len(e)-1])
		if len(args) != 2 {
			return "min/max of other than two values"
		}
		a, b := strings.TrimSpace(args[0]), strings.TrimSpace(args[1])
		okA, okB := boundedBy(a, R, p) == "", boundedBy(b, R, p) == ""
		nonneg := func(x string, ok bool) bool {
			return ok || p.State.RelOf("int", x, "const:0")&LT == 0
		}
		if bn == "builtin:min(" {
			// 0 <= min(a, b) needs both non-negative; min(a, b) <= R needs one of them within R
			if nonneg(a, okA) && nonneg(b, okB) && (okA || okB) {
				return ""
			}
			return "min of values not both known non-negative, or neither within the retention"
		}
		if okA && okB {
			return ""
		}
		return "max of a value not within the retention"
	}
	if strings.HasPrefix(e, "(") && strings.HasSuffix(e, ")") {
		in := e[1 : len(e)-1]
		if a, op, b, ok := splitBin(in); ok {
			k, isK := constInt(b)
			switch op {
			case "/":
				if isK && k >= 1 {
					return boundedBy(a, R, p)
				}
				return "division by a non-constant"
			case "*":
				// (X / m) * k with m >= k >= 0 and X bounded
				if isK && k >= 0 && strings.HasPrefix(a, "(") {
					if x, op2, m, ok2 := splitBin(a[1 : len(a)-1]); ok2 && op2 == "/" {
						if mk, ok3 := constInt(m); ok3 && mk >= k && mk >= 1 {
							return boundedBy(x, R, p)
						}
					}
				}
				return "multiplication before division can overflow or exceed the retention"
			}
		}
	}
	// a configured quantity: needs path facts 0 < e and e <= some bounded M
	if p.State.RelOf("int", e, "const:0") == GT {
		for _, cd := range p.Conds() {
			a := cd.Atom
			if a.Kind != "cmp" || a.Dom != "int" {
				continue
			}
			var other string
			if a.A == e {
				other = a.B
			} else if a.B == e {
				other = a.A
			} else {
				continue
			}
			if strings.HasPrefix(other, "const:") {
				continue
			}
			if p.State.RelOf("int", e, other)&GT == 0 && boundedBy(other, R, p) == "" {
				return ""
			}
		}
		return "no upper bound by a quantity within the retention"
	}
	return "not known to be positive"
}

// splitBin splits "A op B" at the top-level operator.
func splitBin(in string) (a, op, b string, ok bool) {
	depth := 0
	for i := 0; i < len(in); i++ {
		switch in[i] {
		case '(', '[', '{':
			depth++
		case ')', ']', '}':
			depth--
		case ' ':
			if depth == 0 {
				j := strings.IndexByte(in[i+1:], ' ')
				if j < 0 {
					return
				}
				return in[:i], in[i+1 : i+1+j], in[i+2+j:], true
			}
		}
	}
	return
}

// VERSIONS-AS-DECLARED (C18-R3): the gates of NewNativeIterator refuse a
// snapshot by the formatVersion / compatVersion its writer declared. Between the
// decoder and the gates nothing rewrites those two fields: their only writers
// are the protobuf decoder (snapshot.(*Snapshot).Unmarshal, from the decoded
// varint) and the snapshot this instance creates itself (SendOnce, from the
// package constants). A "normalisation" of loaded snapshots (clamping
// compatVersion to formatVersion, defaulting a missing one) lets a snapshot
// that demands a newer reader pass the gate as an older one.
func ruleVersionFieldsAsDeclared(c *Check, rule string) {
	n, bad := 0, 0
	for _, field := range []string{"FormatVersion", "CompatVersion"} {
		for fnName, ins := range attributeToOwners(c.P, fieldWriters(c.P, "Snapshot", field)) {
			for _, in := range ins {
				st, ok := in.(*ssa.Store)
				if !ok {
					continue
				}
				fa, _ := st.Addr.(*ssa.FieldAddr)
				if fa == nil {
					continue
				}
				t := fa.X.Type()
				if pt, ok := t.Underlying().(*types.Pointer); ok {
					t = pt.Elem()
				}
				nt, _ := t.(*types.Named)
				if nt == nil || nt.Obj().Pkg() == nil || !strings.HasSuffix(nt.Obj().Pkg().Path(), "lightningstream/snapshot") {
					continue // the generated reference message of gogosnapshot
				}
				switch {
				case fnName == "snapshot.(*Snapshot).Unmarshal" || strings.HasPrefix(fnName, "snapshot.(*Snapshot).Unmarshal$"):
					n++ // the decoded value (what the decoder stores per tag is the reader table of C07-R1)
				case fnName == fnSendOnce || strings.HasPrefix(fnName, fnSendOnce+"$") || fnName == "syncer.NewSnapshot" || fnName == "syncer.(*Syncer).newSnapshot":
					n++ // the snapshot this instance writes (constants checked by the gate table)
				default:
					bad++
					c.Bad(rule, fnName+"/version-rewritten:"+field, "the "+field+" of a snapshot is rewritten outside the decoder and the snapshot writer: the version gates then judge something other than what the writer declared (a snapshot requiring a newer reader can pass as an older one)", c.P.InstrPos(in), nil)
				}
			}
		}
	}
	if bad == 0 {
		c.Ok(rule, "snapshot.Snapshot/versions-as-declared", fmt.Sprintf("%d writers of Snapshot.FormatVersion/CompatVersion: the decoder (decoded varint) and the snapshot writer only", n), "")
	}
	c.Floor(rule, n, 4, "writers of the snapshot version fields")
}
