package main

import (
	"encoding/json"
	"flag"
	"fmt"
	"os"
	"path/filepath"
	"regexp"
	"runtime/debug"
	"sort"
	"strings"

	"golang.org/x/tools/go/ssa"
)

type propRunner struct {
	meta propMeta
	run  func(c *Check)
}

var registry = map[string]*propRunner{}

var globalOverlay map[string][]byte

func register(id string, meta propMeta, run func(c *Check)) {
	registry[id] = &propRunner{meta: meta, run: run}
}

func main() {
	var (
		prop     = flag.String("p", "", "property id (C01..C20)")
		tier     = flag.String("tier", "", "quick or thorough")
		repo     = flag.String("repo", "/repo", "repository to analyse")
		verifDir = flag.String("verif", "", "verif directory (default: parent of the binary's directory)")
		dump     = flag.String("dump", "", "debug: dump the paths of a function (qualified name)")
		inl      = flag.Int("inline", 0, "debug: inline depth for -dump")
		list     = flag.Bool("list", false, "debug: list repository functions")
		explain  = flag.String("explain", "", "print a violations file in readable form")
		overlayF = flag.String("overlay", "", "JSON file mapping source paths to replacement files (mutant self-test)")
		metaDump = flag.Bool("meta", false, "print the registered properties and their descriptions as JSON")
		region   = flag.Int("region", -1, "debug: start -dump at this block index")
		maxp     = flag.Int("maxp", 12, "debug: max paths printed by -dump")
		grep     = flag.String("grep", "", "debug: only print paths containing this substring")
		keep     = flag.String("keep", "", "debug: regexp of callees/atoms to keep (enables merging)")
	)
	flag.Parse()
	if *verifDir == "" {
		exe, err := os.Executable()
		if err == nil {
			*verifDir = filepath.Dir(filepath.Dir(exe))
		} else {
			*verifDir = "/verif"
		}
	}
	if *metaDump {
		out := map[string]any{}
		for id, r := range registry {
			out[id] = map[string]any{"explanation": r.meta.Explanation, "not_decided": r.meta.NotDecided, "assumptions": r.meta.Assumptions}
		}
		b, _ := json.MarshalIndent(out, "", " ")
		fmt.Println(string(b))
		return
	}
	if *explain != "" {
		b, err := os.ReadFile(*explain)
		if err != nil {
			fmt.Println(err)
			os.Exit(2)
		}
		var v struct {
			Property   string
			Violations []Obligation
			Rules      map[string]string
		}
		_ = json.Unmarshal(b, &v)
		for _, o := range v.Violations {
			fmt.Printf("%s %s\n  construct: %s\n  at: %s\n  %s\n  rule: %s\n", strings.ToUpper(string(o.Status)), o.Rule, o.Construct, o.Pos, o.Detail, v.Rules[o.Rule])
			if o.Witness != nil {
				wb, _ := json.MarshalIndent(o.Witness, "  ", " ")
				fmt.Printf("  witness: %s\n", wb)
			}
		}
		return
	}
	if *tier == "" {
		*tier = os.Getenv("VERIF_TIER")
	}
	if *tier == "" {
		*tier = "quick"
	}

	if *dump != "" || *list {
		p, err := Load(*repo, nil)
		if err != nil {
			fmt.Fprintln(os.Stderr, err)
			os.Exit(2)
		}
		if *list && *grep != "" {
			debugFuncs(p, *grep)
			return
		}
		if *list {
			for _, f := range p.RepoFuncs() {
				if os.Getenv("LSCHECK_LIST_SIG") != "" && f.Signature != nil {
					fmt.Printf("%s\t%s\n", QualName(f), funcKey(f))
					continue
				}
				fmt.Println(QualName(f))
			}
			return
		}
		debugDump(p, *dump, *inl, *region, *maxp, *grep, *keep)
		return
	}

	if *overlayF != "" {
		b, err := os.ReadFile(*overlayF)
		if err != nil {
			fmt.Fprintln(os.Stderr, err)
			os.Exit(2)
		}
		mp := map[string]string{}
		_ = json.Unmarshal(b, &mp)
		globalOverlay = map[string][]byte{}
		for k, v := range mp {
			c, err := os.ReadFile(v)
			if err != nil {
				fmt.Fprintln(os.Stderr, err)
				os.Exit(2)
			}
			globalOverlay[k] = c
		}
	}
	var ids []string
	if *prop == "all" {
		for id := range registry {
			ids = append(ids, id)
		}
		sort.Strings(ids)
	} else {
		ids = strings.Split(*prop, ",")
	}
	for _, id := range ids {
		if _, ok := registry[id]; !ok {
			fmt.Fprintf(os.Stderr, "unknown property %q\n", id)
			os.Exit(2)
		}
	}
	code := 0
	var shared *Program
	var loadErr error
	if len(ids) > 1 {
		shared, loadErr = Load(*repo, globalOverlay)
	}
	for _, id := range ids {
		if rc := runProp(id, *tier, *repo, *verifDir, registry[id], shared, loadErr); rc != 0 {
			code = rc
		}
	}
	os.Exit(code)
}

func runProp(prop, tier, repo, verifDir string, r *propRunner, shared *Program, sharedErr error) (code int) {
	p, err := shared, sharedErr
	if p == nil && err == nil {
		p, err = Load(repo, globalOverlay)
	}
	var c *Check
	if err != nil {
		c = NewCheck(prop, tier, &Program{Dir: repo})
		c.Undecided("framework", "load", "cannot load/type-check the repository: "+err.Error(), "")
		return c.Finish(verifDir, r.meta)
	}
	c = NewCheck(prop, tier, p)
	func() {
		defer func() {
			if rec := recover(); rec != nil {
				c.Undecided("framework", "panic", fmt.Sprintf("checker panic: %v\n%s", rec, debug.Stack()), "")
			}
		}()
		r.run(c)
		if tier == "thorough" {
			runThoroughExtras(c, prop, repo, verifDir)
		}
	}()
	return c.Finish(verifDir, r.meta)
}

func debugDump(p *Program, name string, inl int, region int, maxp int, grep string, keep string) {
	fn := p.Func(name)
	if fn == nil {
		fmt.Println("no such function; candidates:")
		for _, f := range p.RepoFuncs() {
			if strings.Contains(QualName(f), name) {
				fmt.Println("  ", QualName(f))
			}
		}
		return
	}
	cfg := WalkConfig{Bounds: false}
	if inl > 0 {
		cfg.Inline = func(f *ssa.Function, depth int) bool {
			return depth <= inl && strings.HasPrefix(fnPkgPath(f), modPath)
		}
	}
	if region >= 0 {
		cfg.Entry = fn.Blocks[region]
	}
	if keep != "" {
		re := regexp.MustCompile(keep)
		cfg.Memo = true
		cfg.KeepAtom = func(a Atom) bool { return re.MatchString(a.String()) }
		cfg.KeepEvent = func(e *Event) bool {
			return (e.Kind == "call" || e.Kind == "go") && re.MatchString(e.Callee) || e.Kind == "ret"
		}
	}
	w := Walk(p, fn, cfg)
	if w.Err != nil {
		fmt.Println("ERR:", w.Err)
	}
	fmt.Printf("%d paths, %d visits, %d merged\n", len(w.Paths), w.Visits, w.Merged)
	printed := 0
	trunc := func(s string) string {
		if len(s) > 170 {
			return s[:170] + "…"
		}
		return s
	}
	for i, pa := range w.Paths {
		var lines []string
		lines = append(lines, fmt.Sprintf("--- path %d end=%s rets=%v", i, pa.End, pa.Rets))
		for _, e := range pa.Events {
			ind := strings.Repeat("  ", e.Depth)
			switch e.Kind {
			case "cond":
				lines = append(lines, fmt.Sprintf("   %sif %s", ind, e.Cond.String()))
			case "call":
				if isLogCall(e.Callee) {
					continue
				}
				d := ""
				if e.Defd {
					d = "deferred "
				}
				h := ""
				if len(e.Held) > 0 {
					h = fmt.Sprintf(" held=%v", e.Held)
				}
				lines = append(lines, fmt.Sprintf("   %s%s%s = %s(%s)%s", ind, d, e.Res, e.Callee, strings.Join(e.Args, ", "), h))
			case "store":
				if strings.Contains(e.Addr, "varargs") {
					continue
				}
				lines = append(lines, fmt.Sprintf("   %s%s := %s", ind, e.Addr, e.Val))
			case "mapupdate":
				if strings.HasPrefix(e.Addr, "makemap") {
					continue
				}
				lines = append(lines, fmt.Sprintf("   %s%s[%s] = %s", ind, e.Addr, e.Key, e.Val))
			case "ret", "inlret":
				lines = append(lines, fmt.Sprintf("   %s%s %v", ind, e.Kind, e.Args))
			default:
				lines = append(lines, fmt.Sprintf("   %s%s %s %s %v held=%v", ind, e.Kind, e.Callee, e.Addr, e.Extra, e.Held))
			}
		}
		all := strings.Join(lines, "\n")
		if grep != "" && !strings.Contains(all, grep) {
			continue
		}
		if printed >= maxp {
			break
		}
		printed++
		for _, l := range lines {
			fmt.Println(trunc(l))
		}
	}
	var bl []string
	for _, b := range fn.Blocks {
		bl = append(bl, fmt.Sprintf("%d:%s", b.Index, b.Comment))
	}
	sort.Strings(bl)
	fmt.Println("blocks:", strings.Join(bl, " "))
}
