package main

import (
	"encoding/json"
	"flag"
	"fmt"
	"os"
	"path/filepath"
	"runtime/debug"
	"sort"
	"strings"

	"golang.org/x/tools/go/ssa"
)

type propRunner struct {
	meta propMeta
	run  func(c *Check)
}

var registry = map[string]*propRunner{}

func register(id string, meta propMeta, run func(c *Check)) {
	registry[id] = &propRunner{meta: meta, run: run}
}

func main() {
	var (
		prop     = flag.String("p", "", "property id (C01..C20)")
		tier     = flag.String("tier", "", "quick or thorough")
		repo     = flag.String("repo", "/repo", "repository to analyse")
		verifDir = flag.String("verif", "", "verif directory (default: parent of the binary's directory)")
		dump     = flag.String("dump", "", "debug: dump the paths of a function (qualified name)")
		inl      = flag.Int("inline", 0, "debug: inline depth for -dump")
		list     = flag.Bool("list", false, "debug: list repository functions")
		explain  = flag.String("explain", "", "print a violations file in readable form")
		region   = flag.Int("region", -1, "debug: start -dump at this block index")
	)
	flag.Parse()
	if *verifDir == "" {
		exe, err := os.Executable()
		if err == nil {
			*verifDir = filepath.Dir(filepath.Dir(exe))
		} else {
			*verifDir = "/verif"
		}
	}
	if *explain != "" {
		b, err := os.ReadFile(*explain)
		if err != nil {
			fmt.Println(err)
			os.Exit(2)
		}
		var v struct {
			Property   string
			Violations []Obligation
			Rules      map[string]string
		}
		_ = json.Unmarshal(b, &v)
		for _, o := range v.Violations {
			fmt.Printf("%s %s\n  construct: %s\n  at: %s\n  %s\n  rule: %s\n", strings.ToUpper(string(o.Status)), o.Rule, o.Construct, o.Pos, o.Detail, v.Rules[o.Rule])
			if o.Witness != nil {
				wb, _ := json.MarshalIndent(o.Witness, "  ", " ")
				fmt.Printf("  witness: %s\n", wb)
			}
		}
		return
	}
	if *tier == "" {
		*tier = os.Getenv("VERIF_TIER")
	}
	if *tier == "" {
		*tier = "quick"
	}

	if *dump != "" || *list {
		p, err := Load(*repo, nil)
		if err != nil {
			fmt.Fprintln(os.Stderr, err)
			os.Exit(2)
		}
		if *list {
			for _, f := range p.RepoFuncs() {
				fmt.Println(QualName(f))
			}
			return
		}
		debugDump(p, *dump, *inl, *region)
		return
	}

	r, ok := registry[*prop]
	if !ok {
		fmt.Fprintf(os.Stderr, "unknown property %q\n", *prop)
		os.Exit(2)
	}
	code := runProp(*prop, *tier, *repo, *verifDir, r)
	os.Exit(code)
}

func runProp(prop, tier, repo, verifDir string, r *propRunner) (code int) {
	p, err := Load(repo, nil)
	var c *Check
	if err != nil {
		c = NewCheck(prop, tier, &Program{Dir: repo})
		c.Undecided("framework", "load", "cannot load/type-check the repository: "+err.Error(), "")
		return c.Finish(verifDir, r.meta)
	}
	c = NewCheck(prop, tier, p)
	func() {
		defer func() {
			if rec := recover(); rec != nil {
				c.Undecided("framework", "panic", fmt.Sprintf("checker panic: %v\n%s", rec, debug.Stack()), "")
			}
		}()
		r.run(c)
		if tier == "thorough" {
			runThoroughExtras(c, prop, repo, verifDir)
		}
	}()
	return c.Finish(verifDir, r.meta)
}

func debugDump(p *Program, name string, inl int, region int) {
	fn := p.Func(name)
	if fn == nil {
		fmt.Println("no such function; candidates:")
		for _, f := range p.RepoFuncs() {
			if strings.Contains(QualName(f), name) {
				fmt.Println("  ", QualName(f))
			}
		}
		return
	}
	cfg := WalkConfig{Bounds: false}
	if inl > 0 {
		cfg.Inline = func(f *ssa.Function, depth int) bool {
			return depth <= inl && strings.HasPrefix(fnPkgPath(f), modPath)
		}
	}
	if region >= 0 {
		cfg.Entry = fn.Blocks[region]
	}
	w := Walk(p, fn, cfg)
	if w.Err != nil {
		fmt.Println("ERR:", w.Err)
	}
	fmt.Printf("%d paths, %d visits\n", len(w.Paths), w.Visits)
	for i, pa := range w.Paths {
		fmt.Printf("--- path %d end=%s rets=%v\n", i, pa.End, pa.Rets)
		for _, e := range pa.Events {
			ind := strings.Repeat("  ", e.Depth)
			switch e.Kind {
			case "cond":
				fmt.Printf("   %sif %s\n", ind, e.Cond.String())
			case "call":
				d := ""
				if e.Defd {
					d = "deferred "
				}
				fmt.Printf("   %s%s%s(%s) -> %s  held=%v\n", ind, d, e.Callee, strings.Join(e.Args, ", "), e.Res, e.Held)
			case "store":
				fmt.Printf("   %s%s := %s\n", ind, e.Addr, e.Val)
			case "mapupdate":
				fmt.Printf("   %s%s[%s] = %s\n", ind, e.Addr, e.Key, e.Val)
			case "ret", "inlret":
				fmt.Printf("   %s%s %v\n", ind, e.Kind, e.Args)
			default:
				fmt.Printf("   %s%s %s %s %v\n", ind, e.Kind, e.Callee, e.Addr, e.Extra)
			}
		}
		fmt.Printf("   state: %s\n", pa.State)
	}
	var bl []string
	for _, b := range fn.Blocks {
		bl = append(bl, fmt.Sprintf("%d:%s", b.Index, b.Comment))
	}
	sort.Strings(bl)
	fmt.Println("blocks:", strings.Join(bl, " "))
}
