package main

import (
	"hash/fnv"
	"sort"
	"strings"

	"golang.org/x/tools/go/ssa"
)

// fnInfo holds per-function facts used to merge walker configurations:
// block reachability, SSA liveness and where each local is read.
type fnInfo struct {
	reach  [][]bool
	liveIn []map[ssa.Value]bool
}

func (w *Walker) infoOf(fn *ssa.Function) *fnInfo {
	if fi, ok := w.info[fn]; ok {
		return fi
	}
	n := len(fn.Blocks)
	fi := &fnInfo{reach: make([][]bool, n), liveIn: make([]map[ssa.Value]bool, n)}
	for i := range fi.reach {
		fi.reach[i] = make([]bool, n)
		fi.reach[i][i] = true
		stack := []*ssa.BasicBlock{fn.Blocks[i]}
		for len(stack) > 0 {
			b := stack[len(stack)-1]
			stack = stack[:len(stack)-1]
			for _, s := range b.Succs {
				if !fi.reach[i][s.Index] {
					fi.reach[i][s.Index] = true
					stack = append(stack, s)
				}
			}
		}
	}
	// liveness
	use := make([]map[ssa.Value]bool, n)
	def := make([]map[ssa.Value]bool, n)
	phiUse := make([]map[ssa.Value]bool, n) // values used by phis of successors, live-out of this block
	for i, b := range fn.Blocks {
		use[i], def[i], phiUse[i] = map[ssa.Value]bool{}, map[ssa.Value]bool{}, map[ssa.Value]bool{}
		fi.liveIn[i] = map[ssa.Value]bool{}
		for _, in := range b.Instrs {
			if phi, ok := in.(*ssa.Phi); ok {
				def[i][phi] = true
				continue
			}
			for _, op := range in.Operands(nil) {
				if *op == nil {
					continue
				}
				switch (*op).(type) {
				case *ssa.Const, *ssa.Function, *ssa.Builtin, *ssa.Global:
					continue
				}
				if !def[i][*op] {
					use[i][*op] = true
				} else if phi, ok := (*op).(*ssa.Phi); ok && phi.Block() == b {
					// a phi used in its own block is resolved by the edge taken:
					// it is part of the state at block entry (not propagated to
					// predecessors, see below)
					use[i][*op] = true
				}
			}
			if v, ok := in.(ssa.Value); ok {
				def[i][v] = true
			}
		}
	}
	for _, b := range fn.Blocks {
		for _, in := range b.Instrs {
			phi, ok := in.(*ssa.Phi)
			if !ok {
				break
			}
			for k, e := range phi.Edges {
				switch e.(type) {
				case *ssa.Const, *ssa.Function, *ssa.Builtin, *ssa.Global:
					continue
				}
				phiUse[b.Preds[k].Index][e] = true
			}
		}
	}
	for changed := true; changed; {
		changed = false
		for i := n - 1; i >= 0; i-- {
			b := fn.Blocks[i]
			out := map[ssa.Value]bool{}
			for v := range phiUse[i] {
				out[v] = true
			}
			for _, s := range b.Succs {
				for v := range fi.liveIn[s.Index] {
					// phis of s are defined in s, not live-in through this edge
					if p, ok := v.(*ssa.Phi); ok && p.Block() == s {
						continue
					}
					out[v] = true
				}
			}
			in := fi.liveIn[i]
			for v := range use[i] {
				if !in[v] {
					in[v] = true
					changed = true
				}
			}
			for v := range out {
				if !def[i][v] && !in[v] {
					in[v] = true
					changed = true
				}
			}
			// phis defined here are needed when used here or later
			for v := range def[i] {
				if _, ok := v.(*ssa.Phi); ok && (use[i][v] || out[v]) && !in[v] {
					in[v] = true
					changed = true
				}
			}
		}
	}
	w.info[fn] = fi
	return fi
}

// allocLive: is the local read (loaded, passed, captured) in a block reachable
// from b?
func (w *Walker) allocLive(fi *fnInfo, a *ssa.Alloc, b *ssa.BasicBlock) bool {
	if a.Parent() != b.Parent() {
		return true
	}
	refs := a.Referrers()
	if refs == nil {
		return true
	}
	var check func(v ssa.Value, depth int) bool
	check = func(v ssa.Value, depth int) bool {
		rs := v.Referrers()
		if rs == nil {
			return true
		}
		for _, r := range *rs {
			if st, ok := r.(*ssa.Store); ok && st.Addr == v {
				continue
			}
			if fi.reach[b.Index][r.Block().Index] {
				switch x := r.(type) {
				case *ssa.FieldAddr:
					if depth < 3 && check(x, depth+1) {
						return true
					}
					continue
				case *ssa.IndexAddr:
					if depth < 3 && check(x, depth+1) {
						return true
					}
					continue
				}
				return true
			}
		}
		return false
	}
	return check(a, 0)
}

func (w *Walker) digest(st *wstate, b *ssa.BasicBlock) uint64 {
	var parts []string
	for fi, fr := range st.frames {
		blk := b
		if fi != len(st.frames)-1 {
			blk = st.frames[fi+1].retBlock
		}
		info := w.infoOf(fr.fn)
		parts = append(parts, "F:"+fr.fn.Name())
		var env []string
		for v, s := range fr.env {
			switch v.(type) {
			case *ssa.Parameter, *ssa.FreeVar:
				continue
			}
			if blk != nil && (info.liveIn[blk.Index][v] || (fi != len(st.frames)-1)) {
				env = append(env, v.Name()+"="+s)
			}
		}
		sort.Strings(env)
		parts = append(parts, env...)
		var onp []string
		li := w.loopsOf(fr.fn)
		for ob := range fr.onPath {
			if _, isHeader := li.headers[ob]; !isHeader {
				continue // only loop headers can be re-entered (reducible flow)
			}
			onp = append(onp, string(rune('A'+ob.Index%26))+string(rune('a'+ob.Index/26)))
		}
		sort.Strings(onp)
		parts = append(parts, strings.Join(onp, ""))
	}
	top := st.top()
	info := w.infoOf(top.fn)
	var sto []string
	for k, v := range st.store {
		if strings.HasPrefix(k, "&alloc:") {
			base := k
			if i := strings.IndexAny(k[len("&alloc:"):], ".["); i >= 0 {
				base = k[:len("&alloc:")+i]
			}
			if a, ok := w.allocs[base]; ok && len(st.frames) == 1 && !w.allocLive(info, a, b) {
				continue
			}
		}
		sto = append(sto, k+"="+v)
	}
	sort.Strings(sto)
	parts = append(parts, sto...)
	parts = append(parts, "R:"+st.rel.String())
	parts = append(parts, "H:"+strings.Join(st.held, ","))
	h := fnv.New64a()
	h.Write([]byte{byte(b.Index), byte(b.Index >> 8)})
	for _, p := range parts {
		h.Write([]byte(p))
		h.Write([]byte{1})
	}
	var th [8]byte
	for i := 0; i < 8; i++ {
		th[i] = byte(st.thash >> (8 * i))
	}
	h.Write(th[:])
	return h.Sum64()
}
