package main

import (
	"fmt"
	"go/types"
	"strings"

	"golang.org/x/tools/go/ssa"
)

// Rules on the receiver, the per-instance downloaders and the concurrency limiter
// (C16, C08-R4, C05-R8, C15-R4).

const (
	fnDlLoadOnce = "syncer/receiver.(*Downloader).LoadOnce"
	fnDlRun      = "syncer/receiver.(*Downloader).Run"
	fnRecvRun    = "syncer/receiver.(*Receiver).RunOnce"
	fnAcquire    = "utils/climit.(*ConcurrencyLimit).Acquire"
	fnRelease    = "utils/climit.(*Token).Release"
	fnMarkCorr   = "syncer/receiver.(*Receiver).MarkCorrupt"
)

// C16-R1 TOKEN-PAIRING, C16-R2 OVERWRITE-CLOSED, C08-R4a CORRUPT-IGNORED (downloader side).
func ruleDownloaderLoad(c *Check, rPair, rOver, rCorrupt string) {
	fn, paths := c.walkFn(rPair, fnDlLoadOnce, WalkConfig{})
	if paths == nil {
		return
	}
	pos := c.P.Pos(fn.Pos())
	d := param(fn, 0)
	ni := param(fn, 2)
	nRet, bad, badO, badC := 0, 0, 0, 0
	nOver, nCorrupt, nBlob := 0, 0, 0
	// does the OnClose closure release its captured token?
	// The closure releases a captured variable; that variable is, in the parent,
	// the local that holds the result of Acquire on the decompress limiter
	// (identified by what is stored into it, not by its name).
	isDecompAcquire := func(v ssa.Value) bool {
		call, ok := v.(*ssa.Call)
		if !ok {
			return false
		}
		callee := call.Common().StaticCallee()
		return callee != nil && calleeName(callee) == fnAcquire && len(call.Common().Args) == 1 &&
			strings.HasSuffix(renderAddr(call.Common().Args[0]), ".decompressedSnapshotLimit")
	}
	closureReleases := func(name string) (bool, string) {
		if strings.HasSuffix(name, "$bound") {
			// a method value: the method releases a field of its receiver, and the
			// receiver bound here carries the decompress token in that field
			mc := findMakeClosure(fn, name)
			if mc == nil || len(mc.Bindings) != 1 {
				return false, ""
			}
			obj, _ := mc.Fn.(*ssa.Function).Object().(*types.Func)
			if obj == nil {
				return false, ""
			}
			m := c.P.SSA.FuncValue(obj)
			if m == nil || m.Blocks == nil || len(m.Params) == 0 {
				return false, ""
			}
			w := Walk(c.P, m, WalkConfig{})
			field := ""
			pre := "param:" + m.Params[0].Name() + "."
			for i := range w.Paths {
				for _, e := range callsOf(&w.Paths[i], fnRelease) {
					if strings.HasPrefix(e.Args[0], pre) && !strings.Contains(e.Args[0][len(pre):], ".") {
						field = e.Args[0][len(pre):]
					}
				}
			}
			if field == "" {
				return false, ""
			}
			for _, v := range structFieldInit(mc.Bindings[0], field) {
				if isDecompAcquire(v) {
					return true, "decompress-token"
				}
			}
			return true, "other"
		}
		cl := c.P.Func(name)
		if cl == nil {
			return false, ""
		}
		w := Walk(c.P, cl, WalkConfig{})
		freeName := ""
		for i := range w.Paths {
			for _, e := range callsOf(&w.Paths[i], fnRelease) {
				if strings.HasPrefix(e.Args[0], "*free:") {
					freeName = strings.TrimPrefix(e.Args[0], "*free:")
				}
			}
		}
		if freeName == "" {
			return false, ""
		}
		for _, v := range closureFreeInit(fn, cl, freeName) {
			if isDecompAcquire(v) {
				return true, "decompress-token"
			}
		}
		return true, "other"
	}
	for i := range paths {
		p := &paths[i]
		if p.End != "return" {
			continue
		}
		nRet++
		acq := callsOf(p, fnAcquire)
		released := map[string]bool{}
		for _, r := range callsOf(p, fnRelease) {
			released[r.Args[0]] = true
		}
		for _, a := range acq {
			which := "download"
			if strings.HasSuffix(a.Args[0], ".decompressedSnapshotLimit") {
				which = "decompress"
			}
			if released[a.Res] {
				continue
			}
			// transferred into the stored update's OnClose?
			transferred := false
			if which == "decompress" {
				for _, e := range p.Events {
					if e.Kind == "mapupdate" && strings.HasSuffix(e.Addr, ".snapshotsByInstance") {
						oc, _ := litField(e.Val, "OnClose")
						if strings.HasPrefix(oc, "closure:") {
							rel, bind := closureReleases(strings.TrimPrefix(oc, "closure:"))
							if rel && bind == "decompress-token" {
								transferred = true
							}
						}
					}
				}
			}
			if !transferred {
				bad++
				c.Bad(rPair, fnDlLoadOnce+"/token-released:"+which, "a path returns from LoadOnce holding the "+which+" token: neither released nor handed to the stored update's OnClose (after as many such paths as the configured limit every downloader blocks forever)", c.pathPos(p), describe(c, p))
			}
		}
		ld := callsOf(p, "snapshot.LoadData")
		// the compressed blob exists from Load until LoadData has consumed it:
		// the download token must cover that whole interval, including the wait
		// for a decompress token (that wait is what bounds the blobs in memory)
		var dlTok *Event
		for _, a := range acq {
			if !strings.HasSuffix(a.Args[0], ".decompressedSnapshotLimit") {
				dlTok = a
			}
		}
		for _, l := range callsOf(p, "iface:simpleblob.Interface.Load") {
			nBlob++
			if dlTok == nil || eventIndex(p, dlTok) > eventIndex(p, l) {
				bad++
				c.Bad(rPair, fnDlLoadOnce+"/blob-under-token", "a blob is downloaded without holding a download token", evPos(c, l), nil)
				continue
			}
			end := len(p.Events)
			if len(ld) == 1 {
				end = eventIndex(p, ld[0])
			}
			for _, r := range callsOf(p, fnRelease) {
				if r.Args[0] == dlTok.Res && !r.Defd && eventIndex(p, r) < end {
					bad++
					c.Bad(rPair, fnDlLoadOnce+"/blob-under-token", "the download token is released while the downloaded blob is still held (before it has been decoded): while downloaders wait for a decompress token, every further instance downloads and keeps its blob, so memory_downloaded_snapshots no longer bounds the blobs in memory", evPos(c, r), describe(c, p))
				}
			}
		}
		if len(ld) == 1 {
			okd, f := boolCond(p, "isnil("+ld[0].Res+"#1)", -1)
			if f && !okd {
				// corrupt blob
				nCorrupt++
				mc := callsOf(p, fnMarkCorr)
				lastSet := false
				for _, e := range p.Events {
					if e.Kind == "store" && e.Addr == "&"+d+".last" && e.Val == ni {
						lastSet = true
					}
				}
				if !(len(mc) == 1 && mc[0].Args[1] == ni+".FullName" && lastSet && !retIsNilErr(p)) {
					badC++
					c.Bad(rCorrupt, fnDlLoadOnce+"/corrupt-marked", "an undecodable blob is not marked corrupt by its full name, remembered as processed (d.last = ni) and reported as an error", c.pathPos(p), describe(c, p))
				}
			}
			if f && okd {
				// success: the stored update
				var mu *Event
				for j := range p.Events {
					if p.Events[j].Kind == "mapupdate" && strings.HasSuffix(p.Events[j].Addr, ".snapshotsByInstance") {
						mu = &p.Events[j]
					}
				}
				if mu == nil || mu.Key != d+".instance" {
					bad++
					c.Bad(rOver, fnDlLoadOnce+"/stored", "a decoded snapshot is not stored under this downloader's instance", c.pathPos(p), nil)
					continue
				}
				if len(mu.Held) != 1 || !strings.HasSuffix(mu.Held[0], ".r.mu") {
					bad++
					c.Bad(rOver, fnDlLoadOnce+"/stored-under-lock", "snapshotsByInstance is written without the receiver's mutex", c.P.InstrPos(mu.Instr), nil)
				}
				sn, _ := litField(mu.Val, "Snapshot")
				nif, _ := litField(mu.Val, "NameInfo")
				if sn != ld[0].Res+"#0" || nif != ni {
					bad++
					c.Bad(rOver, fnDlLoadOnce+"/stored-content", "the stored update does not carry the decoded snapshot and its NameInfo", c.P.InstrPos(mu.Instr), nil)
				}
				// previous entry closed when present
				var lk string
				for _, cd := range p.Conds() {
					if cd.Atom.Kind == "bool" && strings.HasPrefix(cd.Atom.A, "lookup("+d+".r.snapshotsByInstance,"+d+".instance)@") {
						lk = strings.TrimSuffix(cd.Atom.A, "#1")
						if cd.Truth {
							nOver++
							cl := callsOf(p, "snapshot.(*Update).Close")
							if !(len(cl) == 1 && cl[0].Args[0] == "&{"+lk+"#0}") {
								badO++
								c.Bad(rOver, fnDlLoadOnce+"/overwritten-closed", "a not-yet-merged snapshot of the same instance is replaced without being closed: its decompress token leaks", c.pathPos(p), describe(c, p))
							}
						}
					}
				}
				if lk == "" {
					badO++
					c.Bad(rOver, fnDlLoadOnce+"/overwritten-looked-up", "the previous entry for the instance is not looked up before being replaced", c.pathPos(p), nil)
				}
			}
		}
	}
	if bad == 0 {
		c.Ok(rPair, fnDlLoadOnce+"/tokens", fmt.Sprintf("%d return paths: the download token is released on every path (deferred); the decompress token is released on the decode-error path and otherwise handed to the stored update's OnClose, which releases it", nRet), pos)
	}
	c.Floor(rPair, nRet, 3, "return paths of Downloader.LoadOnce")
	c.Floor(rPair, nBlob, 2, "paths downloading a blob")
	if badO == 0 {
		c.Ok(rOver, fnDlLoadOnce+"/overwritten-closed", fmt.Sprintf("the decoded snapshot replaces the instance's entry under the receiver's lock; on the %d path(s) where an entry existed it is closed afterwards", nOver), pos)
	}
	c.Floor(rOver, nOver, 1, "overwriting paths")
	if badC == 0 {
		c.Ok(rCorrupt, fnDlLoadOnce+"/corrupt-marked", fmt.Sprintf("%d decode-error path(s): token released, MarkCorrupt(ni.FullName), d.last = ni, error returned", nCorrupt), pos)
	}
	c.Floor(rCorrupt, nCorrupt, 1, "decode-error paths")
}

// C05-R8: MarkCorrupt only on a decode error of a successfully loaded blob.
func ruleMarkCorrupt(c *Check, rule string) {
	bad := 0
	for _, cl := range staticCallers(c.P, fnMarkCorr) {
		if cl != fnDlLoadOnce {
			bad++
			c.Bad(rule, "caller:"+cl, "MarkCorrupt is called from "+cl+": a snapshot must only be ignored for good when decoding it failed", "", nil)
		}
	}
	_, paths := c.walkFn(rule, fnDlLoadOnce, WalkConfig{})
	n := 0
	for i := range paths {
		p := &paths[i]
		for _, mc := range callsOf(p, fnMarkCorr) {
			n++
			ld := callsOf(p, "snapshot.LoadData")
			lo := callsOf(p, blobLoad)
			ok := len(ld) == 1 && len(lo) == 1 && ld[0].Args[0] == lo[0].Res+"#0" && mc.Args[2] == ld[0].Res+"#1"
			if ok {
				a, f1 := boolCond(p, "isnil("+lo[0].Res+"#1)", eventIndex(p, mc))
				b, f2 := boolCond(p, "isnil("+ld[0].Res+"#1)", eventIndex(p, mc))
				ok = f1 && a && f2 && !b
			}
			if !ok {
				bad++
				c.Bad(rule, fnDlLoadOnce+"/mark-corrupt-guard", "MarkCorrupt is reached on a path that is not 'Load succeeded ∧ LoadData failed' (e.g. a transient storage error): the instance's snapshot would be ignored for good and could drop out of the waiting set unmerged", evPos(c, mc), describe(c, p))
			}
		}
	}
	if bad == 0 {
		c.Ok(rule, fnDlLoadOnce+"/mark-corrupt-guard", fmt.Sprintf("MarkCorrupt is called only in Downloader.LoadOnce, on %d path(s), each with Load succeeded ∧ LoadData failed, passing that decode error", n), "")
	}
	c.Floor(rule, n, 1, "MarkCorrupt call paths")
}

// C16-R4 RETRY-SHAPE + notification (A ∨ B), C08-R4b.
func ruleRetryAndNotify(c *Check, rule string) {
	fn, paths := c.walkFn(rule, fnDlRun, WalkConfig{})
	if paths == nil {
		return
	}
	pos := c.P.Pos(fn.Pos())
	// the retry loop: the innermost loop around the LoadOnce call, in whichever
	// function (Run itself or a helper split off it) the call lives
	var innerOf func(call ssa.Instruction, d int) *ssa.BasicBlock
	innerOf = func(call ssa.Instruction, d int) *ssa.BasicBlock {
		var best *ssa.BasicBlock
		bestN := 0
		for _, b := range call.Parent().Blocks {
			if !isLoopHeader(b) {
				continue
			}
			body := loopBody(b)
			if body[call.Block()] && (best == nil || len(body) < bestN) {
				best, bestN = b, len(body)
			}
		}
		if best == nil && d < 3 && unknownHelper(call.Parent(), 0) {
			// the loop body was extracted: the loop is around the helper's call
			var site ssa.Instruction
			n := 0
			for _, g := range c.P.RepoFuncs() {
				for _, b := range g.Blocks {
					for _, in := range b.Instrs {
						if ci, ok := in.(ssa.CallInstruction); ok && sameFunc(ci.Common().StaticCallee(), call.Parent()) {
							site = in
							n++
						}
					}
				}
			}
			if n == 1 {
				return innerOf(site, d+1)
			}
		}
		return best
	}
	nFail, nOK := 0, 0
	retryOK, lastOK, giveUpOnlyWhenMarked := true, true, true
	for i := range paths {
		p := &paths[i]
		for _, lo := range callsOf(p, fnDlLoadOnce) {
			okl, f := boolCond(p, "isnil("+lo.Res+")", -1)
			if !f {
				continue
			}
			lastSet := false
			for _, e := range p.Events {
				if e.Kind == "store" && strings.HasSuffix(e.Addr, ".last") {
					lastSet = true
				}
			}
			if !okl {
				nFail++
				sl := callsOf(p, "utils.SleepContext")
				inner := innerOf(lo.Instr, 0)
				cont := inner != nil && p.EndPos != nil && p.EndPos.Parent() == inner.Parent() && p.End == fmt.Sprintf("backedge:%d", inner.Index)
				cancelled := p.End == "return" && !retIsNilErr(p) && len(sl) == 1
				if !(len(sl) == 1 && (cont || cancelled)) || lastSet {
					retryOK = false
					marked := false
					for _, cd := range p.Conds() {
						if cd.Atom.Kind == "cmp" && strings.Contains(cd.Atom.A+cd.Atom.B, ".last.FullName") && p.State.RelOf(cd.Atom.Dom, cd.Atom.A, cd.Atom.B) == EQ {
							marked = true
						}
					}
					if !marked || lastSet {
						giveUpOnlyWhenMarked = false
					}
				}
			} else {
				nOK++
				if !lastSet {
					lastOK = false
				}
			}
		}
	}
	// the retry loop re-reads the receiver's latest name under the lock each time
	reread := false
	for i := range paths {
		p := &paths[i]
		for _, e := range p.Events {
			if e.Kind == "field" {
				_ = e
			}
		}
		for _, cd := range p.Conds() {
			if strings.HasPrefix(cd.Atom.A, "lookup("+param(fn, 0)+".r.lastSeenByInstance,"+param(fn, 0)+".instance)@") {
				reread = true
			}
		}
	}
	B := retryOK && reread && nFail > 0
	// A: the receiver notifies on any change of the newest name. A is what
	// guarantees delivery of the promoted older snapshot for every
	// configuration: after a corrupt load the downloader's re-read only sees
	// the promoted name if the next listing happens within its retry sleep
	// (retry interval > poll interval), which is a property of the settings.
	A, detail := receiverNotifiesOnAnyChange(c, rule)
	switch {
	case A && B:
		c.Ok(rule, fnDlRun+"/retry-and-notify", fmt.Sprintf("a failed load (%d paths) sleeps (cancellable) and goes back to re-read the receiver's newest name for the instance, never marking it processed; the receiver notifies the downloader whenever the newest name of an instance changes (%s)", nFail, detail), pos)
	case A && giveUpOnlyWhenMarked:
		c.Ok(rule, fnDlRun+"/retry-and-notify", fmt.Sprintf("the receiver notifies the downloader whenever the newest name of an instance changes (%s); a failed load is retried except where the name was just recorded as processed (marked corrupt), which the notification covers", detail), pos)
	case A:
		c.Bad(rule, fnDlRun+"/retry-and-notify", "a failed load is neither retried (sleep, then re-read the newest name) nor known to be the marked-corrupt name: a transient storage error would leave the instance's newest snapshot undelivered until it publishes another", pos, nil)
	default:
		c.Bad(rule, fnDlRun+"/retry-and-notify", "the receiver does not notify on every change of an instance's newest name: when the newest blob is undecodable, the promoted older decodable snapshot is only delivered if the next listing happens to fall inside the downloader's retry sleep (retry interval > poll interval), otherwise never ("+detail+")", pos, nil)
	}
	c.Expect(lastOK && nOK > 0, rule, fnDlRun+"/last-after-success", "d.last = ni is set after a successful LoadOnce", "a successful load does not record the name as processed", pos)
	c.Floor(rule, nFail, 1, "failed-load paths in Downloader.Run")
}

// receiverNotifiesOnAnyChange: in Receiver.RunOnce an instance's newest
// snapshot is skipped only when its name equals the last notified one or it is
// the own instance outside start-up.
func receiverNotifiesOnAnyChange(c *Check, rule string) (bool, string) {
	inclOwn := param(c.P.Func(fnRecvRun), 2)
	fn, paths := c.walkFn(rule, fnRecvRun, WalkConfig{Memo: true,
		KeepEvent: func(e *Event) bool {
			return e.Kind == "ret" || e.Kind == "call" && (strings.Contains(e.Callee, "getDownloader") || strings.Contains(e.Callee, "NotifyNewSnapshot")) || e.Kind == "mapupdate" && strings.HasSuffix(e.Addr, "lastNotifiedByInstance")
		},
		KeepAtom: func(a Atom) bool {
			s := a.String()
			return strings.Contains(s, "lastNotifiedByInstance") || strings.Contains(s, inclOwn) || strings.Contains(s, ".ownInstance") || strings.Contains(s, "Timestamp") || strings.Contains(s, "next(range(")
		}})
	if paths == nil {
		return false, "RunOnce not analysable"
	}
	_ = fn
	ok := true
	nNotify, nSkip := 0, 0
	why := ""
	for i := range paths {
		p := &paths[i]
		if !strings.HasPrefix(p.End, "backedge:") {
			continue
		}
		// only the notification loop: it looks lastNotifiedByInstance up
		inLoop := false
		for _, cd := range p.Conds() {
			if strings.Contains(cd.Atom.String(), "lastNotifiedByInstance") {
				inLoop = true
			}
		}
		if !inLoop {
			continue
		}
		if len(callsOf(p, "syncer/receiver.(*Downloader).NotifyNewSnapshot")) == 1 {
			nNotify++
			continue
		}
		nSkip++
		same := false
		own := false
		for _, cd := range p.Conds() {
			s := cd.Atom.String()
			if cd.Atom.Kind == "cmp" && strings.Contains(s, ".FullName") && strings.Contains(s, "lastNotifiedByInstance") && p.State.RelOf("str", cd.Atom.A, cd.Atom.B) == EQ {
				same = true
			}
			if strings.Contains(s, ".ownInstance") && cd.Atom.Kind == "cmp" && p.State.RelOf("str", cd.Atom.A, cd.Atom.B) == EQ {
				if io, f := boolCond(p, param(fn, 2), -1); f && !io {
					own = true
				}
			}
		}
		if !same && !own {
			ok = false
			why = "a newest snapshot is passed over without notification on a path that has not established 'same name as last notified' or 'own instance outside start-up': " + strings.Join(p.CondStrings(), " ∧ ")
		}
	}
	if nNotify == 0 {
		return false, "no notifying path found"
	}
	if !ok {
		return false, why
	}
	return true, fmt.Sprintf("%d notifying and %d skipping path classes", nNotify, nSkip)
}

// C08-R4b / C15-R4: corrupt names flow into the ignore list, which gates the
// listing; only parsable snapshot-kind names are recorded.
func ruleReceiverListing(c *Check, rIgnore, rKind string) {
	fn, paths := c.walkFn(rIgnore, fnRecvRun, WalkConfig{Memo: true,
		KeepEvent: func(e *Event) bool {
			return e.Kind == "ret" || e.Kind == "mapupdate" || e.Kind == "call" && (strings.Contains(e.Callee, "ParseName") || strings.Contains(e.Callee, "Interface.List") || strings.Contains(e.Callee, "BlobList).Names"))
		},
		KeepAtom: func(a Atom) bool {
			s := a.String()
			return strings.Contains(s, "ignoredFilenames") || strings.Contains(s, "ParseName@") || strings.Contains(s, "Kind") || strings.Contains(s, "Interface.List@")
		}})
	if paths == nil {
		return
	}
	pos := c.P.Pos(fn.Pos())
	r := param(fn, 0)
	nIgn, nRec, bad, badK := 0, 0, 0, 0
	prefixOK := false
	for i := range paths {
		p := &paths[i]
		for _, l := range callsOf(p, blobList) {
			if l.Args[2] == r+".prefix" {
				prefixOK = true
			}
		}
		for _, e := range p.Events {
			if e.Kind != "mapupdate" {
				continue
			}
			switch {
			case e.Addr == r+".ignoredFilenames" && strings.HasPrefix(e.Key, "next(range("+r+".corruptSnapshots)"):
				nIgn++
				if e.Val != "const:true" || len(e.Held) != 1 {
					bad++
					c.Bad(rIgnore, fnRecvRun+"/corrupt-to-ignored", "corrupt snapshot names are not copied into the ignore list under the receiver's lock", c.P.InstrPos(e.Instr), nil)
				}
			case strings.HasPrefix(e.Addr, "makemap") && strings.HasSuffix(e.Key, "#0.InstanceID"):
				nRec++
				pn := strings.TrimSuffix(e.Key, "#0.InstanceID")
				perr, f1 := boolCond(p, "isnil("+pn+"#1)", -1)
				kind := p.State.RelOf("str", pn+"#0.Kind", "const:\"snapshot\"")
				var name string
				for _, pc := range callsOf(p, "snapshot.ParseName") {
					if pc.Res == pn {
						name = pc.Args[0]
					}
				}
				ign, f2 := condTruth(p, "lookup("+r+".ignoredFilenames,"+name+")", -1)
				if !(f1 && perr && kind == EQ && e.Val == pn+"#0") {
					badK++
					c.Bad(rKind, fnRecvRun+"/kind-filter", "a listed name is recorded as an instance's snapshot without being successfully parsed and of kind snapshot", c.P.InstrPos(e.Instr), describe(c, p))
				}
				if !(f2 && !ign) {
					bad++
					c.Bad(rIgnore, fnRecvRun+"/ignored-gates-listing", "a listed name is considered without passing the ignore list (corrupt snapshots would be retried forever and block the older decodable one)", c.P.InstrPos(e.Instr), describe(c, p))
				}
			}
		}
	}
	if bad == 0 {
		c.Ok(rIgnore, fnRecvRun+"/ignore-list", fmt.Sprintf("names marked corrupt are copied into ignoredFilenames under the lock (%d paths) and every recorded name (%d paths) passed the ignore test first", nIgn, nRec), pos)
	}
	c.Floor(rIgnore, nIgn, 1, "corrupt→ignored copies")
	c.Floor(rIgnore, nRec, 1, "recorded names")
	if badK == 0 {
		c.Ok(rKind, fnRecvRun+"/kind-filter", "only successfully parsed names of kind snapshot are recorded per instance (later names overwrite earlier ones in listing order)", pos)
	}
	c.Expect(prefixOK, rKind, fnRecvRun+"/prefix", "the receiver lists its own prefix r.prefix", "the receiver does not list r.prefix", pos)
	// prefix = dbname + "__"
	nf, np := c.walkFn(rKind, "syncer/receiver.New", WalkConfig{})
	if np != nil {
		okp := false
		for _, p := range np {
			for k, v := range p.Store {
				if strings.HasSuffix(k, ".prefix") && v == "("+param(nf, 2)+" + const:\"__\")" {
					okp = true
				}
			}
		}
		c.Expect(okp, rKind, "syncer/receiver.New/prefix", "the receiver's prefix is the database name + \"__\"", "the receiver's listing prefix is not dbname + \"__\"", c.P.Pos(nf.Pos()))
	}
}

// C16-R6 LIMITER and C16-R7 Next.
func ruleLimiter(c *Check, rule string) {
	name := "utils/climit.New"
	fn, paths := c.walkFn(rule, name, WalkConfig{})
	if paths == nil {
		return
	}
	pos := c.P.Pos(fn.Pos())
	limit := param(fn, 2)
	// the channel capacity and the number of tokens sent are the same clamped limit
	okCap, okSend := false, false
	for i := range paths {
		p := &paths[i]
		for k, v := range p.Store {
			if strings.HasSuffix(k, ".ch") && strings.HasPrefix(v, "makechan(") {
				capv := strings.TrimSuffix(strings.TrimPrefix(v, "makechan("), v[strings.LastIndex(v, ")"):])
				lt := p.State.RelOf("int", limit, "const:1")
				if capv == limit && lt&LT == 0 || capv == "const:1" && lt == LT {
					okCap = true
				}
			}
		}
		if strings.HasPrefix(p.End, "backedge:") {
			nsend := 0
			for _, e := range p.Events {
				if e.Kind == "send" {
					nsend++
				}
			}
			// a counting loop 0..L-1 (classic or rotated form) with one send per cycle
			for _, rv := range p.Rets {
				eq := strings.Index(rv, "=(loop:")
				if eq < 0 || !strings.HasSuffix(rv, " + const:1)") || nsend != 1 {
					continue
				}
				ctr := strings.TrimSuffix(rv[eq+2:], " + const:1)")
				if phiInitOf(fn, rv[:eq]) != "const:0" {
					continue
				}
				for _, cd := range p.Conds() {
					a := cd.Atom
					if a.Kind != "cmp" || (a.B != limit && a.B != "const:1") {
						continue
					}
					if (a.A == ctr || a.A == "("+ctr+" + const:1)") && p.State.RelOf("int", a.A, a.B) == LT {
						okSend = true
					}
				}
			}
		}
	}
	c.Expect(okCap && okSend, rule, name, "the limiter's channel has capacity max(limit,1) and is pre-filled with exactly that many tokens", "the limiter's channel capacity and the number of tokens put into it do not both equal max(limit,1)", pos)
	// Tokens are minted only in Acquire, after a receive from the channel
	minted := map[string]bool{}
	for _, f := range c.P.RepoFuncs() {
		for _, b := range f.Blocks {
			for _, in := range b.Instrs {
				if al, ok := in.(*ssa.Alloc); ok {
					if pt, ok := al.Type().Underlying().(*types.Pointer); ok {
						if n, ok := pt.Elem().(*types.Named); ok && n.Obj().Name() == "Token" && n.Obj().Pkg() != nil && strings.HasSuffix(n.Obj().Pkg().Path(), "utils/climit") {
							minted[QualName(f)] = true
						}
					}
				}
			}
		}
	}
	okMint := len(minted) == 1 && minted[fnAcquire]
	af, ap := c.walkFn(rule, fnAcquire, WalkConfig{})
	recvFirst := ap != nil
	for i := range ap {
		p := &ap[i]
		nrecv := 0
		for _, e := range p.Events {
			if e.Kind == "recv" && strings.HasSuffix(e.Addr, ".ch") {
				nrecv++
			}
		}
		if nrecv != 1 {
			recvFirst = false
		}
	}
	if af != nil {
		c.Expect(okMint && recvFirst, rule, fnAcquire, "Tokens are created only in Acquire, each after exactly one receive from the limiter's channel", fmt.Sprintf("Tokens are created in %v, or Acquire does not take exactly one channel token per Token", keys(minted)), c.P.Pos(af.Pos()))
	}
	// Release: idempotent, gives the token back once
	rf, rp := c.walkFn(rule, fnRelease, WalkConfig{})
	if rp != nil {
		okr := true
		nSend := 0
		for i := range rp {
			p := &rp[i]
			rel, f := condTruth(p, ".released", -1)
			sends := 0
			for _, e := range p.Events {
				if e.Kind == "send" {
					sends++
					if len(e.Held) != 1 {
						okr = false
					}
				}
			}
			if f && rel && (sends != 0 || p.Rets[0] != "const:0") {
				okr = false
			}
			if f && !rel {
				nSend++
				set := false
				for _, e := range p.Events {
					if e.Kind == "store" && strings.HasSuffix(e.Addr, ".released") && e.Val == "const:true" {
						set = true
					}
				}
				if sends != 1 || !set {
					okr = false
				}
			}
			if !f {
				okr = false
			}
		}
		c.Expect(okr && nSend > 0, rule, fnRelease, "Release gives the token back exactly once (guarded by 'released' under the token's mutex) and is a no-op returning 0 afterwards", "Token.Release is not idempotent under its mutex (released ⇒ no send, return 0; otherwise one send and released = true)", c.P.Pos(rf.Pos()))
	}
	// Next deletes the delivered entry under the lock
	nn := "syncer/receiver.(*Receiver).Next"
	nf, np := c.walkFn(rule, nn, WalkConfig{})
	if np != nil {
		okn, nd := true, 0
		for i := range np {
			p := &np[i]
			if p.End != "return" {
				continue
			}
			dels := callsOf(p, "builtin:delete")
			if p.Rets[0] != "const:\"\"" && strings.Contains(p.Rets[0], "range(") {
				// an entry from the map is returned: it must have been deleted under the lock
				nd++
				if len(dels) != 1 || len(dels[0].Held) != 1 || !strings.HasSuffix(dels[0].Args[0], ".snapshotsByInstance") {
					okn = false
				}
			}
		}
		c.Expect(okn && nd > 0, rule, nn, "an update handed to the sync loop is removed from snapshotsByInstance under the receiver's lock", "Receiver.Next returns a stored update without deleting it under the lock (it would be delivered again and its token released twice / never)", c.P.Pos(nf.Pos()))
	}
}
