package main

import (
	"fmt"
)

func fmtU(xs []uint64) string { return fmt.Sprint(xs) }
func fmtS(xs []string) string { return fmt.Sprintf("%q", xs) }

// ruleSetNewVal: T-SETNEWVAL — empty => Del, equal => nothing, else Put.
func ruleSetNewVal(c *Check, rule string) {
	name := "lmdbenv/strategy.setNewVal"
	fn := c.P.Func(name)
	if fn == nil {
		c.Undecided(rule, name, "function not found", "")
		return
	}
	c.UseFunc(name)
	w := Walk(c.P, fn, WalkConfig{})
	if w.Err != nil {
		c.Undecided(rule, name, w.Err.Error(), "")
		return
	}
	c.Evaluations += len(w.Paths)
	pNew := "param:" + fn.Params[4].Name()
	pOld := "param:" + fn.Params[3].Name()
	pKey := "param:" + fn.Params[2].Name()
	pos := c.P.Pos(fn.Pos())
	ok := true
	nEq, nDel, nPut := 0, 0, 0
	for i := range w.Paths {
		p := &w.Paths[i]
		lenRel := p.State.RelOf("int", "len("+pNew+")", "const:0")
		eqRel := p.State.RelOf("bytes", pNew, pOld)
		puts := p.Calls(func(s string) bool { return s == "(*lmdb.Txn).Put" })
		dels := p.Calls(func(s string) bool { return s == "(*lmdb.Txn).Del" })
		switch {
		case lenRel == EQ:
			nDel++
			if len(dels) != 1 || len(puts) != 0 || dels[0].Args[2] != pKey {
				ok = false
				c.Bad(rule, name+"/empty-deletes", "path with an empty new value does not perform exactly one Del of the key", c.P.InstrPos(p.EndPos), p.Describe(c.P))
			}
		case lenRel&EQ == 0 && eqRel == EQ:
			nEq++
			if len(puts)+len(dels) != 0 {
				ok = false
				c.Bad(rule, name+"/equal-no-write", "new value equal to the stored one but the path writes", c.P.InstrPos(p.EndPos), p.Describe(c.P))
			}
		case lenRel&EQ == 0 && eqRel&EQ == 0:
			nPut++
			if len(puts) != 1 || len(dels) != 0 || puts[0].Args[2] != pKey || puts[0].Args[3] != pNew {
				ok = false
				c.Bad(rule, name+"/changed-puts", "path with a changed non-empty value does not perform exactly one Put(key, newVal)", c.P.InstrPos(p.EndPos), p.Describe(c.P))
			}
		default:
			ok = false
			c.Bad(rule, name+"/undetermined", fmt.Sprintf("path does not determine len(new)==0 (%s) and new==old (%s) before acting", lenRel, eqRel), c.P.InstrPos(p.EndPos), p.Describe(c.P))
		}
	}
	if ok {
		if nEq == 0 || nDel == 0 || nPut == 0 {
			c.Undecided(rule, name, fmt.Sprintf("expected all three cell kinds, found equal=%d empty=%d changed=%d", nEq, nDel, nPut), pos)
			return
		}
		c.Ok(rule, name, fmt.Sprintf("%d paths: empty ⇒ one Del(key); equal ⇒ no LMDB mutation; changed ⇒ one Put(key,new)", len(w.Paths)), pos)
	}
}
