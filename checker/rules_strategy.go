package main

import (
	"fmt"
	"go/token"
	"go/types"
	"golang.org/x/tools/go/ssa"
	"strings"
)

func fmtU(xs []uint64) string { return fmt.Sprint(xs) }
func fmtS(xs []string) string { return fmt.Sprintf("%q", xs) }

// ruleSetNewVal: T-SETNEWVAL — empty => Del, equal => nothing, else Put.
func ruleSetNewVal(c *Check, rule string) {
	name := "lmdbenv/strategy.setNewVal"
	fn := c.P.Func(name)
	if fn == nil {
		// folded into Update: the composed table is checked there
		ruleUpdateLoop(c, rule)
		return
	}
	c.UseFunc(name)
	w := Walk(c.P, fn, WalkConfig{})
	if w.Err != nil {
		c.Undecided(rule, name, w.Err.Error(), "")
		return
	}
	c.Evaluations += len(w.Paths)
	pNew := "param:" + fn.Params[4].Name()
	pOld := "param:" + fn.Params[3].Name()
	pKey := "param:" + fn.Params[2].Name()
	pos := c.P.Pos(fn.Pos())
	ok := true
	nEq, nDel, nPut := 0, 0, 0
	for i := range w.Paths {
		p := &w.Paths[i]
		lenRel := p.State.RelOf("int", "len("+pNew+")", "const:0")
		eqRel := p.State.RelOf("bytes", pNew, pOld)
		puts := p.Calls(func(s string) bool { return s == "(*lmdb.Txn).Put" })
		dels := p.Calls(func(s string) bool { return s == "(*lmdb.Txn).Del" })
		switch {
		case lenRel == EQ:
			nDel++
			if len(dels) != 1 || len(puts) != 0 || dels[0].Args[2] != pKey {
				ok = false
				c.Bad(rule, name+"/empty-deletes", "path with an empty new value does not perform exactly one Del of the key", c.P.InstrPos(p.EndPos), p.Describe(c.P))
			}
		case lenRel&EQ == 0 && eqRel == EQ:
			nEq++
			if len(puts)+len(dels) != 0 {
				ok = false
				c.Bad(rule, name+"/equal-no-write", "new value equal to the stored one but the path writes", c.P.InstrPos(p.EndPos), p.Describe(c.P))
			}
		case lenRel&EQ == 0 && eqRel&EQ == 0:
			nPut++
			if len(puts) != 1 || len(dels) != 0 || puts[0].Args[2] != pKey || puts[0].Args[3] != pNew {
				ok = false
				c.Bad(rule, name+"/changed-puts", "path with a changed non-empty value does not perform exactly one Put(key, newVal)", c.P.InstrPos(p.EndPos), p.Describe(c.P))
			}
		default:
			ok = false
			c.Bad(rule, name+"/undetermined", fmt.Sprintf("path does not determine len(new)==0 (%s) and new==old (%s) before acting", lenRel, eqRel), c.P.InstrPos(p.EndPos), p.Describe(c.P))
		}
	}
	if ok {
		if nEq == 0 || nDel == 0 || nPut == 0 {
			c.Undecided(rule, name, fmt.Sprintf("expected all three cell kinds, found equal=%d empty=%d changed=%d", nEq, nDel, nPut), pos)
			return
		}
		c.Ok(rule, name, fmt.Sprintf("%d paths: empty ⇒ one Del(key); equal ⇒ no LMDB mutation; changed ⇒ one Put(key,new)", len(w.Paths)), pos)
	}
}

// ---------------------------------------------------------------------------
// T-ITERUPDATE: the callback of IterUpdate (C19-R2, C10-R1, C04-R2b).
// ---------------------------------------------------------------------------

const (
	txnPut  = "(*lmdb.Txn).Put"
	txnDel  = "(*lmdb.Txn).Del"
	curPut  = "(*lmdb.Cursor).Put"
	curDel  = "(*lmdb.Cursor).Del"
	txnDrop = "(*lmdb.Txn).Drop"
	itMerge = "iface:lmdbenv/strategy.Iterator.Merge"
	itClean = "iface:lmdbenv/strategy.Iterator.Clean"
	itNext  = "iface:lmdbenv/strategy.Iterator.Next"
)

func mutators(p *Path) []*Event {
	return callsOf(p, txnPut, txnDel, curPut, curDel, txnDrop)
}

// iterUpdateCallback: the function IterUpdate hands to iterBoth as the per-step
// callback — a closure of IterUpdate, or (after a refactoring) a method passed
// as a bound method value.
func iterUpdateCallback(p *Program) string {
	name := fnIterUpd + "$callback"
	if p.Func(name) != nil {
		return name
	}
	root := p.Func(fnIterUpd)
	if root == nil {
		return name
	}
	// the iterBoth call may have moved into a helper split off IterUpdate, or
	// into a closure IterUpdate hands to such a helper
	seen := map[*ssa.Function]bool{}
	var find func(fn *ssa.Function, d int) string
	find = func(fn *ssa.Function, d int) string {
		if fn == nil || seen[fn] || d > 4 {
			return ""
		}
		seen[fn] = true
		for _, b := range fn.Blocks {
			for _, in := range b.Instrs {
				switch x := in.(type) {
				case *ssa.MakeClosure:
					if cf, ok := x.Fn.(*ssa.Function); ok && cf.Parent() == fn && !strings.HasSuffix(cf.Name(), "$bound") {
						if r := find(cf, d+1); r != "" {
							return r
						}
					}
				case *ssa.Call:
					callee := x.Common().StaticCallee()
					if callee == nil {
						continue
					}
					if QualName(callee) != "lmdbenv/strategy.iterBoth" {
						if unknownHelper(callee, 0) {
							if r := find(callee, d+1); r != "" {
								return r
							}
						}
						continue
					}
					if len(x.Common().Args) < 4 {
						continue
					}
					v := x.Common().Args[3]
					if ct, ok := v.(*ssa.ChangeType); ok {
						v = ct.X
					}
					mc, ok := v.(*ssa.MakeClosure)
					if !ok {
						continue
					}
					f, ok := mc.Fn.(*ssa.Function)
					if !ok {
						continue
					}
					if strings.HasSuffix(f.Name(), "$bound") {
						if obj, ok := f.Object().(*types.Func); ok {
							if m := p.SSA.FuncValue(obj); m != nil {
								return QualName(m)
							}
						}
					}
					return QualName(f)
				}
			}
		}
		return ""
	}
	if r := find(root, 0); r != "" {
		return r
	}
	return name
}

func ruleIterUpdateTable(c *Check, rule string) {
	name := iterUpdateCallback(c.P)
	fn, paths := c.walkFn(rule, name, WalkConfig{})
	if paths == nil {
		return
	}
	pos := c.P.Pos(fn.Pos())
	po := 0
	if fn.Signature.Recv() != nil && envMethods[fn] == nil {
		po = 1 // a method: the receiver comes first (param() already skips it for a method standing for the closure)
	}
	itKey, dbKey, dbVal, itEOF, dbEOF := param(fn, po), param(fn, po+1), param(fn, po+2), param(fn, po+3), param(fn, po+4)
	appendFlag, _ := c.constValue2("github.com/PowerDNS/lmdb-go/lmdb", "Append")
	cells := map[string]int{}
	bad := 0
	fail := func(p *Path, cell, msg string) {
		bad++
		c.Bad(rule, name+"/"+cell, msg, c.pathPos(p), describe(c, p))
	}
	for i := range paths {
		p := &paths[i]
		muts := mutators(p)
		cleans := callsOf(p, itClean)
		merges := callsOf(p, itMerge)
		// a failing iterator or LMDB call must return an error without further mutation
		if p.End != "return" {
			fail(p, "shape", "the callback does not return")
			continue
		}
		e1, f1 := boolCond(p, itEOF, -1)
		kn, f2 := boolCond(p, "isnil("+itKey+")", -1)
		cleanCase := (f1 && e1) || (f2 && kn)
		if cleanCase {
			if len(merges) != 0 || len(cleans) != 1 || cleans[0].Args[1] != dbVal {
				fail(p, "db-only/clean-called", "a stored key absent from the input does not get exactly one Clean(stored value)")
				continue
			}
			cl := cleans[0]
			if ok, f := boolCond(p, "isnil("+cl.Res+"#1)", -1); !f || !ok {
				if len(muts) != 0 || retIsNilErr(p) {
					fail(p, "db-only/clean-error", "a failing Clean is not returned as an error before any mutation")
				}
				continue
			}
			isNil, fn1 := boolCond(p, "isnil("+cl.Res+"#0)", -1)
			eq := p.State.RelOf("bytes", cl.Res+"#0", dbVal)
			switch {
			case fn1 && isNil:
				cells["db-only:nil=>Del"]++
				if len(muts) != 1 || muts[0].Callee != curDel {
					fail(p, "db-only/nil-deletes", "Clean returned nil but the entry under the cursor is not deleted exactly once")
				}
			case fn1 && !isNil && eq == EQ:
				cells["db-only:equal=>none"]++
				if len(muts) != 0 {
					fail(p, "db-only/equal-no-write", "Clean returned the stored value unchanged but the callback writes")
				}
			case fn1 && !isNil && eq&EQ == 0:
				cells["db-only:changed=>Put"]++
				if len(muts) != 1 || muts[0].Callee != txnPut || muts[0].Args[2] != dbKey || muts[0].Args[3] != cl.Res+"#0" {
					fail(p, "db-only/changed-puts", "Clean returned a changed value but it is not Put under the stored key exactly once")
				}
			default:
				fail(p, "db-only/undetermined", "the result of Clean is acted upon without determining nil / equal / changed")
			}
			continue
		}
		if !(f1 && !e1 && f2 && !kn) {
			fail(p, "dispatch", "the callback acts without determining whether the input side is exhausted (itEOF / itKey == nil)")
			continue
		}
		if len(cleans) != 0 || len(merges) == 0 || merges[0].Args[1] != "nil" {
			fail(p, "input/merge-nil-first", "an input key does not start with Merge(nil)")
			continue
		}
		m0 := merges[0]
		if ok, f := boolCond(p, "isnil("+m0.Res+"#1)", -1); !f || !ok {
			if len(muts) != 0 || retIsNilErr(p) {
				fail(p, "input/merge-error", "a failing Merge is not returned as an error before any mutation")
			}
			continue
		}
		de, fd := boolCond(p, dbEOF, -1)
		dk, fk := boolCond(p, "isnil("+dbKey+")", -1)
		switch {
		case fd && de, fd && !de && fk && dk:
			// input-only key: at end of database (append) or behind the cursor (put)
			atEnd := de
			l0 := p.State.RelOf("int", "len("+m0.Res+"#0)", "const:0")
			if len(merges) != 1 {
				fail(p, "input-only/one-merge", "an input-only key is merged more than once")
				continue
			}
			switch {
			case l0 == EQ:
				cells["input-only:empty=>none"]++
				if len(muts) != 0 {
					fail(p, "input-only/empty-no-write", "Merge(nil) returned nothing to store but the callback writes")
				}
			case l0&EQ == 0:
				if atEnd {
					cells["input-only@end:value=>Append"]++
					if len(muts) != 1 || muts[0].Callee != curPut || muts[0].Args[1] != itKey || muts[0].Args[2] != m0.Res+"#0" || muts[0].Args[3] != "const:"+appendFlag {
						fail(p, "input-only/append", "a new key past the end of the DBI is not appended exactly once as (input key, merged value, MDB_APPEND)")
					}
				} else {
					cells["input-only:value=>Put"]++
					if len(muts) != 1 || muts[0].Callee != txnPut || muts[0].Args[2] != itKey || muts[0].Args[3] != m0.Res+"#0" {
						fail(p, "input-only/put", "a new key before the cursor is not Put exactly once as (input key, merged value)")
					}
				}
			default:
				fail(p, "input-only/undetermined", "the merged value is stored or dropped without testing whether it is empty")
			}
		case fd && !de && fk && !dk:
			// both sides have the key
			if len(merges) != 2 || merges[1].Args[1] != dbVal {
				if len(merges) == 1 {
					fail(p, "both/merge-stored", "a key present on both sides is not merged with the stored value")
				}
				continue
			}
			m1 := merges[1]
			if ok, f := boolCond(p, "isnil("+m1.Res+"#1)", -1); !f || !ok {
				if len(muts) != 0 || retIsNilErr(p) {
					fail(p, "both/merge-error", "a failing Merge(stored) is not returned as an error before any mutation")
				}
				continue
			}
			l1 := p.State.RelOf("int", "len("+m1.Res+"#0)", "const:0")
			eq := p.State.RelOf("bytes", m1.Res+"#0", dbVal)
			switch {
			case l1 == EQ:
				cells["both:empty=>Del"]++
				if len(muts) != 1 || muts[0].Callee != curDel {
					fail(p, "both/empty-deletes", "Merge(stored) returned nothing but the entry is not deleted exactly once")
				}
			case l1&EQ == 0 && eq == EQ:
				cells["both:equal=>none"]++
				if len(muts) != 0 {
					fail(p, "both/equal-no-write", "Merge(stored) returned the stored value unchanged but the callback writes (write amplification; a kept entry must leave LMDB untouched)")
				}
			case l1&EQ == 0 && eq&EQ == 0:
				cells["both:changed=>Put"]++
				if len(muts) != 1 || muts[0].Callee != txnPut || muts[0].Args[2] != itKey || muts[0].Args[3] != m1.Res+"#0" {
					fail(p, "both/changed-puts", "Merge(stored) returned a changed value but it is not Put under the key exactly once")
				}
			default:
				fail(p, "both/undetermined", "the merged value is acted upon without determining empty / equal / changed")
			}
		default:
			fail(p, "dispatch-db", "the callback acts on an input key without determining the database side (dbEOF / dbKey == nil)")
		}
	}
	want := []string{"db-only:nil=>Del", "db-only:equal=>none", "db-only:changed=>Put", "input-only:empty=>none", "input-only@end:value=>Append", "input-only:value=>Put", "both:empty=>Del", "both:equal=>none", "both:changed=>Put"}
	missing := []string{}
	for _, w := range want {
		if cells[w] == 0 {
			missing = append(missing, w)
		}
	}
	if bad == 0 && len(missing) == 0 {
		c.Ok(rule, name+"/table", fmt.Sprintf("%d paths, all nine decision cells present and exact: %v", len(paths), cells), pos)
	} else if len(missing) > 0 {
		c.Bad(rule, name+"/cells-missing", fmt.Sprintf("decision cells not found in the callback: %v", missing), pos, nil)
	}
}

// ---------------------------------------------------------------------------
// iterBoth: one step of the lock-step walk (C19-R3), the sortedness check
// (C19-R4) and the comparator selection (C19-R5a, C11-R4a).
// ---------------------------------------------------------------------------

func ruleIterBoth(c *Check, rStep, rSorted, rCmp string) {
	name := "lmdbenv/strategy.iterBoth"
	fn, paths := c.walkFn(rStep, name, WalkConfig{})
	if paths == nil {
		return
	}
	pos := c.P.Pos(fn.Pos())
	intKey := param(fn, 2)
	cbName := "dyn:" + param(fn, 3)
	// the pending iterator key and database key: the variables handed to the
	// callback as its first two arguments
	isCb := func(cc *ssa.CallCommon) bool { return len(fn.Params) > 3 && cc.Value == ssa.Value(fn.Params[3]) }
	itVar, dbVar := callArgVarAny(fn, isCb, 0), callArgVarAny(fn, isCb, 1)
	if itVar == "" || dbVar == "" {
		c.Undecided(rStep, name+"/keys", "cannot identify the pending iterator key and database key (arguments of the callback)", pos)
		return
	}
	// the exhaustion flags: the bool tested together with "key == nil" before a
	// side is advanced; the previous key: the destination of copy(_, input key)
	itEOFv, dbEOFv := eofFlagOf(fn, itVar), eofFlagOf(fn, dbVar)
	prevVar := ""
	for _, b := range fn.Blocks {
		for _, in := range b.Instrs {
			call, ok := in.(*ssa.Call)
			if !ok {
				continue
			}
			fromNext := func(v ssa.Value) bool {
				if varNameOf(v) == itVar {
					return true
				}
				if ex, ok := v.(*ssa.Extract); ok {
					if cl, ok := ex.Tuple.(*ssa.Call); ok && cl.Common().IsInvoke() && cl.Common().Method.Name() == "Next" {
						return true
					}
				}
				return false
			}
			if bi, ok := call.Common().Value.(*ssa.Builtin); ok && bi.Name() == "copy" && fromNext(call.Common().Args[1]) {
				if sl, ok := call.Common().Args[0].(*ssa.Slice); ok {
					prevVar = varNameOf(sl.X)
				} else {
					prevVar = varNameOf(call.Common().Args[0])
				}
			}
		}
	}
	if itEOFv == "" || dbEOFv == "" || prevVar == "" {
		c.Undecided(rStep, name+"/state", fmt.Sprintf("cannot identify the exhaustion flags (%q, %q) and the remembered previous key (%q) of the walk", itEOFv, dbEOFv, prevVar), pos)
		return
	}
	cmpInt := "lmdbenv/strategy.cmpIntegerLittleEndian"
	cells := map[string]int{}
	bad, badS, badC := 0, 0, 0
	nSorted, nUnsorted, nFirst := 0, 0, 0
	for i := range paths {
		p := &paths[i]
		var hdr string
		for _, e := range p.Events {
			if e.Kind == "cond" && strings.HasPrefix(e.Cond.Atom.A, "isnil(loop:"+itVar+"@") {
				hdr = strings.TrimSuffix(strings.TrimPrefix(e.Cond.Atom.A, "isnil(loop:"+itVar+"@"), ")")
				break
			}
		}
		if hdr == "" {
			continue
		}
		L := func(n string) string { return "loop:" + n + "@" + hdr }
		// comparator on this path
		ik, f1 := boolCond(p, intKey, -1)
		le, f2 := boolCond(p, "global:lmdbenv/strategy.isLittleEndian", -1)
		useInt := f1 && ik && f2 && le
		relOf := func(a, b string) Rel {
			if useInt {
				return p.State.RelOf("int", cmpInt+"("+a+", "+b+")", "const:0")
			}
			return p.State.RelOf("bytes", a, b)
		}
		for _, e := range p.Events {
			if e.Kind == "call" && (e.Callee == cmpInt || e.Callee == "bytes.Compare") {
				if (e.Callee == cmpInt) != useInt {
					badC++
					c.Bad(rCmp, name+"/comparator-selection", fmt.Sprintf("keys are compared with %s on a path with integerKey=%v, little-endian=%v: integer-key DBIs must be walked in native integer order and all others byte-wise", e.Callee, ik, le), evPos(c, &e), nil)
				}
			}
		}
		// effective state at the decision point
		kIt, eofIt := L(itVar), ""
		fetchedIt := false
		if nx := callsOf(p, itNext); len(nx) == 1 {
			okn, f := boolCond(p, "isnil("+nx[0].Res+"#1)", -1)
			if f && okn {
				kIt, fetchedIt = nx[0].Res+"#0", true
			} else if f && !okn {
				if eof, f := condTruth(p, nx[0].Res+"#1 == global:io.EOF", -1); f && p.State.RelOf("int", nx[0].Res+"#1", "global:io.EOF") == EQ {
					_ = eof
					kIt, eofIt = "nil", "true"
				} else {
					if !(p.End == "return" && !retIsNilErr(p)) {
						bad++
						c.Bad(rStep, name+"/next-error", "an iterator error other than io.EOF does not abort", c.pathPos(p), describe(c, p))
					}
					continue
				}
			}
		}
		if eofIt == "" {
			if t, f := boolCond(p, L(itEOFv), -1); f {
				eofIt = fmt.Sprint(t)
			}
		}
		// sortedness check on a freshly fetched key
		if fetchedIt {
			lenPrev := p.State.RelOf("int", "len("+L(prevVar)+")", "const:0")
			r := relOf(L(prevVar), kIt)
			errRet := p.End == "return" && !retIsNilErr(p) && len(callsOf(p, cbName)) == 0 && len(callsOf(p, "(*lmdb.Cursor).Get")) == 0
			switch {
			case errRet && invalidArgumentPath(p):
				// a defensive refusal of something that is not valid input
			case errRet:
				nUnsorted++
				if lenPrev == EQ || r&LT != 0 {
					badS++
					c.Bad(rSorted, name+"/rejects-valid", fmt.Sprintf("an input key is rejected as unsorted on a path where it may be valid (previous key length %s 0, previous ? key: %s): valid input must never be rejected", lenPrev, r), c.pathPos(p), describe(c, p))
				}
			default:
				if lenPrev == EQ {
					nFirst++
				} else {
					nSorted++
					if r != LT {
						badS++
						c.Bad(rSorted, name+"/accepts-unsorted", fmt.Sprintf("an input key is accepted on a path where it is not established to be strictly greater than the previous key in the DBI's order (previous ? key: %s)", r), c.pathPos(p), describe(c, p))
					}
				}
				// previous key remembered
				cp := callsOf(p, "builtin:copy")
				okc := false
				for _, cc := range cp {
					if cc.Args[1] == kIt && strings.HasPrefix(cc.Args[0], "slice("+L(prevVar)) {
						okc = true
					}
				}
				if !okc {
					badS++
					c.Bad(rSorted, name+"/prev-updated", "an accepted input key is not remembered as the previous key for the next check", c.pathPos(p), nil)
				}
			}
			if errRet {
				continue
			}
		}
		kDb, vDb, eofDb := L(dbVar), L(callArgVarAny(fn, isCb, 2)), ""
		if g := callsOf(p, "(*lmdb.Cursor).Get"); len(g) == 1 {
			okg, f := boolCond(p, "isnil("+g[0].Res+"#2)", -1)
			if f && okg {
				kDb, vDb = g[0].Res+"#0", g[0].Res+"#1"
			} else if f && !okg {
				if nf, f := boolCond(p, "lmdb.IsNotFound("+g[0].Res+"#2)", -1); f && nf {
					kDb, vDb, eofDb = g[0].Res+"#0", g[0].Res+"#1", "true"
				} else {
					if !(p.End == "return" && !retIsNilErr(p)) {
						bad++
						c.Bad(rStep, name+"/cursor-error", "a cursor error other than not-found does not abort", c.pathPos(p), describe(c, p))
					}
					continue
				}
			}
		}
		if eofDb == "" {
			if t, f := boolCond(p, L(dbEOFv), -1); f {
				eofDb = fmt.Sprint(t)
			}
		}
		cb := callsOf(p, cbName)
		if eofIt == "true" && eofDb == "true" {
			cells["both-exhausted=>done"]++
			if !(p.End == "return" && retIsNilErr(p) && len(cb) == 0) {
				bad++
				c.Bad(rStep, name+"/done", "both sides exhausted but the walk does not end successfully without a further callback", c.pathPos(p), describe(c, p))
			}
			continue
		}
		if len(cb) != 1 {
			if p.End == "return" && !retIsNilErr(p) {
				continue
			}
			bad++
			c.Bad(rStep, name+"/one-callback", fmt.Sprintf("%d callbacks on one step", len(cb)), c.pathPos(p), describe(c, p))
			continue
		}
		a := cb[0].Args
		nextIt, nextDb := backedgeVal(p, itVar), backedgeVal(p, dbVar)
		cont := strings.HasPrefix(p.End, "backedge:")
		check := func(cell string, want []string, wantIt, wantDb string) {
			cells[cell]++
			okk := len(a) == 5
			for j := 0; okk && j < 5; j++ {
				if a[j] != want[j] {
					okk = false
				}
			}
			if !okk {
				bad++
				c.Bad(rStep, name+"/"+cell, fmt.Sprintf("callback called with %v, expected %v", a, want), evPos(c, cb[0]), describe(c, p))
				return
			}
			if cont && (nextIt != wantIt || nextDb != wantDb) {
				bad++
				c.Bad(rStep, name+"/"+cell+"/advance", fmt.Sprintf("after the callback the walk continues with itKey=%s dbKey=%s, expected itKey=%s dbKey=%s (advance exactly the side(s) that were consumed)", nextIt, nextDb, wantIt, wantDb), c.pathPos(p), nil)
			}
			if !cont {
				// leaving after the callback: only with its error
				ok2, f := boolCond(p, "isnil("+cb[0].Res+")", -1)
				if !(f && !ok2 && p.End == "return" && !retIsNilErr(p)) {
					bad++
					c.Bad(rStep, name+"/"+cell+"/callback-error", "the walk ends after a callback that did not fail", c.pathPos(p), nil)
				}
			}
		}
		switch {
		case eofIt == "true":
			check("input-exhausted=>db-only", []string{"nil", kDb, vDb, "const:true", "const:false"}, kIt, "nil")
		case eofDb == "true":
			check("db-exhausted=>input-only", []string{kIt, "nil", "nil", "const:false", "const:true"}, "nil", kDbNext(kDb, L(dbVar)))
		default:
			r := relOf(kDb, kIt)
			switch r {
			case LT:
				check("db<input=>db-only", []string{"nil", kDb, vDb, "const:false", "const:false"}, kIt, "nil")
			case EQ:
				check("db==input=>both", []string{kIt, kDb, vDb, "const:false", "const:false"}, "nil", "nil")
			case GT:
				check("db>input=>input-only", []string{kIt, "nil", "nil", "const:false", "const:false"}, "nil", kDb)
			default:
				bad++
				c.Bad(rStep, name+"/compare", fmt.Sprintf("a callback is made without the key order being determined (db ? input: %s)", r), evPos(c, cb[0]), describe(c, p))
			}
		}
	}
	wantCells := []string{"both-exhausted=>done", "input-exhausted=>db-only", "db-exhausted=>input-only", "db<input=>db-only", "db==input=>both", "db>input=>input-only"}
	var missing []string
	for _, w := range wantCells {
		if cells[w] == 0 {
			missing = append(missing, w)
		}
	}
	if len(missing) > 0 {
		c.Bad(rStep, name+"/cells-missing", fmt.Sprintf("step cells not found: %v", missing), pos, nil)
	} else if bad == 0 {
		c.Ok(rStep, name+"/step-table", fmt.Sprintf("%d paths; all six step cells exact (arguments of the callback and which side advances): %v", len(paths), cells), pos)
	}
	if badS == 0 {
		c.Ok(rSorted, name+"/sorted-check", fmt.Sprintf("every freshly fetched input key is either the first one (no previous key: %d paths), strictly greater than the previous key in the selected order (%d paths, previous key then updated), or rejected with an error (%d paths, only when not strictly greater)", nFirst, nSorted, nUnsorted), pos)
	}
	c.Floor(rSorted, nSorted, 2, "accepted-key paths")
	c.Floor(rSorted, nUnsorted, 2, "rejected-key paths")
	c.Floor(rSorted, nFirst, 1, "first-key paths")
	if badC == 0 {
		c.Ok(rCmp, name+"/comparator-selection", "cmpIntegerLittleEndian is used exactly on paths with integerKey ∧ little-endian host, bytes.Compare on all others, for the sortedness check and the step comparison alike", pos)
	}
}

func kDbNext(kDb, loopDb string) string {
	return kDb
}

// T-CMPINT (C19-R5b).
func ruleCmpInt(c *Check, rule string) {
	name := "lmdbenv/strategy.cmpIntegerLittleEndian"
	fn, paths := c.walkFn(rule, name, WalkConfig{})
	if paths == nil {
		return
	}
	a, b := param(fn, 0), param(fn, 1)
	ai, bi := "lmdbenv/strategy.bytesToInt("+a+")", "lmdbenv/strategy.bytesToInt("+b+")"
	bad := 0
	seen := map[string]bool{}
	// the library's three-way comparison of the two decoded integers, arguments in order
	if len(paths) == 1 && paths[0].End == "return" && len(paths[0].Rets) == 1 {
		p := &paths[0]
		for j := range p.Events {
			e := &p.Events[j]
			if e.Kind != "call" || e.Static == nil || e.Res != p.Rets[0] || len(e.Args) != 2 {
				continue
			}
			o := e.Static
			if og := o.Origin(); og != nil {
				o = og
			}
			if o.Pkg == nil || o.Pkg.Pkg.Path() != "cmp" || o.Name() != "Compare" || len(e.Static.TypeArgs()) != 1 {
				continue
			}
			bt, isB := e.Static.TypeArgs()[0].Underlying().(*types.Basic)
			if isB && bt.Info()&types.IsUnsigned != 0 && e.Args[0] == ai && e.Args[1] == bi {
				seen["<"], seen["=="], seen[">"] = true, true, true
				paths = nil
			}
		}
	}
	for i := range paths {
		p := &paths[i]
		r := p.State.RelOf("int", ai, bi)
		want := map[Rel]string{LT: "const:-1", GT: "const:1", EQ: "const:0"}[r]
		if want == "" || p.End != "return" || p.Rets[0] != want {
			bad++
			c.Bad(rule, name+"/three-way", fmt.Sprintf("bytesToInt(a) %s bytesToInt(b) returns %v", r, p.Rets), c.pathPos(p), nil)
		}
		seen[r.String()] = true
	}
	if bad == 0 && len(seen) == 3 {
		c.Ok(rule, name+"/three-way", "returns -1 / 0 / +1 exactly for a<b / a==b / a>b as unsigned integers (arguments in order)", c.P.Pos(fn.Pos()))
	} else if bad == 0 {
		c.Undecided(rule, name+"/three-way", "expected three outcome cells", c.P.Pos(fn.Pos()))
	}
	// bytesToInt: width table
	bn := "lmdbenv/strategy.bytesToInt"
	bf, bp := c.walkFn(rule, bn, WalkConfig{})
	if bp == nil {
		return
	}
	arg := param(bf, 0)
	widths := map[int64]string{}
	for i := range bp {
		p := &bp[i]
		iv := p.State.ints["len("+arg+")"]
		if iv != nil && iv.lo == iv.hi {
			widths[iv.lo] = p.Rets[0]
		}
	}
	okw := true
	for w, dec := range map[int64]string{2: "Uint16", 4: "Uint32", 8: "Uint64"} {
		got := widths[w]
		if !strings.Contains(got, "(encoding/binary.littleEndian)."+dec+"(global:encoding/binary.LittleEndian, "+arg+")") {
			okw = false
			c.Bad(rule, bn+fmt.Sprintf("/width-%d", w), fmt.Sprintf("a %d-byte key is decoded as %q, expected little-endian %s", w, got, dec), c.P.Pos(bf.Pos()), nil)
		}
	}
	if okw {
		c.Ok(rule, bn+"/widths", "2-, 4- and 8-byte keys are decoded with the little-endian decoder of the same width (native unsigned integer order on little-endian hosts)", c.P.Pos(bf.Pos()))
	}
}

// strategy.Update loop (C19-R1 / C01-R4b) and EmptyPut/doPut (C19-R7).
func ruleUpdateLoop(c *Check, rule string) {
	// setNewVal (when it exists as a function) is walked as part of Update: the
	// composed table is the same whether the helper is separate or folded in
	fn, paths := c.walkFn(rule, fnStratUpd, WalkConfig{Inline: func(f *ssa.Function, d int) bool {
		return QualName(f) == "lmdbenv/strategy.setNewVal"
	}})
	if paths == nil {
		return
	}
	pos := c.P.Pos(fn.Pos())
	txn, dbi := param(fn, 0), param(fn, 1)
	n, bad := 0, 0
	for i := range paths {
		p := &paths[i]
		nx := callsOf(p, itNext)
		if len(nx) == 0 && p.End == "return" {
			bad++
			c.Bad(rule, fnStratUpd+"/bypass", "Update returns on a path that never asks the iterator for a key (the per-key lookup and merge are bypassed)", c.pathPos(p), describe(c, p))
			continue
		}
		if len(nx) != 1 {
			continue
		}
		if p.End == "return" && retIsNilErr(p) && p.State.RelOf("int", nx[0].Res+"#1", "global:io.EOF") != EQ {
			bad++
			c.Bad(rule, fnStratUpd+"/early-success", "Update returns successfully although the iterator has not reported io.EOF: the remaining keys of the snapshot are never merged and the transaction still commits", c.pathPos(p), describe(c, p))
			continue
		}
		okn, f := boolCond(p, "isnil("+nx[0].Res+"#1)", -1)
		if !f {
			bad++
			c.Bad(rule, fnStratUpd+"/next-error", "the error of Next is not examined", c.pathPos(p), describe(c, p))
			continue
		}
		if !okn {
			eof := p.State.RelOf("int", nx[0].Res+"#1", "global:io.EOF") == EQ
			if eof != (p.End == "return" && retIsNilErr(p)) {
				bad++
				c.Bad(rule, fnStratUpd+"/end", "the loop does not end successfully exactly on io.EOF", c.pathPos(p), describe(c, p))
			}
			continue
		}
		key := nx[0].Res + "#0"
		gets := callsOf(p, "(*lmdb.Txn).Get")
		if len(gets) != 1 || gets[0].Args[0] != txn || gets[0].Args[1] != dbi || gets[0].Args[2] != key {
			bad++
			c.Bad(rule, fnStratUpd+"/get", "the stored value is not read with Get(dbi, key) for the key returned by Next", c.pathPos(p), describe(c, p))
			continue
		}
		g := gets[0]
		gerr, gf := boolCond(p, "isnil("+g.Res+"#1)", -1)
		if gf && !gerr {
			if nf, f := boolCond(p, "lmdb.IsNotFound("+g.Res+"#1)", -1); !(f && nf) {
				if !(p.End == "return" && !retIsNilErr(p)) {
					bad++
					c.Bad(rule, fnStratUpd+"/get-error", "a Get error other than not-found does not abort", c.pathPos(p), nil)
				}
				continue
			}
		}
		mg := callsOf(p, itMerge)
		if len(mg) != 1 || mg[0].Args[1] != g.Res+"#0" {
			bad++
			c.Bad(rule, fnStratUpd+"/merge", "the key is not merged with exactly the value stored for it", c.pathPos(p), describe(c, p))
			continue
		}
		merr, mf := boolCond(p, "isnil("+mg[0].Res+"#1)", -1)
		if mf && !merr {
			if !(p.End == "return" && !retIsNilErr(p)) {
				bad++
				c.Bad(rule, fnStratUpd+"/merge-error", "a Merge error does not abort", c.pathPos(p), nil)
			}
			continue
		}
		n++
		stored, merged := g.Res+"#0", mg[0].Res+"#0"
		muts := mutators(p)
		lenRel := p.State.RelOf("int", "len("+merged+")", "const:0")
		eqRel := p.State.RelOf("bytes", merged, stored)
		switch {
		case lenRel == EQ:
			if !(len(muts) == 1 && muts[0].Callee == txnDel && muts[0].Args[0] == txn && muts[0].Args[1] == dbi && muts[0].Args[2] == key) {
				bad++
				c.Bad(rule, fnStratUpd+"/apply", "an empty merge result (delete decision) is not applied as exactly one Del(dbi, key)", c.pathPos(p), describe(c, p))
			}
		case lenRel&EQ == 0 && eqRel == EQ:
			if len(muts) != 0 {
				bad++
				c.Bad(rule, fnStratUpd+"/apply", "a merge result equal to the stored value (keep decision) causes an LMDB write", c.pathPos(p), describe(c, p))
			}
		case lenRel&EQ == 0 && eqRel&EQ == 0:
			if !(len(muts) == 1 && muts[0].Callee == txnPut && muts[0].Args[0] == txn && muts[0].Args[1] == dbi && muts[0].Args[2] == key && muts[0].Args[3] == merged) {
				bad++
				c.Bad(rule, fnStratUpd+"/apply", "a changed non-empty merge result is not applied as exactly one Put(dbi, key, merged)", c.pathPos(p), describe(c, p))
			}
		default:
			// the path ended (error of Del/Put) or did not determine the cell
			if !(p.End == "return" && !retIsNilErr(p)) {
				bad++
				c.Bad(rule, fnStratUpd+"/apply", fmt.Sprintf("the merge decision is applied without determining empty (%s) and equal-to-stored (%s) first", lenRel, eqRel), c.pathPos(p), describe(c, p))
			}
		}
	}
	if bad == 0 {
		c.Ok(rule, fnStratUpd+"/loop", fmt.Sprintf("%d applying paths: every key from Next is looked up, merged with exactly its stored value (not-found ⇒ nil) and the decision applied (empty ⇒ one Del, equal ⇒ no write, changed ⇒ one Put of the merged value); io.EOF ends the loop, every other error aborts", n), pos)
	}
	c.Floor(rule, n, 2, "applying paths of strategy.Update")
}

func ruleEmptyPut(c *Check, rule string) {
	fn, paths := c.walkFn(rule, fnEmptyPut, WalkConfig{})
	if paths == nil {
		return
	}
	pos := c.P.Pos(fn.Pos())
	n, bad := 0, 0
	for i := range paths {
		p := &paths[i]
		dp := callsOf(p, "lmdbenv/strategy.doPut")
		dr := callsOf(p, txnDrop)
		if len(dp) == 0 {
			continue
		}
		n++
		if !(len(dr) == 1 && eventIndex(p, dr[0]) < eventIndex(p, dp[0]) && dr[0].Args[2] == "const:false" && dr[0].Args[1] == param(fn, 1) && dp[0].Args[1] == param(fn, 1)) {
			bad++
			c.Bad(rule, fnEmptyPut+"/drop-then-put", "the DBI is not emptied (Drop(dbi, false), keeping the DBI) before being refilled", c.pathPos(p), describe(c, p))
		}
		if tr, f := boolCond(p, "isnil("+dr[0].Res+")", eventIndex(p, dp[0])); !f || !tr {
			bad++
			c.Bad(rule, fnEmptyPut+"/drop-error", "the refill runs although emptying the DBI failed", c.pathPos(p), nil)
		}
	}
	if bad == 0 && n > 0 {
		c.Ok(rule, fnEmptyPut, "Drop(dbi, del=false) succeeds before doPut refills the same DBI", pos)
	}
	c.Floor(rule, n, 1, "EmptyPut paths reaching doPut")
	// doPut: every input key is merged with nil and put unless empty
	dn := "lmdbenv/strategy.doPut"
	df, dps := c.walkFn(rule, dn, WalkConfig{})
	if dps == nil {
		return
	}
	nb, badp, nEnd := 0, 0, 0
	for i := range dps {
		p := &dps[i]
		if p.End == "return" && retIsNilErr(p) {
			// the refill ends successfully only when the iterator is exhausted
			nx := callsOf(p, itNext)
			if len(nx) == 1 && p.State.RelOf("int", nx[0].Res+"#1", "global:io.EOF") == EQ && len(mutators(p)) == 0 {
				nEnd++
			} else {
				badp++
				c.Bad(rule, dn+"/early-success", "the refill returns successfully although the iterator has not reported io.EOF: the remaining entries are never written into the emptied DBI", c.pathPos(p), describe(c, p))
			}
			continue
		}
		if !strings.HasPrefix(p.End, "backedge:") {
			continue
		}
		nb++
		nx := callsOf(p, itNext)
		mg := callsOf(p, itMerge)
		muts := mutators(p)
		if len(nx) != 1 || len(mg) != 1 || mg[0].Args[1] != "nil" {
			badp++
			c.Bad(rule, dn+"/merge-nil", "an input key is not merged against nil", c.pathPos(p), describe(c, p))
			continue
		}
		l := p.State.RelOf("int", "len("+mg[0].Res+"#0)", "const:0")
		if l == EQ {
			ie, f := boolCond(p, param(df, 3), -1)
			switch {
			case f && ie && len(muts) != 0:
				badp++
				c.Bad(rule, dn+"/empty-skipped", "an empty merge result is written into the freshly emptied DBI", c.pathPos(p), nil)
			case f && !ie && !(len(muts) == 1 && muts[0].Callee == txnDel && muts[0].Args[2] == nx[0].Res+"#0"):
				badp++
				c.Bad(rule, dn+"/empty-deletes", "an empty merge result does not delete the key (non-empty DBI variant)", c.pathPos(p), nil)
			case !f:
				badp++
				c.Bad(rule, dn+"/empty-undetermined", "empty merge result handled without testing isEmpty", c.pathPos(p), nil)
			}
		} else if l&EQ == 0 {
			if len(muts) != 1 || muts[0].Callee != txnPut || muts[0].Args[2] != nx[0].Res+"#0" || muts[0].Args[3] != mg[0].Res+"#0" {
				badp++
				c.Bad(rule, dn+"/put", "a non-empty merge result is not Put once under its key", c.pathPos(p), describe(c, p))
			}
		} else {
			badp++
			c.Bad(rule, dn+"/undetermined", "emptiness of the merge result not tested", c.pathPos(p), nil)
		}
	}
	if badp == 0 && nb > 0 {
		c.Ok(rule, dn, fmt.Sprintf("%d continuing iterations: Merge(nil) per key; empty ⇒ skipped, otherwise one Put(key, value); %d successful end(s), each on io.EOF", nb, nEnd), c.P.Pos(df.Pos()))
	}
	c.Floor(rule, nEnd, 1, "successful ends of doPut")
}

// ruleNoOwnRejection: a strategy fails only because the iterator or LMDB
// failed (or, where listed, because the input order is wrong). A path that
// returns an error although every call on it succeeded rejects valid input on
// its own authority: the iterator's decisions are then not applied.
func ruleNoOwnRejection(c *Check, rule string, names ...string) {
	for _, name := range names {
		fn, paths := c.walkFn(rule, name, WalkConfig{})
		name = strings.TrimPrefix(name, "?")
		if paths == nil {
			continue
		}
		n, bad := 0, 0
		for i := range paths {
			p := &paths[i]
			if p.End != "return" || len(p.Rets) == 0 || retIsNilErr(p) {
				continue
			}
			n++
			caused := false
			for _, cd := range p.Conds() {
				a := cd.Atom
				if a.Kind == "bool" && strings.HasPrefix(a.A, "isnil(") && !cd.Truth && strings.Contains(a.A, "@t") {
					caused = true
				}
			}
			if invalidArgumentPath(p) {
				caused = true // a nil argument or a key no LMDB can hold is not valid input
			}
			last := p.Rets[len(p.Rets)-1]
			if strings.HasSuffix(last, "ErrNotSorted") {
				caused = true // order violations are decided by the sorted-check rule
			}
			for j := range p.Events {
				e := &p.Events[j]
				if e.Kind == "call" && e.Res == last && strings.Contains(strings.Join(e.Args, ","), "ErrNotSorted") {
					caused = true
				}
			}
			if !caused {
				bad++
				c.Bad(rule, name+"/own-rejection", "the strategy returns an error on a path where neither the iterator nor LMDB reported one: valid input is refused (and what was applied before it stays applied only if the caller aborts)", c.pathPos(p), describe(c, p))
			}
		}
		if bad == 0 {
			c.Ok(rule, name+"/errors-have-cause", fmt.Sprintf("all %d error returns follow a failed iterator or LMDB call (or report unsorted input)", n), c.P.Pos(fn.Pos()))
		}
	}
}

// invalidArgumentPath: the path has established that an argument is nil or that
// a key or value is longer than LMDB's maximum key size (511): a defensive
// refusal on such a path rejects nothing that could be valid input.
func invalidArgumentPath(p *Path) bool {
	for _, cd := range p.Conds() {
		a := cd.Atom
		if a.Kind == "bool" && cd.Truth && strings.HasPrefix(a.A, "isnil(param:") && !strings.Contains(a.A, ".") && !strings.Contains(a.A, "@") {
			return true
		}
		if a.Kind == "cmp" && a.Dom == "int" && strings.HasPrefix(a.A, "len(") {
			if k, ok := constInt(a.B); ok && k >= 511 && p.State.RelOf("int", a.A, a.B) == GT {
				return true
			}
		}
	}
	return false
}

// eofFlagOf: the loop-carried bool that is tested right after "keyVar == nil"
// (the `if key == nil && !eof` guard in front of advancing one side).
func eofFlagOf(fn *ssa.Function, keyVar string) string {
	for _, b := range fn.Blocks {
		iff, ok := b.Instrs[len(b.Instrs)-1].(*ssa.If)
		if !ok {
			continue
		}
		cmp, ok := iff.Cond.(*ssa.BinOp)
		if !ok || cmp.Op != token.EQL || varNameOf(cmp.X) != keyVar || !isNilConst(cmp.Y) {
			continue
		}
		nb := b.Succs[0]
		if len(nb.Instrs) == 0 {
			continue
		}
		if iff2, ok := nb.Instrs[len(nb.Instrs)-1].(*ssa.If); ok {
			v := iff2.Cond
			if u, ok := v.(*ssa.UnOp); ok && u.Op == token.NOT {
				v = u.X
			}
			if n := varNameOf(v); n != "" {
				return n
			}
		}
	}
	return ""
}
