package strategy

import (
	"encoding/binary"
	"testing"

	"github.com/PowerDNS/lightningstream/lmdbenv"
	"github.com/PowerDNS/lmdb-go/lmdb"
)

// F7: IterUpdate on an MDB_INTEGERKEY DBI rejects a valid input whose first
// key is integer 0 (sortedness check against the empty initial prevKey).
func TestF07_IntegerKeyZero(t *testing.T) {
	k := func(i uint32) string {
		b := make([]byte, 4)
		binary.LittleEndian.PutUint32(b, i)
		return string(b)
	}
	err := lmdbenv.TestEnv(func(env *lmdb.Env) error {
		return env.Update(func(txn *lmdb.Txn) error {
			dbi, err := txn.OpenDBI("ints", lmdb.Create|LMDBIntegerKeyFlag)
			if err != nil {
				return err
			}
			it := NewTestIterator([]lmdbenv.KVString{{Key: k(0), Val: "zero"}, {Key: k(1), Val: "one"}}, 0)
			return IterUpdate(txn, dbi, it)
		})
	})
	if err != nil {
		t.Fatalf("valid integer-key input rejected: %v", err)
	}
}
