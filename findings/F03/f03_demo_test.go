package snapshot

import (
	"testing"
	"time"

	"github.com/CrowdStrike/csproto"
)

func hugeLen(b []byte, v uint64) int { return csproto.EncodeVarint(b, v) }

// F3: a 64-bit length varint converted with int(v) becomes negative and
// passes the `remaining < size` check: panic (slice bounds) or negative skip
// (infinite loop).
func TestF03_NextNegativeLength(t *testing.T) {
	b := make([]byte, 40)
	o := 0
	o += csproto.EncodeTag(b[o:], FieldDBIEntries, csproto.WireTypeLengthDelimited)
	o += hugeLen(b[o:], ^uint64(0))
	d := &DBI{data: b[:o], flushed: true}
	defer func() {
		if r := recover(); r != nil {
			t.Fatalf("panic: %v", r)
		}
	}()
	if _, err := d.Next(); err == nil {
		t.Fatalf("expected error")
	}
}

func TestF03_IndexDataNegativeLength(t *testing.T) {
	b := make([]byte, 40)
	o := 0
	o += csproto.EncodeTag(b[o:], FieldDBIName, csproto.WireTypeLengthDelimited)
	o += hugeLen(b[o:], ^uint64(0))
	defer func() {
		if r := recover(); r != nil {
			t.Fatalf("panic: %v", r)
		}
	}()
	if _, err := NewDBIFromData(b[:o]); err == nil {
		t.Fatalf("expected error")
	}
}

func TestF03_KVNegativeLength(t *testing.T) {
	b := make([]byte, 40)
	o := 0
	o += csproto.EncodeTag(b[o:], FieldKVKey, csproto.WireTypeLengthDelimited)
	o += hugeLen(b[o:], ^uint64(0))
	defer func() {
		if r := recover(); r != nil {
			t.Fatalf("panic: %v", r)
		}
	}()
	var kv KV
	if err := kv.Unmarshal(b[:o]); err == nil {
		t.Fatalf("expected error")
	}
}

func TestF03_SkipTagNegative(t *testing.T) {
	// unknown LEN field whose length makes int(size)+n negative: the cursor
	// moves backwards and Next never terminates.
	b := make([]byte, 40)
	o := 0
	o += csproto.EncodeTag(b[o:], 15, csproto.WireTypeLengthDelimited)
	o += hugeLen(b[o:], ^uint64(0)-10) // int(size)+n == -1: back onto the tag
	d := &DBI{data: b[:o], flushed: true}
	done := make(chan error, 1)
	go func() {
		defer func() {
			if r := recover(); r != nil {
				done <- nil
			}
		}()
		_, err := d.Next()
		done <- err
	}()
	select {
	case err := <-done:
		if err == nil {
			t.Fatalf("expected an error")
		}
	case <-time.After(2 * time.Second):
		t.Fatalf("Next did not terminate (negative skip)")
	}
}
