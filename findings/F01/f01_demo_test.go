package syncer

import (
	"testing"

	"github.com/PowerDNS/lightningstream/lmdbenv/header"
	"github.com/PowerDNS/lightningstream/snapshot"
)

func f01merge(t *testing.T, stored []byte, kv snapshot.KV) []byte {
	t.Helper()
	it, err := NewNativeIterator(3, 1, snapshot.NewDBI(), 0, 7, 0)
	if err != nil {
		t.Fatal(err)
	}
	it.curKV = kv
	v, err := it.Merge(stored)
	if err != nil {
		t.Fatal(err)
	}
	return append([]byte(nil), v...)
}

// F1: equal timestamps, deleted marker vs live empty value: the result
// depends on the merge order.
func TestF01_TieBreakOrderIndependent(t *testing.T) {
	del := snapshot.KV{Key: []byte("k"), TimestampNano: 100, Flags: uint32(header.FlagDeleted)}
	live := snapshot.KV{Key: []byte("k"), TimestampNano: 100, Flags: 0, Value: []byte{}}
	ab := f01merge(t, f01merge(t, nil, del), live)
	ba := f01merge(t, f01merge(t, nil, live), del)
	ha, _, _ := header.Parse(ab)
	hb, _, _ := header.Parse(ba)
	if ha.Flags.IsDeleted() != hb.Flags.IsDeleted() {
		t.Fatalf("merge order dependent: del-then-live deleted=%v, live-then-del deleted=%v",
			ha.Flags.IsDeleted(), hb.Flags.IsDeleted())
	}
}
