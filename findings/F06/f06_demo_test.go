package syncer

// F06 demonstration / regression test: the start-up loop in Syncer.syncLoop
// that waits for the initial snapshot listing must be cancellable.
//
// Before commit "fix: make the wait for the initial snapshot listing
// cancellable" the loop retried a failing listing with a bare
// time.Sleep(time.Second) and never looked at the context, so Sync() could
// not be stopped while the storage backend was unreachable.
//
// This test PASSES on a tree with the fix and FAILS (after 3 s, it does not
// hang) on a tree without it.

import (
	"context"
	"errors"
	"sync/atomic"
	"testing"
	"time"

	"github.com/PowerDNS/simpleblob"
	"github.com/PowerDNS/simpleblob/backends/memory"
)

// f06FailingListBackend is a storage backend that is "unreachable" for
// listings: every List call fails. All other operations are passed on to the
// wrapped backend.
type f06FailingListBackend struct {
	simpleblob.Interface
	listCalls atomic.Int64
}

var errF06ListUnavailable = errors.New("F06 demo: storage listing unavailable")

func (b *f06FailingListBackend) List(ctx context.Context, prefix string) (simpleblob.BlobList, error) {
	b.listCalls.Add(1)
	return nil, errF06ListUnavailable
}

func TestF06_StartupListingCancellable(t *testing.T) {
	st := &f06FailingListBackend{Interface: memory.New()}
	s, _ := createInstance(t, "f06", st, true)

	const cancelAfter = 200 * time.Millisecond
	const mustReturnWithin = 3 * time.Second

	ctx, cancel := context.WithCancel(context.Background())
	defer cancel()
	time.AfterFunc(cancelAfter, cancel)

	t0 := time.Now()
	done := make(chan error, 1)
	go func() {
		done <- s.Sync(ctx)
	}()

	select {
	case err := <-done:
		t.Logf("Sync returned %v after %s (List was called %d times)",
			err, time.Since(t0).Round(time.Millisecond), st.listCalls.Load())
		if !errors.Is(err, context.Canceled) {
			t.Fatalf("expected Sync to return context.Canceled, got: %v", err)
		}
	case <-time.After(mustReturnWithin):
		t.Fatalf("Sync did NOT return within %s although its context was cancelled after %s: "+
			"the start-up wait for the initial snapshot listing ignores the context "+
			"(List was called %d times, every call failed; ctx.Err()=%v)",
			mustReturnWithin, cancelAfter, st.listCalls.Load(), ctx.Err())
	}
}
