package config

import (
	"testing"
	"time"
)

// F10: retention*3/4 overflows int64 for large retention_days when
// retention_load_cutoff_duration is set; the load cutoff then exceeds the
// sweeper retention (stale markers are re-added after being swept).
func TestF10_RetentionMinusCutoffOverflow(t *testing.T) {
	for _, days := range []float32{370, 36500, 50000, 100000} {
		sw := Sweeper{RetentionDays: days, RetentionLoadCutoffDuration: time.Hour}
		r, m := sw.RetentionDuration(), sw.RetentionDurationMinusCutoff()
		if m > r || m < r/4 {
			t.Errorf("days=%v: RetentionDurationMinusCutoff=%v not within [retention/4, retention=%v]", days, m, r)
		}
	}
}
