package storage

import (
	"testing"
	"time"

	"github.com/PowerDNS/simpleblob/backends/memory"
)

// F4: GetGlobal called before SetGlobal panics once the storage is set.
func TestF04_GetGlobalWaits(t *testing.T) {
	res := make(chan any, 1)
	go func() {
		defer func() { res <- recover() }()
		st := GetGlobal()
		if st == nil {
			res <- "nil storage returned"
			return
		}
		res <- nil
	}()
	time.Sleep(100 * time.Millisecond)
	SetGlobal(memory.New())
	select {
	case r := <-res:
		if r != nil {
			t.Fatalf("GetGlobal failed: %v", r)
		}
	case <-time.After(5 * time.Second):
		t.Fatal("GetGlobal did not return")
	}
}
