package sweeper

// F12 demo (C13): a failed slice transaction is swallowed while the stale
// limitReached flag of the previous slice is still true.
//
// Copy into syncer/sweeper/ and run:
//   GOPROXY=off GOFLAGS=-mod=mod go test -vet=off -count=1 -run TestF12 ./syncer/sweeper/
//
// Schedule: 2500 expired markers, one-nanosecond lock duration (a slice ends
// after 1000 entries), the application drops the DBI while the sweeper pauses
// between slices. Every following slice fails in OpenDBI; before the fix the
// error is ignored (limitReached is still true from the first slice) and the
// pass retries the same slice forever, so the DBIs after it are never swept
// again. After the fix the pass fails with the error and the next pass works.

import (
	"context"
	"fmt"
	"testing"
	"time"

	"github.com/PowerDNS/lightningstream/config"
	"github.com/PowerDNS/lightningstream/lmdbenv"
	"github.com/PowerDNS/lightningstream/lmdbenv/header"
	"github.com/PowerDNS/lmdb-go/lmdb"
	"github.com/sirupsen/logrus/hooks/test"
)

func TestF12SliceErrorSwallowed(t *testing.T) {
	conf := config.Sweeper{
		Enabled:         true,
		RetentionDays:   2,
		Interval:        time.Second,
		LockDuration:    time.Nanosecond,
		ReleaseDuration: 300 * time.Millisecond,
	}
	l, _ := test.NewNullLogger()
	err := lmdbenv.TestEnv(func(env *lmdb.Env) error {
		sw := New("test", conf, env, l, true)
		pastTS := header.TimestampFromTime(time.Now().Add(-50 * time.Hour))
		var dbi lmdb.DBI
		if err := env.Update(func(txn *lmdb.Txn) error {
			var err error
			dbi, err = txn.CreateDBI("aaa")
			if err != nil {
				return err
			}
			for i := 0; i < 2500; i++ {
				val := make([]byte, header.MinHeaderSize)
				header.PutBasic(val, pastTS, 1, header.FlagDeleted)
				if err := txn.Put(dbi, fmt.Appendf(nil, "key-%08d", i), val, 0); err != nil {
					return err
				}
			}
			return nil
		}); err != nil {
			return err
		}
		ctx, cancel := context.WithTimeout(context.Background(), 5*time.Second)
		defer cancel()
		done := make(chan error, 1)
		go func() { done <- sw.sweep(ctx) }()
		// the first slice ends after 1000 entries; the application drops the
		// DBI during the pause
		time.Sleep(100 * time.Millisecond)
		if err := env.Update(func(txn *lmdb.Txn) error { return txn.Drop(dbi, true) }); err != nil {
			return err
		}
		select {
		case err := <-done:
			if err == nil {
				t.Fatalf("the pass reported success although a slice failed")
			}
			if ctx.Err() != nil {
				t.Fatalf("the pass only ended because the test cancelled it after 5s: %v (slice error swallowed, same slice retried forever)", err)
			}
			t.Logf("pass failed as it should: %v", err)
		case <-time.After(10 * time.Second):
			t.Fatalf("sweep never returned")
		}
		return nil
	})
	if err != nil {
		t.Fatal(err)
	}
}
