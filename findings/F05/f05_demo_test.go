package topics

// F05 demonstration: Topic.Publish sends on the unbuffered subscriber channels
// while holding Topic.mu, and Subscription.Close -> Topic.unsubscribeID needs
// Topic.mu. A subscriber that stops receiving and calls Close() while a
// Publish is in flight therefore deadlocks together with the publisher.
//
// This is exactly what happens in Topic.Handle when the callback returns an
// error: Handle stops calling sub.Next and runs its deferred sub.Close(),
// while the publisher may already be blocked in `ch <- v` for the next value.
//
// Both tests FAIL on a tree that has the defect, and terminate by themselves
// (the goroutines stuck in the deadlock are leaked, which is harmless for a
// test binary).

import (
	"context"
	"errors"
	"testing"
	"time"
)

const f05Timeout = 2 * time.Second

// f05WaitPublishHoldsLock waits until the Publish goroutine owns Topic.mu (and
// hence is, or is about to be, blocked in the channel send): we detect that by
// TryLock failing on the topic mutex. This makes the ordering deterministic
// without relying on a sleep only.
func f05WaitPublishHoldsLock[T any](t *testing.T, top *Topic[T]) {
	t.Helper()
	deadline := time.Now().Add(f05Timeout)
	for time.Now().Before(deadline) {
		if top.mu.TryLock() {
			top.mu.Unlock()
			time.Sleep(time.Millisecond)
			continue
		}
		// Publish holds the lock. Nobody receives, so it cannot get past the
		// unbuffered send; give it a moment to actually reach it.
		time.Sleep(20 * time.Millisecond)
		return
	}
	t.Fatalf("Publish goroutine never acquired Topic.mu")
}

func TestF05_CloseDuringPublishDeadlock(t *testing.T) {
	top := New[int]()
	sub := top.Subscribe(false) // unbuffered channel

	publishDone := make(chan struct{})
	go func() {
		defer close(publishDone)
		top.Publish(1) // blocks in `ch <- v` while holding top.mu
	}()
	f05WaitPublishHoldsLock(t, top)

	// The subscriber decides it is done (never receives the value) and closes
	// its subscription, as the Subscription docs require ("MUST always be
	// closed with Close() when no longer used").
	closeDone := make(chan struct{})
	go func() {
		defer close(closeDone)
		sub.Close() // needs top.mu in unsubscribeID -> blocks forever
	}()

	timeout := time.After(f05Timeout)
	closeReturned, publishReturned := false, false
	for !(closeReturned && publishReturned) {
		select {
		case <-closeDone:
			closeReturned = true
			closeDone = nil
		case <-publishDone:
			publishReturned = true
			publishDone = nil
		case <-timeout:
			t.Fatalf("DEADLOCK after %s: Subscription.Close returned=%v, Topic.Publish returned=%v "+
				"(Publish holds Topic.mu while blocked in the unbuffered send to the subscriber; "+
				"Close waits for Topic.mu in unsubscribeID and so can never close the channel "+
				"that would release the publisher)",
				f05Timeout, closeReturned, publishReturned)
		}
	}
}

// TestF05_HandleCallbackErrorDeadlock shows the same defect through the public
// convenience API only: Topic.Handle with a callback that returns an error,
// while the publisher publishes two values back to back.
func TestF05_HandleCallbackErrorDeadlock(t *testing.T) {
	top := New[int]()
	errStop := errors.New("callback failed")

	inCallback := make(chan struct{})
	releaseCallback := make(chan struct{})
	handleDone := make(chan error, 1)
	go func() {
		handleDone <- top.Handle(context.Background(), func(v int) error {
			close(inCallback)
			<-releaseCallback // still busy handling value 1
			return errStop    // -> Handle returns, deferred sub.Close() runs
		})
	}()

	// Wait until Handle has subscribed.
	deadline := time.Now().Add(f05Timeout)
	for {
		top.mu.Lock()
		n := len(top.subscribers)
		top.mu.Unlock()
		if n == 1 {
			break
		}
		if time.Now().After(deadline) {
			t.Fatalf("Handle never subscribed")
		}
		time.Sleep(time.Millisecond)
	}

	publishDone := make(chan struct{})
	go func() {
		defer close(publishDone)
		top.Publish(1) // received by Handle, callback starts
		top.Publish(2) // blocks in send: Handle is in the callback, not receiving
	}()

	select {
	case <-inCallback:
	case <-time.After(f05Timeout):
		t.Fatalf("callback never invoked")
	}
	f05WaitPublishHoldsLock(t, top) // Publish(2) is now in flight
	close(releaseCallback)          // callback returns its error

	select {
	case err := <-handleDone:
		if !errors.Is(err, errStop) {
			t.Fatalf("unexpected Handle error: %v", err)
		}
	case <-time.After(f05Timeout):
		t.Fatalf("DEADLOCK after %s: Topic.Handle did not return after its callback returned an error: "+
			"its deferred sub.Close() waits for Topic.mu, which is held by Publish(2) blocked in the "+
			"send to this very subscriber", f05Timeout)
	}
	select {
	case <-publishDone:
	case <-time.After(f05Timeout):
		t.Fatalf("DEADLOCK: Publish did not return after the subscriber was closed")
	}
}
