package syncer

// F09 demonstration: LoadOnce (syncer/sync.go) and SendOnce (syncer/send.go)
// "adjust" the transaction id they return by calling env.Info() AFTER their
// own LMDB write transaction has ended:
//
//	err = env.Update(func(txn *lmdb.Txn) error { txnID = txn.ID(); ... })
//	...
//	info, err := env.Info()
//	if header.TxnID(info.LastTxnID) < txnID {   // "Transaction was empty"
//		txnID = header.TxnID(info.LastTxnID)
//	}
//	return txnID, localChanged, nil
//
// LMDB hands out LastTxnID+1 to every write transaction and does not record a
// write transaction that changed nothing, so that id is handed out again to
// the next writer. If the APPLICATION commits between the end of LS's empty
// transaction and the env.Info() call, the application's commit gets exactly
// the id LS's transaction ran under, info.LastTxnID is then not < txnID, and
// LS returns the application's transaction id as the one it has "synced".
//
// syncLoop then does `if !localChanged { lastSyncedTxnID = actualTxnID }`, and
// its change detection `info.LastTxnID > lastSyncedTxnID` stays false: the
// application's write is not published until some later write happens.
//
// There is no hook between env.Update and env.Info(), so without touching
// non-test code this can only be shown by actually racing an application
// writer against LoadOnce. The test below does this in lock-step rounds (one
// application commit per LoadOnce call, so that the state is quiescent and
// can be inspected after every round). It FAILS as soon as the window is hit.
//
// To make a hit likely, the test arranges that the application is already
// WAITING for the LMDB write lock while LoadOnce holds it (a perfectly normal
// situation for a busy application): a logrus hook on the global logger sees
// the "Started load" debug message that LoadOnce emits at the start of its
// write transaction, starts the application's write and gives it a moment to
// queue up on the lock. When LoadOnce's empty transaction ends, the
// application gets the lock immediately and then races LoadOnce's env.Info().
// No non-test code is modified for this.
//
// On the 16 core machine this was developed on, the window is hit within the
// first few dozen rounds (a few ms); if it is not hit within 20 s the test is
// SKIPPED (not passed); see f09_demo_with_hook.patch for a fully
// deterministic variant that needs a test hook in sync.go.
//
// The LMDB env is opened with MDB_NOSYNC, like an application that does not
// fsync on every commit (e.g. PowerDNS Auth's default lmdb-sync-mode). This
// only makes the application's commit fast enough to regularly fit into the
// window; it does not change any of the logic involved.

import (
	"bytes"
	"context"
	"fmt"
	"io"
	"sync"
	"testing"
	"time"

	"github.com/PowerDNS/lightningstream/lmdbenv"
	"github.com/PowerDNS/lightningstream/lmdbenv/header"
	"github.com/PowerDNS/lightningstream/snapshot"
	"github.com/PowerDNS/lmdb-go/lmdb"
	"github.com/PowerDNS/simpleblob"
	"github.com/PowerDNS/simpleblob/backends/memory"
	"github.com/sirupsen/logrus"
	"github.com/stretchr/testify/require"
)

const f09RaceBudget = 20 * time.Second

// f09Store remembers only the most recently stored snapshot.
type f09Store struct {
	simpleblob.Interface
	mu       sync.Mutex
	nStored  int
	lastName string
	lastData []byte
}

func (st *f09Store) Store(ctx context.Context, name string, data []byte) error {
	st.mu.Lock()
	defer st.mu.Unlock()
	st.nStored++
	st.lastName = name
	st.lastData = append([]byte(nil), data...)
	return nil
}

// publishedValue returns the value of key in the most recently published
// snapshot ("" if there is none, or the key is not in it).
func (st *f09Store) publishedValue(t *testing.T, key string) (snapName string, val string) {
	t.Helper()
	st.mu.Lock()
	defer st.mu.Unlock()
	if st.lastData == nil {
		return "(no snapshot)", ""
	}
	msg, err := snapshot.LoadData(st.lastData)
	require.NoError(t, err)
	for _, dbiMsg := range msg.Databases {
		if dbiMsg.Name() != testDBIName {
			continue
		}
		dbiMsg.ResetCursor()
		for {
			e, err := dbiMsg.Next()
			if err == io.EOF {
				break
			}
			require.NoError(t, err)
			if string(e.Key) == key {
				return st.lastName, string(e.Value)
			}
		}
	}
	return st.lastName, ""
}

// f09LogHook calls fn, inside the write transaction of LoadOnce, when LoadOnce
// logs its "Started load" debug message.
type f09LogHook struct {
	fn func()
}

func (h *f09LogHook) Levels() []logrus.Level { return []logrus.Level{logrus.DebugLevel} }

func (h *f09LogHook) Fire(e *logrus.Entry) error {
	if e.Message == "Started load" && h.fn != nil {
		h.fn()
	}
	return nil
}

// f09NoopUpdate is a remote snapshot without any DBIs: loading it changes
// nothing, so the write transaction of LoadOnce is empty.
func f09NoopUpdate() snapshot.Update {
	now := time.Now()
	return snapshot.Update{
		Snapshot: &snapshot.Snapshot{
			FormatVersion: snapshot.CurrentFormatVersion,
			CompatVersion: snapshot.CompatFormatVersion,
			Meta: snapshot.Meta{
				InstanceID:    "other",
				DatabaseName:  testLMDBName,
				TimestampNano: uint64(header.TimestampFromTime(now)),
			},
		},
		NameInfo: snapshot.NameInfo{
			Kind:       snapshot.KindSnapshot,
			Extension:  snapshot.DefaultExtension,
			SyncerName: testLMDBName,
			InstanceID: "other",
			Timestamp:  now,
		},
	}
}

// f09AppWrite is what the application does: one write transaction that sets
// key "app" (with a native LS header, as a schema_tracks_changes application
// would) and returns the id of that transaction.
func f09AppWrite(env *lmdb.Env, val string) (id header.TxnID, err error) {
	err = env.Update(func(txn *lmdb.Txn) error {
		dbi, err := txn.OpenDBI(testDBIName, lmdb.Create)
		if err != nil {
			return err
		}
		id = header.TxnID(txn.ID())
		b := make([]byte, header.MinHeaderSize, header.MinHeaderSize+len(val))
		header.PutBasic(b, header.TimestampFromTime(time.Now()), id, header.NoFlags)
		return txn.Put(dbi, []byte("app"), append(b, val...), 0)
	})
	return id, err
}

func f09AppValue(t *testing.T, env *lmdb.Env) string {
	t.Helper()
	var val string
	err := env.View(func(txn *lmdb.Txn) error {
		dbi, err := txn.OpenDBI(testDBIName, 0)
		if err != nil {
			return err
		}
		v, err := txn.Get(dbi, []byte("app"))
		if err != nil {
			return err
		}
		v, err = header.Skip(v)
		val = string(v)
		return err
	})
	require.NoError(t, err)
	return val
}

func f09LastTxnID(t *testing.T, env *lmdb.Env) header.TxnID {
	t.Helper()
	info, err := env.Info()
	require.NoError(t, err)
	return header.TxnID(info.LastTxnID)
}

func TestF09_TxnIDAdjustRace(t *testing.T) {
	// LoadOnce and SendOnce log on every call: discard the output, but run at
	// debug level with our hook installed (see Part 2).
	logHook := &f09LogHook{}
	oldLevel, oldOut := logrus.GetLevel(), logrus.StandardLogger().Out
	logrus.SetLevel(logrus.DebugLevel)
	logrus.SetOutput(io.Discard)
	oldHooks := logrus.StandardLogger().ReplaceHooks(logrus.LevelHooks{
		logrus.DebugLevel: {logHook},
	})
	t.Cleanup(func() {
		logrus.StandardLogger().ReplaceHooks(oldHooks)
		logrus.SetLevel(oldLevel)
		logrus.SetOutput(oldOut)
	})

	tmp := t.TempDir()
	env, err := lmdbenv.New(tmp, lmdb.Create|lmdb.NoSync)
	require.NoError(t, err)
	st := &f09Store{Interface: memory.New()}
	c := createConfig("f09", tmp, true) // native mode: schema_tracks_changes
	s, err := New(testLMDBName, env, st, c, c.LMDBs[testLMDBName], Options{})
	require.NoError(t, err)
	ctx := context.Background()

	// ------------------------------------------------------------------
	// Part 1: the arithmetic of the race, deterministically.
	// ------------------------------------------------------------------
	_, err = f09AppWrite(env, "initial")
	require.NoError(t, err)
	lastSyncedTxnID, err := s.SendOnce(ctx, env) // initial snapshot, as syncLoop does
	require.NoError(t, err)
	N := f09LastTxnID(t, env)
	require.Equal(t, N, lastSyncedTxnID)

	// (a) an empty write transaction runs under id N+1, but is not recorded
	var emptyTxnID header.TxnID
	require.NoError(t, env.Update(func(txn *lmdb.Txn) error {
		emptyTxnID = header.TxnID(txn.ID())
		return nil
	}))
	require.Equal(t, N+1, emptyTxnID)
	require.Equal(t, N, f09LastTxnID(t, env), "empty write txn must not be recorded")

	// (b) LoadOnce of a no-op snapshot is such an empty transaction; when
	// nothing interferes it adjusts the id it returns back to N.
	txnID, localChanged, err := s.LoadOnce(ctx, env, "other", f09NoopUpdate(), lastSyncedTxnID)
	require.NoError(t, err)
	require.Equal(t, N, txnID, "LoadOnce of a no-op snapshot, undisturbed")
	require.False(t, localChanged)
	require.Equal(t, N, f09LastTxnID(t, env))

	// (c) the next application commit gets the very id N+1 that LoadOnce's
	// transaction ran under a moment ago.
	appID, err := f09AppWrite(env, "round-0")
	require.NoError(t, err)
	require.Equal(t, N+1, appID, "the application's commit re-uses the id of LS's empty txn")
	t.Logf("arithmetic: LastTxnID=%d; LS's empty write txn ran as %d and was not recorded; "+
		"LoadOnce returned %d; the application's next commit got id %d. "+
		"Had that commit happened before LoadOnce's env.Info() call, LoadOnce would have returned %d.",
		N, emptyTxnID, txnID, appID, appID)

	// Bring LS back in sync, like syncLoop would.
	lastSyncedTxnID, err = s.SendOnce(ctx, env)
	require.NoError(t, err)
	require.Equal(t, appID, lastSyncedTxnID)

	// ------------------------------------------------------------------
	// Part 2: actually hit the window.
	//
	// Every round: the main goroutine runs the body of the syncLoop once
	// with a no-op remote snapshot, and the application goroutine commits
	// exactly one write, for which it queues up on the LMDB write lock
	// while LoadOnce holds it. After each round everything is quiescent.
	// ------------------------------------------------------------------
	type appResult struct {
		id  header.TxnID
		val string
		err error
	}
	goCh := make(chan int)
	appStarting := make(chan struct{})
	appDone := make(chan appResult)
	defer close(goCh)
	go func() {
		for round := range goCh {
			val := fmt.Sprintf("round-%d", round)
			appStarting <- struct{}{}
			id, err := f09AppWrite(env, val) // blocks until LoadOnce's txn ends
			appDone <- appResult{id, val, err}
		}
	}()

	tStart := time.Now()
	round := 0
	logHook.fn = func() {
		// We are inside the write transaction of LoadOnce here.
		goCh <- round
		<-appStarting
		// Give the application ~100us to block on the LMDB write lock
		for t0 := time.Now(); time.Since(t0) < 100*time.Microsecond; {
		}
	}
	for time.Since(tStart) < f09RaceBudget {
		round++
		before := lastSyncedTxnID
		require.Equal(t, before, f09LastTxnID(t, env), "round must start in sync and quiescent")

		// One iteration of the syncLoop body (syncer/sync.go). The
		// application's write is started by logHook.fn from within.
		actualTxnID, localChanged, err := s.LoadOnce(ctx, env, "other", f09NoopUpdate(), lastSyncedTxnID)
		require.NoError(t, err)
		if !localChanged {
			lastSyncedTxnID = actualTxnID
		}

		var app appResult
		select {
		case app = <-appDone:
		case <-time.After(5 * time.Second):
			t.Fatalf("application write did not finish")
		}
		require.NoError(t, app.err)
		require.Equal(t, before+1, app.id)

		// "Check for change in local LMDB" of syncLoop. The application has
		// committed by now, so this is even later than in the real loop.
		sent := false
		if f09LastTxnID(t, env) > lastSyncedTxnID {
			lastSyncedTxnID, err = s.SendOnce(ctx, env)
			require.NoError(t, err)
			sent = true
		}

		// Invariant: the application committed app.id in this round, so LS
		// must have published a snapshot that contains it.
		if sent {
			continue // fine: the write was noticed and published
		}

		// ---- The race was hit ----
		snapName, published := st.publishedValue(t, "app")
		inLMDB := f09AppValue(t, env)
		// Let the loop idle a few more times: nothing will trigger a snapshot.
		logHook.fn = nil // no more application writes
		for i := 0; i < 3; i++ {
			id, lc, err := s.LoadOnce(ctx, env, "other", f09NoopUpdate(), lastSyncedTxnID)
			require.NoError(t, err)
			if !lc {
				lastSyncedTxnID = id
			}
			if f09LastTxnID(t, env) > lastSyncedTxnID {
				sent = true
			}
		}
		t.Errorf("race hit in round %d after %s:\n"+
			"  lastSyncedTxnID before the round:           %d (== info.LastTxnID)\n"+
			"  LS's LoadOnce write txn (empty) ran as:     %d and ended without being recorded\n"+
			"  application then committed txn:             %d  (app=%q)   <- between env.Update and env.Info() of LoadOnce\n"+
			"  LoadOnce returned txnID=%d localChanged=%v  <- the APPLICATION's txn id, reported as synced\n"+
			"  syncLoop: lastSyncedTxnID=%d, info.LastTxnID=%d => `info.LastTxnID > lastSyncedTxnID` is false, no SendOnce\n"+
			"  value in LMDB:               app=%q\n"+
			"  value in last published snapshot (%s): app=%q\n"+
			"  snapshot triggered by 3 further idle loop iterations: %v\n"+
			"The application's write is not published until another local write happens.",
			round, time.Since(tStart).Round(time.Millisecond),
			before, before+1, app.id, app.val,
			actualTxnID, localChanged,
			lastSyncedTxnID, f09LastTxnID(t, env),
			inLMDB, snapName, published, sent)
		if !bytes.HasSuffix([]byte(inLMDB), []byte(app.val)) || published == inLMDB {
			t.Errorf("unexpected state, detector is wrong?")
		}
		return
	}
	t.Skipf("race window not hit in %d rounds / %s on this machine; "+
		"apply f09_demo_with_hook.patch for a deterministic demonstration", round, f09RaceBudget)
}
