package syncer

// F08 demonstration: in non-native ("shadow") mode, PlainIterator.Merge maps
// an EMPTY value to nil, which the update strategies interpret as "delete the
// key". shadowToMain uses PlainIterator to write the shadow state back into
// the application's DBI, so an application key that legitimately has an empty
// value (LMDB allows zero-length values, e.g. when a DBI is used as a set) is
// DELETED from the application's own DBI by a plain mirror cycle, with no
// remote change involved at all.
//
// Both subtests FAIL on a tree that has the defect.

import (
	"context"
	"fmt"
	"sort"
	"strings"
	"testing"
	"time"

	"github.com/PowerDNS/lightningstream/lmdbenv/header"
	"github.com/PowerDNS/lightningstream/snapshot"
	"github.com/PowerDNS/lmdb-go/lmdb"
	"github.com/PowerDNS/simpleblob/backends/memory"
	"github.com/stretchr/testify/require"
)

const f08DBIName = "appdata"

// f08PutAppData writes the application data: key "k" with an EMPTY value and a
// normal key "normal". This is what the application does, LS is not involved.
func f08PutAppData(t *testing.T, env *lmdb.Env) {
	t.Helper()
	err := env.Update(func(txn *lmdb.Txn) error {
		dbi, err := txn.OpenDBI(f08DBIName, lmdb.Create)
		if err != nil {
			return err
		}
		if err := txn.Put(dbi, []byte("k"), []byte{}, 0); err != nil {
			return err
		}
		return txn.Put(dbi, []byte("normal"), []byte("value"), 0)
	})
	require.NoError(t, err)
}

// f08Dump returns the contents of a DBI as "key=value" strings (quoted).
func f08Dump(t *testing.T, env *lmdb.Env, dbiName string) []string {
	t.Helper()
	var out []string
	err := env.View(func(txn *lmdb.Txn) error {
		return f08DumpTxn(txn, dbiName, &out)
	})
	require.NoError(t, err)
	return out
}

func f08DumpTxn(txn *lmdb.Txn, dbiName string, out *[]string) error {
	dbi, err := txn.OpenDBI(dbiName, 0)
	if err != nil {
		return err
	}
	c, err := txn.OpenCursor(dbi)
	if err != nil {
		return err
	}
	defer c.Close()
	var flag uint = lmdb.First
	for {
		k, v, err := c.Get(nil, nil, flag)
		if lmdb.IsNotFound(err) {
			break
		}
		if err != nil {
			return err
		}
		flag = lmdb.Next
		*out = append(*out, fmt.Sprintf("%+q=%+q", k, v))
	}
	sort.Strings(*out)
	return nil
}

func f08AssertAppDataIntact(t *testing.T, got []string, what string) {
	t.Helper()
	want := []string{`"k"=""`, `"normal"="value"`}
	if strings.Join(got, ",") != strings.Join(want, ",") {
		t.Errorf("application DBI %q was modified by %s although nothing changed locally or remotely:\n"+
			"   before: %v\n"+
			"   after:  %v\n"+
			"the key \"k\" with an EMPTY value was destroyed: PlainIterator.Merge turns the empty "+
			"value into nil (= delete) when shadowToMain mirrors the shadow DBI back",
			f08DBIName, what, want, got)
	}
}

func TestF08_EmptyValueDestroyedByMirror(t *testing.T) {
	// Variant 1: the two mirror passes exactly as LoadOnce runs them, in one
	// write transaction.
	t.Run("mainToShadow+shadowToMain", func(t *testing.T) {
		s, env := createInstance(t, "f08a", memory.New(), false) // shadow mode
		f08PutAppData(t, env)
		require.Equal(t, []string{`"k"=""`, `"normal"="value"`}, f08Dump(t, env, f08DBIName),
			"sanity: LMDB itself stores the empty value just fine")

		ctx := context.Background()
		var shadow []string
		err := env.Update(func(txn *lmdb.Txn) error {
			ts := header.TimestampFromTime(time.Now())
			if err := s.mainToShadow(ctx, txn, ts); err != nil {
				return err
			}
			// For the record: how the key looks in the shadow DBI
			if err := f08DumpTxn(txn, SyncDBIShadowPrefix+f08DBIName, &shadow); err != nil {
				return err
			}
			return s.shadowToMain(ctx, txn)
		})
		require.NoError(t, err)
		t.Logf("shadow DBI after mainToShadow (24 byte header + value): %v", shadow)

		f08AssertAppDataIntact(t, f08Dump(t, env, f08DBIName), "mainToShadow + shadowToMain")
	})

	// Variant 2: through the public LoadOnce, loading a harmless remote
	// snapshot that contains no DBIs at all.
	t.Run("LoadOnce-of-empty-snapshot", func(t *testing.T) {
		s, env := createInstance(t, "f08b", memory.New(), false) // shadow mode
		f08PutAppData(t, env)

		now := time.Now()
		update := snapshot.Update{
			Snapshot: &snapshot.Snapshot{
				FormatVersion: snapshot.CurrentFormatVersion,
				CompatVersion: snapshot.CompatFormatVersion,
				Meta: snapshot.Meta{
					InstanceID:    "other",
					DatabaseName:  testLMDBName,
					TimestampNano: uint64(header.TimestampFromTime(now)),
				},
				// no Databases: this snapshot changes nothing
			},
			NameInfo: snapshot.NameInfo{
				Kind:       snapshot.KindSnapshot,
				Extension:  snapshot.DefaultExtension,
				SyncerName: testLMDBName,
				InstanceID: "other",
				Timestamp:  now,
			},
		}
		_, localChanged, err := s.LoadOnce(context.Background(), env, "other", update, 0)
		require.NoError(t, err)
		require.True(t, localChanged, "sanity: LS noticed the application write and ran mainToShadow")

		f08AssertAppDataIntact(t, f08Dump(t, env, f08DBIName), "LoadOnce of an empty remote snapshot")
	})
}
