package snapshot

// F14 (C15): ParseName accepted timestamp fields that are not the canonical
// encoding of the time they parse to, because time.Parse tolerates a sign in
// the fraction. Such a name does not sort like its time: the receiver takes the
// last name of the (byte-wise sorted) listing as the newest snapshot, the
// cleaner sorts by the parsed time, and the two disagree.
//
// Place this file in /repo/snapshot/ and run:
//   GOPROXY=off GOFLAGS=-mod=mod go test -vet=off -count=1 -run TestF14 ./snapshot/
// It fails on the parent of the fix commit and passes with the fix.

import "testing"

func TestF14_NonCanonicalTimestampOrder(t *testing.T) {
	a := "db__i__20220102-030405-+00000009__G1.pb.gz"
	b := "db__i__20220102-030405-000000001__G1.pb.gz"
	na, erra := ParseName(a)
	nb, errb := ParseName(b)
	if errb != nil {
		t.Fatalf("canonical name rejected: %v", errb)
	}
	if erra == nil && a < b && na.Timestamp.After(nb.Timestamp) {
		t.Fatalf("name %q sorts before %q but parses to the later time %v > %v", a, b, na.Timestamp, nb.Timestamp)
	}
	if erra == nil && NameTimestamp(na.Timestamp) != na.TimestampString {
		t.Fatalf("accepted timestamp field %q is not the encoding %q of the time it parses to", na.TimestampString, NameTimestamp(na.Timestamp))
	}
}
