package snapshot

import (
	"testing"

	"github.com/CrowdStrike/csproto"
)

// F2: DBI.indexData default case skips the unknown field relative to the
// start of the buffer instead of the cursor, so fields after an unknown
// field are mis-parsed.
func TestF02_IndexDataUnknownField(t *testing.T) {
	b := make([]byte, 100)
	o := 0
	o += csproto.EncodeTag(b[o:], FieldDBIName, csproto.WireTypeLengthDelimited)
	o += csproto.EncodeVarint(b[o:], 1)
	b[o] = 'n'
	o++
	// unknown field 15, LEN, 3 bytes
	o += csproto.EncodeTag(b[o:], 15, csproto.WireTypeLengthDelimited)
	o += csproto.EncodeVarint(b[o:], 3)
	o += copy(b[o:], "xyz")
	o += csproto.EncodeTag(b[o:], FieldDBIFlags, csproto.WireTypeVarint)
	o += csproto.EncodeVarint(b[o:], 8)
	d, err := NewDBIFromData(b[:o])
	if err != nil {
		t.Fatalf("unexpected error: %v", err)
	}
	if d.Name() != "n" || d.Flags() != 8 {
		t.Fatalf("got name=%q flags=%d, want n/8", d.Name(), d.Flags())
	}
}
