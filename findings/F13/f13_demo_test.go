package sweeper

// F13 demo (C13, C04): with a retention longer than the time since 1970
// (retention_days above ~20700, e.g. a "practically never" setting of 30000)
// the cutoff lies before the epoch, header.TimestampFromTime converts the
// negative UnixNano to a huge unsigned timestamp, and every deletion marker
// compares older than the cutoff: the pass removes markers that are minutes old.
//
// Copy into syncer/sweeper/ and run:
//   GOPROXY=off GOFLAGS=-mod=mod go test -vet=off -count=1 -run TestF13 ./syncer/sweeper/

import (
	"testing"
	"time"

	"github.com/PowerDNS/lightningstream/config"
	"github.com/PowerDNS/lightningstream/lmdbenv"
	"github.com/PowerDNS/lightningstream/lmdbenv/header"
	"github.com/PowerDNS/lmdb-go/lmdb"
	"github.com/sirupsen/logrus/hooks/test"
)

func TestF13HugeRetentionSweepsEverything(t *testing.T) {
	conf := config.Sweeper{
		Enabled:         true,
		RetentionDays:   30000, // ~82 years: "keep markers forever"
		Interval:        time.Second,
		LockDuration:    time.Second,
		ReleaseDuration: 0,
	}
	l, _ := test.NewNullLogger()
	err := lmdbenv.TestEnv(func(env *lmdb.Env) error {
		sw := New("test", conf, env, l, true)
		var dbi lmdb.DBI
		if err := env.Update(func(txn *lmdb.Txn) error {
			var err error
			dbi, err = txn.CreateDBI("data")
			if err != nil {
				return err
			}
			val := make([]byte, header.MinHeaderSize)
			header.PutBasic(val, header.TimestampFromTime(time.Now().Add(-time.Minute)), 1, header.FlagDeleted)
			return txn.Put(dbi, []byte("young-marker"), val, 0)
		}); err != nil {
			return err
		}
		if err := sw.sweep(t.Context()); err != nil {
			return err
		}
		return env.View(func(txn *lmdb.Txn) error {
			_, err := txn.Get(dbi, []byte("young-marker"))
			if lmdb.IsNotFound(err) {
				t.Fatalf("a one-minute-old deletion marker was swept although the retention is %v", conf.RetentionDuration())
			}
			return err
		})
	})
	if err != nil {
		t.Fatal(err)
	}
}
