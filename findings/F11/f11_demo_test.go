package syncer

import (
	"testing"

	"github.com/PowerDNS/lightningstream/lmdbenv/header"
	"github.com/PowerDNS/lightningstream/snapshot"
)

func f11merge(t *testing.T, fv uint32, defTS header.Timestamp, stored []byte, kv snapshot.KV) []byte {
	t.Helper()
	it, err := NewNativeIterator(fv, 1, snapshot.NewDBI(), defTS, 7, 0)
	if err != nil {
		t.Fatal(err)
	}
	it.curKV = kv
	v, err := it.Merge(stored)
	if err != nil {
		t.Fatal(err)
	}
	return append([]byte(nil), v...)
}

// F11: the "timestamp 0 and same value => keep" shortcut ignored the deleted
// flag. (a) capture: a key re-created with an empty value over a deletion
// marker is not captured; (b) zero-timestamp entries: a marker and a live
// empty value resolve to whichever came first.
func TestF11_ZeroTimestampShortcutIgnoresDeleted(t *testing.T) {
	marker := f11merge(t, 3, 0, nil, snapshot.KV{Key: []byte("k"), TimestampNano: 50, Flags: uint32(header.FlagDeleted)})
	// capture pass at time 100: the application now has k = "" (live)
	got := f11merge(t, 3, 100, marker, snapshot.KV{Key: []byte("k"), Value: []byte{}})
	h, _, _ := header.Parse(got)
	if h.Flags.IsDeleted() {
		t.Errorf("capture: application re-created k with an empty value, shadow still says deleted (ts=%d)", h.Timestamp)
	}
	del := snapshot.KV{Key: []byte("k"), TimestampNano: 0, Flags: uint32(header.FlagDeleted)}
	live := snapshot.KV{Key: []byte("k"), TimestampNano: 0, Value: []byte{}}
	ab := f11merge(t, 3, 0, f11merge(t, 3, 0, nil, del), live)
	ba := f11merge(t, 3, 0, f11merge(t, 3, 0, nil, live), del)
	ha, _, _ := header.Parse(ab)
	hb, _, _ := header.Parse(ba)
	if ha.Flags.IsDeleted() != hb.Flags.IsDeleted() {
		t.Errorf("zero timestamp: merge order dependent (deleted=%v vs %v)", ha.Flags.IsDeleted(), hb.Flags.IsDeleted())
	}
}
