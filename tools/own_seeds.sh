#!/bin/bash
# usage: own_seeds.sh seed-name...  — runs each seed only against its own property's check
cd /verif
for s in "$@"; do echo $s; done | xargs -P 8 -I{} bash -c 'n={}; tools/run_seeds.sh "$n" ${n%%-*}' | sort
