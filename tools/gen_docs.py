#!/usr/bin/env python3
"""Generates docs/RULES.md (rules per property, from the evidence files written by the
checks) and docs/SEEDS.md (seeded changes and which rules catch them, from results/)."""
import json, os, glob, re
H = os.path.dirname(os.path.dirname(os.path.abspath(__file__)))
props = [json.loads(l) for l in open(os.path.join(H, 'properties.jsonl'))]
out = ["# Rules per property (generated from evidence/*.json by tools/gen_docs.py)\n"]
for p in props:
    f = os.path.join(H, 'evidence', p['id'] + '.json')
    if not os.path.exists(f):
        continue
    e = json.load(open(f))
    cov = e['coverage']
    out.append(f"\n## {p['id']} — {p['title']}\n")
    out.append(cov['explanation'] + "\n")
    out.append(f"*Not decided:* {cov.get('not_decided','')}\n")
    out.append(f"*Last run:* tier {e['tier']}, {cov['obligations']} obligations, {cov['discharged']} discharged, {cov.get('known_findings',0)} known findings, {len(cov.get('functions',[]))} functions analysed, {e['wall_s']:.1f}s\n")
    byrule = {}
    for o in cov['all_obligations']:
        byrule.setdefault(o['rule'], []).append(o)
    for r in sorted(cov['rules']):
        obs = byrule.get(r, [])
        out.append(f"- **{r}** {cov['rules'][r]}")
        for o in obs:
            if o['construct'].startswith('floor:'):
                continue
            out.append(f"  - `{o['construct']}` [{o['status']}] {o.get('detail','')[:300]}")
open(os.path.join(H, 'docs', 'RULES.md'), 'w').write("\n".join(out) + "\n")

seeds = ["# Seeded property-breaking changes and the rules that report them\n",
         "Each change was produced by an independent sub-agent that saw only the property text, and was confirmed (suite passes with it, its demonstration fails with it and passes without it) by tools/verify_seed.sh. `V:` = violation, `U:` = undecided (also a failing check). Generated from results/seed_matrix.txt.\n",
         "| seed | what it does | needs | reported by |", "|---|---|---|---|"]
mat = {}
for l in open(os.path.join(H, 'results', 'seed_matrix.txt')):
    m = re.match(r'SEED (\S+): (\S+)\s*(.*)', l)
    if m:
        mat[m.group(1)] = (m.group(2), m.group(3).strip())
for d in sorted(glob.glob(os.path.join(H, 'seeded', '*'))):
    n = os.path.basename(d)
    meta = json.load(open(os.path.join(d, 'meta.json')))
    v, by = mat.get(n, ('?', ''))
    seeds.append(f"| {n} | {(meta.get('title') or '')[:160]} | {(meta.get('needs') or '')[:160]} | {v}: {by} |")
seeds.append("\n# Behaviour-preserving refactorings (must stay silent)\n")
seeds.append("| refactoring | kind | result |\n|---|---|---|")
ben = {}
for l in open(os.path.join(H, 'results', 'benign_matrix.txt')):
    m = re.match(r'BENIGN (\S+): (.*)', l)
    if m:
        ben[m.group(1)] = m.group(2)
for d in sorted(glob.glob(os.path.join(H, 'benign', '*'))):
    n = os.path.basename(d)
    meta = json.load(open(os.path.join(d, 'meta.json')))
    seeds.append(f"| {n} | {(meta.get('title') or meta.get('kind') or '')[:140]} | {ben.get(n,'?')} |")
open(os.path.join(H, 'docs', 'SEEDS.md'), 'w').write("\n".join(seeds) + "\n")
print("docs written")
