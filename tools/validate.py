#!/usr/bin/env python3
import json, sys, glob, jsonschema
m = json.load(open('/verif/MANIFEST.json'))
jsonschema.validate(m, json.load(open('/root/.vp/MANIFEST.schema.json')))
es = json.load(open('/root/.vp/EVIDENCE.schema.json'))
bad = 0
for c in m['checks']:
    try:
        jsonschema.validate(json.load(open(c['evidence_file'])), es)
    except Exception as e:
        bad += 1
        print('EVIDENCE INVALID', c['property_id'], str(e)[:200])
ids = {c['property_id'] for c in m['checks']} | {n['property_id'] for n in m.get('not_applicable', [])}
want = {json.loads(l)['id'] for l in open('/verif/properties.jsonl')}
if ids != want:
    print('MISSING', want - ids, 'EXTRA', ids - want); bad += 1
print('manifest ok; evidence invalid:', bad)
sys.exit(1 if bad else 0)
