#!/usr/bin/env python3
import json,sys,collections
e=json.load(open(f'/verif/evidence/{sys.argv[1]}.json'))
obs=e['coverage']['all_obligations']
cnt=collections.Counter((o['status'],o['rule']) for o in obs)
print('wall',round(e['wall_s'],1),'obligations',len(obs),'violations',e['violations'])
seen=collections.Counter()
for o in obs:
    k=(o['status'],o['rule'])
    if o['status']=='discharged' and len(sys.argv)<3: continue
    seen[k]+=1
    if seen[k]>2: continue
    print(o['status'][:5], o['rule'], o['construct'][:90], '@',o.get('pos',''), '|', o.get('detail','')[:260])
    if o['status']!='discharged' and o.get('witness') and seen[k]==1:
        w=o['witness']
        if isinstance(w,dict) and 'events' in w:
            for ev in w['events'][:40]: print('      ', ev[:200])
            print('       end:',w.get('end'),w.get('returns'))
for k,v in sorted(cnt.items()): print(k,v)
