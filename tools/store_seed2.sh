#!/bin/bash
# usage: store_seed2.sh <srcdir> <PROP> <N-new> "<result>"
src=$1; p=$2; n=$3; res="$4"
dst=/verif/seeded/$p-$n
mkdir -p $dst
cp $src/patch.diff $dst/patch.diff
cp $src/seed_demo_test.go $dst/seed_demo_test.go
python3 - "$src/meta.json" "$dst/meta.json" "$p" "$res" <<'PY'
import json,sys
m=json.load(open(sys.argv[1]))
out={"property":sys.argv[3],"title":m.get("title"),"breaks":m.get("explanation"),"needs":m.get("needs"),
 "demo_dir":m.get("demo_dir"),"demo_run":m.get("demo_run"),
 "confirmed":{"how":"tools/verify_seed.sh in a scratch worktree of /repo HEAD: git apply patch.diff; full suite; copy seed_demo_test.go into demo_dir; go test -run TestSeedDemo with the patch; git checkout; same test without the patch","result":sys.argv[4]},
 "source":"independent sub-agent (later round) given only the property text and a scratch worktree"}
json.dump(out,open(sys.argv[2],"w"),indent=1)
PY
