#!/bin/bash
# usage: run_benign.sh [glob]
# Behaviour-preserving refactorings (benign/<name>/patch.diff): every check must stay silent.
cd /verif
glob=${1:-*}
props=$(python3 -c "import json;print(','.join(c['property_id'] for c in json.load(open('MANIFEST.json'))['checks']))")
export props
one() {
  s=$1; name=$(basename $s)
  wt=/tmp/benwt-$name; vd=/tmp/benvd-$name
  git -C /repo worktree remove --force $wt >/dev/null 2>&1; rm -rf $wt $vd
  git -C /repo worktree add --detach $wt HEAD >/dev/null 2>&1 || { echo "BENIGN $name: worktree failed"; return; }
  if ! git -C $wt apply /verif/$s/patch.diff 2>/dev/null; then echo "BENIGN $name: patch does not apply"; git -C /repo worktree remove --force $wt; return; fi
  if ! (cd $wt && GOPROXY=off GOFLAGS=-mod=mod go build ./... >/dev/null 2>&1); then echo "BENIGN $name: does not build"; git -C /repo worktree remove --force $wt; return; fi
  mkdir -p $vd/evidence; cp /verif/known_findings.json $vd/
  out=$(/verif/bin/lscheck -p $props -tier quick -repo $wt -verif $vd 2>&1)
  alarms=$(echo "$out" | grep -E "^  (VIOLATED|UNDECIDED)" | awk '{print substr($1,1,1)":"$2}' | sort -u | tr '\n' ',')
  git -C /repo worktree remove --force $wt >/dev/null 2>&1; rm -rf $vd
  if [ -z "$alarms" ]; then echo "BENIGN $name: silent"; else echo "BENIGN $name: FALSE-ALARM $alarms"; fi
}
export -f one
ls -d benign/$glob | xargs -P 8 -I{} bash -c 'one {}' | sort
