#!/bin/bash
# usage: verify_seed.sh <seed-out-dir (with patch.diff, seed_demo_test.go, meta.json)> <label>
# Confirms in a scratch worktree: patch applies to /repo HEAD, suite passes with it,
# demo fails with it, demo passes without it. Prints one RESULT line.
d="$1"; label="$2"
wt=/tmp/vseed-$label
git -C /repo worktree remove --force $wt >/dev/null 2>&1
rm -rf $wt
git -C /repo worktree add --detach $wt HEAD >/dev/null 2>&1 || { echo "RESULT $label worktree-failed"; exit 1; }
cd $wt
export GOPROXY=off GOFLAGS=-mod=mod
demodir=$(python3 -c "import json;print(json.load(open('$d/meta.json'))['demo_dir'])")
applied=clean
if ! git apply $d/patch.diff 2>/dev/null; then
  if git apply --3way $d/patch.diff >/dev/null 2>&1; then applied=3way; git reset -q; else applied=FAILED; fi
fi
if [ $applied = FAILED ]; then echo "RESULT $label apply=FAILED"; cd /; git -C /repo worktree remove --force $wt; exit 1; fi
git diff > $wt/.applied.diff
suite=pass
go build ./... >/dev/null 2>&1 || suite=BUILD-FAIL
if [ $suite = pass ]; then go test -vet=off -count=1 ./... >/tmp/vseed-$label.suite.log 2>&1 || suite=FAIL; fi
cp $d/seed_demo_test.go $demodir/seed_demo_test.go
with=pass
timeout 120 go test -vet=off -count=1 -run 'TestSeedDemo' ./$demodir/ >/tmp/vseed-$label.with.log 2>&1 || with=fail
git checkout -q -- . 
without=pass
timeout 120 go test -vet=off -count=1 -run 'TestSeedDemo' ./$demodir/ >/tmp/vseed-$label.without.log 2>&1 || without=fail
cp $wt/.applied.diff /tmp/vseed-$label.applied.diff
cd /
git -C /repo worktree remove --force $wt >/dev/null 2>&1
echo "RESULT $label apply=$applied suite=$suite demo_with_patch=$with demo_without_patch=$without"
