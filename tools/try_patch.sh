#!/bin/bash
# usage: try_patch.sh <dir with patch.diff> <props comma list> [binary]
d=$1; props=$2; bin=${3:-/verif/bin/lscheck}
name=$(basename $d); wt=/tmp/trywt-$name; vd=/tmp/tryvd-$name
git -C /repo worktree remove --force $wt >/dev/null 2>&1; rm -rf $wt $vd
git -C /repo worktree add --detach $wt HEAD >/dev/null 2>&1
git -C $wt apply /verif/$d/patch.diff || { echo "patch does not apply"; exit 1; }
mkdir -p $vd/evidence; cp /verif/known_findings.json $vd/
$bin -p $props -tier quick -repo $wt -verif $vd 2>&1 | grep -E "^  (VIOLATED|UNDECIDED)|^OK" | cut -c1-${COLS:-420} | head -${LINES_MAX:-25}
if [ -z "$KEEP" ]; then git -C /repo worktree remove --force $wt >/dev/null 2>&1; rm -rf $vd; fi
