#!/usr/bin/env python3
"""Generates /verif/MANIFEST.json from the checker's registry (lscheck -meta) and tools/claims.json."""
import json, os, subprocess
HERE = os.path.dirname(os.path.dirname(os.path.abspath(__file__)))
meta = json.loads(subprocess.check_output([os.path.join(HERE, "bin", "lscheck"), "-meta"]))
claims = json.load(open(os.path.join(HERE, "tools", "claims.json")))
props = [json.loads(l)["id"] for l in open(os.path.join(HERE, "properties.jsonl"))]

BASELINE = "cd /repo && GOPROXY=off GOFLAGS=-mod=mod go test -vet=off -count=1 ./..."
SETUP = ("cd /verif/checker && PATH=/opt/veriftools/go1.26.8/bin:$PATH GOTOOLCHAIN=local GOFLAGS=-mod=mod "
         "GOPROXY=off GOSUMDB=off GOWORK=off go build -o /verif/bin/lscheck .")
m = {
    "version": 1,
    "setup_cmd": SETUP,
    "hooks": {
        "guard": "verif",
        "enable": "no hooks are compiled into /repo: the checks read the type-checked source and its SSA form only (go/packages + go/ssa); nothing is built with a tag",
        "baseline_off_cmd": BASELINE,
        "source_commits": [],
        "add_only": True,
    },
    "engines": [
        {"name": "lscheck", "path": "checker/", "serves_properties": [p for p in props if claims.get(p, {}).get("claimed")],
         "kind_free_text": "repository-specific static analyser over go/packages + go/ssa (x/tools v0.50.0, go1.26.8): path-sensitive walk of SSA control-flow graphs with a finite relational domain (guarded-effect decision tables, configuration merging by liveness), table algebra on the extracted tables, dominance / must-pass-through on paths, who-may-call and reachability, lockset, token pairing, parser-cursor discipline, constant/table agreement"},
    ],
    "checks": [],
    "not_applicable": [],
    "notes": "All checks are static: they load /repo's current working tree (type-checked syntax + SSA) on every run and never execute lightningstream code. Every claim is level 'other': structural necessary conditions of the property, decided exactly for all paths / all cells of a finite ordering domain; what is not decided is stated per check in level_note and in DESIGN.md. Known genuine defects that were not repaired are listed in known_findings.json and reported as KNOWN-FINDING lines.",
}
for pid in props:
    c = claims.get(pid, {})
    if not c.get("claimed") or pid not in meta:
        m["not_applicable"].append({"property_id": pid, "reason": c.get("reason", "no static check built for this property in this round")})
        continue
    mt = meta[pid]
    m["checks"].append({
        "property_id": pid,
        "quick_cmd": f"./bin/lscheck -p {pid} -tier quick",
        "thorough_cmd": f"./bin/lscheck -p {pid} -tier thorough",
        "evidence_file": f"/verif/evidence/{pid}.json",
        "replay_cmd_template": "./bin/lscheck -explain {path}",
        "engine": "lscheck",
        "level_claimed": {"category": "other",
                          "text": mt["explanation"] + " This decides structural necessary conditions of the property for all paths and all cells, not the behaviour over histories/schedules: " + mt["not_decided"],
                          "design_ref": f"DESIGN.md §5 {pid}"},
        "level_note": "Trusted: go/types + go/ssa (x/tools v0.50.0), LMDB/lmdb-go, csproto, simpleblob, time/bytes semantics. Assumed: " + "; ".join(mt["assumptions"]) + ". Not decided: " + mt["not_decided"],
        "technique": c.get("technique", "static analysis: path-sensitive SSA walk, decision tables, dominance and who-may-call rules"),
    })
json.dump(m, open(os.path.join(HERE, "MANIFEST.json"), "w"), indent=1)
print("checks:", len(m["checks"]), "not_applicable:", len(m["not_applicable"]))
