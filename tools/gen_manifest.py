#!/usr/bin/env python3
"""Generates /verif/MANIFEST.json from the claim table below."""
import json, os, sys
HERE = os.path.dirname(os.path.dirname(os.path.abspath(__file__)))

# id -> (claimed?, one-line of what the static check decides, technique, not-decided note)
CLAIMS = json.load(open(os.path.join(HERE, "tools", "claims.json")))

BASELINE = "cd /repo && GOPROXY=off GOFLAGS=-mod=mod go test -vet=off -count=1 ./..."
SETUP = ("cd /verif/checker && PATH=/opt/veriftools/go1.26.8/bin:$PATH GOTOOLCHAIN=local GOFLAGS=-mod=mod "
         "GOPROXY=off GOSUMDB=off GOWORK=off go build -o /verif/bin/lscheck .")

m = {
    "version": 1,
    "setup_cmd": SETUP,
    "hooks": {
        "guard": "verif",
        "enable": "no hooks are compiled into /repo: the checks read the type-checked source and its SSA form only (go/packages + go/ssa), nothing is built with a tag",
        "baseline_off_cmd": BASELINE,
        "source_commits": [],
        "add_only": True,
    },
    "engines": [
        {"name": "lscheck", "path": "checker/", "serves_properties": [k for k, v in CLAIMS.items() if v["claimed"]],
         "kind_free_text": "repository-specific static analyser over go/packages + go/ssa (x/tools v0.50.0, go1.26.8): path-sensitive walk of SSA CFGs with a finite relational domain (guarded-effect decision tables), table algebra on the extracted tables, dominance / must-pass-through, who-may-call, lockset, token pairing, parser-cursor discipline, constant/table agreement"},
    ],
    "checks": [],
    "not_applicable": [],
    "notes": "All checks are static: they load /repo's current working tree (type-checked syntax + SSA) on every run and never execute lightningstream code. Every claim is level 'other': structural necessary conditions of the property, decided exactly for all paths / all cells of a finite ordering domain; what is not decided is stated per check in level_note and in DESIGN.md §5/§7.",
}
for pid in sorted(CLAIMS):
    c = CLAIMS[pid]
    if not c["claimed"]:
        m["not_applicable"].append({"property_id": pid, "reason": c["reason"]})
        continue
    m["checks"].append({
        "property_id": pid,
        "quick_cmd": f"./bin/lscheck -p {pid} -tier quick",
        "thorough_cmd": f"./bin/lscheck -p {pid} -tier thorough",
        "evidence_file": f"/verif/evidence/{pid}.json",
        "replay_cmd_template": "./bin/lscheck -explain {path}",
        "engine": "lscheck",
        "level_claimed": {"category": "other", "text": c["text"], "design_ref": f"DESIGN.md §5 {pid}"},
        "level_note": c["note"],
        "technique": c["technique"],
    })
json.dump(m, open(os.path.join(HERE, "MANIFEST.json"), "w"), indent=1)
print("checks:", len(m["checks"]), "not_applicable:", len(m["not_applicable"]))
