#!/bin/bash
# usage: run_seeds.sh [seed-name-glob] [props...]
# For each seeded patch: scratch worktree of /repo HEAD, apply the patch, run the
# quick checks against it (-repo), record which fire; worktree removed again.
# /repo itself is not touched. Runs 8 seeds in parallel.
cd /verif
glob=${1:-*}; shift
props="$@"
if [ -z "$props" ]; then props=$(python3 -c "import json;print(' '.join(c['property_id'] for c in json.load(open('MANIFEST.json'))['checks']))"); fi
export props
one() {
  s=$1; name=$(basename $s)
  wt=/tmp/seedwt-$name; vd=/tmp/seedvd-$name
  git -C /repo worktree remove --force $wt >/dev/null 2>&1; rm -rf $wt $vd
  git -C /repo worktree add --detach $wt HEAD >/dev/null 2>&1 || { echo "SEED $name: worktree failed"; return; }
  if ! git -C $wt apply /verif/$s/patch.diff 2>/dev/null; then echo "SEED $name: patch does not apply"; git -C /repo worktree remove --force $wt; return; fi
  mkdir -p $vd/evidence; cp /verif/known_findings.json $vd/
  caught=""
  out=$(/verif/bin/lscheck -p $(echo $props | tr ' ' ',') -tier quick -repo $wt -verif $vd 2>&1)
  for p in $props; do
    if echo "$out" | grep -q "VIOLATION property=$p "; then
      rules=$(echo "$out" | grep -E "^  (VIOLATED|UNDECIDED) $p-" | awk '{print substr($1,1,1)":"$2}' | sort -u | tr '\n' ',' )
      caught="$caught $p[$rules]"
    fi
  done
  git -C /repo worktree remove --force $wt >/dev/null 2>&1; rm -rf $vd
  own=${name%%-*}
  if echo "$caught" | grep -q "$own\["; then verdict=CAUGHT-BY-OWN; elif [ -n "$caught" ]; then verdict=CAUGHT-BY-OTHER; else verdict=MISSED; fi
  echo "SEED $name: $verdict $caught"
}
export -f one
ls -d seeded/$glob | xargs -P 8 -I{} bash -c 'one {}' | sort
