#!/bin/bash
# usage: run_seeds.sh [seed-name-glob] [props...]   (default: all seeds, each against every claimed check)
# Applies each seeded patch to /repo, runs the quick checks, reverts. Prints a matrix line per seed.
cd /verif
glob=${1:-*}; shift
props="$@"
if [ -z "$props" ]; then props=$(python3 -c "import json;print(' '.join(c['property_id'] for c in json.load(open('MANIFEST.json'))['checks']))"); fi
if [ -n "$(git -C /repo status --porcelain)" ]; then echo "/repo not clean"; exit 2; fi
trap 'git -C /repo checkout -q -- . ; git -C /repo clean -fdq' EXIT
for s in seeded/$glob; do
  [ -f $s/patch.diff ] || continue
  name=$(basename $s)
  if ! git -C /repo apply $PWD/$s/patch.diff 2>/dev/null; then echo "SEED $name: patch does not apply"; continue; fi
  caught=""
  for p in $props; do
    out=$(./bin/lscheck -p $p -tier quick 2>&1); rc=$?
    if [ $rc -ne 0 ]; then
      rules=$(echo "$out" | grep -E "^  (VIOLATED|UNDECIDED)" | awk '{print $1":"$2}' | sort -u | tr '\n' ',' )
      caught="$caught $p[$rules]"
    fi
  done
  git -C /repo checkout -q -- .
  git -C /repo clean -fdq
  own=${name%%-*}
  if echo "$caught" | grep -q "$own\["; then verdict=CAUGHT-BY-OWN; elif [ -n "$caught" ]; then verdict=CAUGHT-BY-OTHER; else verdict=MISSED; fi
  echo "SEED $name: $verdict $caught"
done
# restore evidence for the unchanged tree
for p in $props; do ./bin/lscheck -p $p -tier quick >/dev/null 2>&1; done
